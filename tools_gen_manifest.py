#!/usr/bin/env python3
"""Regenerates MANIFEST.json from props/*.py metadata (MANIFEST dict in each module) and validates it."""
import importlib, json, os, sys
HERE = os.path.dirname(os.path.abspath(__file__))
sys.path.insert(0, os.path.join(HERE, "lib")); sys.path.insert(0, HERE)

ALL = [f"C{i:02d}" for i in range(1, 21)]
checks, na = [], []
for pid in ALL:
    try:
        m = importlib.import_module(f"props.{pid.lower()}")
    except ModuleNotFoundError:
        na.append({"property_id": pid, "reason": "check not built yet (work in progress; see DESIGN.md section 3 for the plan)"})
        continue
    if not getattr(m, "READY", False) and not getattr(m, "NOT_APPLICABLE", None):
        na.append({"property_id": pid, "reason": "check under construction (harnesses exist but are not yet accepted; see DESIGN.md section 3)"})
        continue
    if getattr(m, "NOT_APPLICABLE", None):
        na.append({"property_id": pid, "reason": m.NOT_APPLICABLE})
        continue
    md = m.MANIFEST
    checks.append({
        "property_id": pid,
        "quick_cmd": f"./check {pid} --tier quick",
        "thorough_cmd": f"./check {pid} --tier thorough",
        "evidence_file": f"/verif/evidence/{pid}.json",
        "replay_cmd_template": f"./check {pid} --replay {{path}}",
        "engine": md["engine"],
        "level_claimed": {"category": "model_checking", "text": md["level_text"], "design_ref": md["design_ref"]},
        "level_note": md["level_note"],
        "technique": md["technique"],
    })
man = {
    "version": 1,
    "setup_cmd": "./setup.sh",
    "hooks": {
        "guard": "teamon9161_tevec_verif",
        "enable": "no source hooks are needed: harnesses live in the out-of-tree crate /verif/kani (path dependencies on /repo) "
                  "and the MIR->SMT executor reads rustc's MIR dump of /repo; nothing in /repo is compiled with the guard",
        "baseline_off_cmd": "cd /repo && cargo test --workspace --no-fail-fast --offline",
        "source_commits": [],
        "add_only": True,
    },
    "engines": [
        {"name": "K", "path": "/verif/kani + /verif/lib/kani_engine.py",
         "serves_properties": [c["property_id"] for c in checks if "K" in c["engine"]],
         "kind_free_text": "Kani 0.68 / CBMC 6.11 (CaDiCaL) bounded model checking of the compiled crates; harness crate with path deps on /repo"},
        {"name": "M", "path": "/verif/lib/mir_engine",
         "serves_properties": [c["property_id"] for c in checks if "M" in c["engine"]],
         "kind_free_text": "MIR->SMT symbolic executor (rustc nightly -Zunpretty=mir of /repo, z3 4.8.12 decides, cvc5 cross-check)"},
    ],
    "checks": checks,
    "notes": "All verdicts are bounded (bounds per property in evidence/<id>.json under coverage.bounds and coverage.outside_claim). "
             "Exit 2 = inconclusive (timeout, OOM, unsupported construct, non-reproducing counterexample): never a pass, never a VIOLATION.",
    "not_applicable": na,
}
json.dump(man, open(os.path.join(HERE, "MANIFEST.json"), "w"), indent=1)
try:
    import jsonschema
    jsonschema.validate(man, json.load(open("/root/.vp/MANIFEST.schema.json")))
    print("MANIFEST valid;", len(checks), "checks,", len(na), "not applicable")
except ImportError:
    print("jsonschema not importable; wrote MANIFEST without validation")
