#!/bin/sh
# Offline setup: pre-build the Kani harness crate's dependencies (from /repo and the cargo cache) so that
# the first check does not pay for them. Nothing is fetched.
set -e
cd "$(dirname "$0")"
export CARGO_NET_OFFLINE=true
mkdir -p .work evidence replays
cp /repo/Cargo.lock kani/Cargo.lock 2>/dev/null || true
(cd kani && cargo kani --target-dir ../.work/kani-target --features c16 --no-overflow-checks -Z stubbing --only-codegen >/dev/null 2>&1) || echo "setup: kani pre-build failed (checks will report it)"
echo "setup done"
