#!/usr/bin/env python3
"""Generates /verif/kani/src/c10_gen.rs: the C10 harness table (instruments and generic bodies live in c10.rs).

Layer 1 — drivers with an arbitrary callback, output container `Logged<u8, N>`:
  c10_drv_<be>_<ret|out>_<Ns>   the six drivers (Array1: the four non-slice drivers; slice forms `c10_drvc_nd_*` thorough),
                                returned path / caller-buffer path, window 1..=N+3                  (expected to hold)
  c10_w0_empty_vec_nd           window 0 on an empty series, fast paths                             (expected to hold)
  c10_w0_drivers_<be>_n<N>      window 0, non-empty series: the five fast-path overrides (returned) and, for Vec, the
                                five `*_to` bodies (caller buffer) — symbolic choice, own messages   (DEFECT expected)
  c10_w0_out_<be>_n<N>          window 0, caller-buffer path on Array1 / DefView (thorough)          (DEFECT expected)
  c10_short2_n<N>               second series one element shorter (apply2 / idx2 / custom2)          (DEFECT expected)
  c10_panic_w0_<drv>_<be>       window 0 where the tree panics cleanly: #[kani::should_panic], plain Vec output
Layer 2 — self-indexing kernels, output `Logged<f64, N>`; views: arr = [T; N] (the `impl_vec1!` fast path of Vec without
a heap object: 3x cheaper), vec = Vec<T> (thorough), dv = util::DefView (default bodies, checked uget):
  c10_cmp_<kernel>_<view>_<Ns>  ts_vmin / vmax / vargmin / vargmax / ts_vrank, window 1..=N+3, min_periods None | 0..=N+3
  c10_minmaxnorm_<view>_<Ns>    ts_vminmaxnorm
  c10_resid_<kind>_<view>_<Ns>  ts_vregx_resid_mean (quick) / std / skew (thorough, DefView only) — safety only
  c10_vrank_<view>_<Ns>, c10_quantile_<view>_<Ns>, c10_argpartition_<view>_<tag>_n<N>, c10_vpartition_<view>_<tag>_n<N>
  c10_empty_<view>              the rolling kernels on an empty series (window from 0 on the fast path)
  c10_vrank_empty               ts_vrank on an empty Vec (underflowed in the pinned tree; C05)
  c10_w0_kernels_vec_n2         window 0 through the kernels on Vec                                  (DEFECT expected)
Windows: symbolic for DefView and for the drivers; enumerated by a concrete loop for kernels on fast-path inputs (see wloop).
Quick: N <= 3; thorough adds N = 4, Vec inputs for the kernels and further lengths of the defect harnesses.
"""
import os
OUT = os.path.join(os.path.dirname(os.path.abspath(__file__)), "..", "kani", "src", "c10_gen.rs")

H = []


def add(name, body, unwind, thorough=False, should_panic=False, stub=True):
    assert name.startswith("c10_") and all(name != h[0] for h in H), name
    L = []
    if thorough:
        L.append('#[cfg(feature = "thorough")]')
    L.append("#[kani::proof]")
    if should_panic:
        L.append("#[kani::should_panic]")
    if stub:
        L.append("#[kani::stub(std::fmt::format, crate::util::fmt_stub)]")
    L.append(f"#[kani::unwind({unwind})]")
    L.append(f"pub fn {name}() {{")
    L += ["    " + b for b in body]
    L.append("}")
    H.append((name, "\n".join(L)))


def ns(nl):
    return "".join(f"n{n}" for n in nl)


# ------------------------------------------------------------------------------------------ layer 1
def setup2(be, n, n2=None, ty="i32"):
    """statements building v (length n) and v2 (length n2) from fresh symbolic arrays"""
    n2 = n if n2 is None else n2
    S = [f"let xs: [{ty}; {n}] = kani::any();", f"let ys: [{ty}; {n2}] = kani::any();"]
    if be == "vec":
        S += [f"let v: Vec<{ty}> = xs.to_vec();", f"let v2: Vec<{ty}> = ys.to_vec();"]
    elif be == "nd":
        S += ["let v = nd_owned(&xs[..]);", "let v2 = nd_owned(&ys[..]);"]
    elif be == "dv":
        # rolling2_custom over a borrowing view only type-checks for 'static storage (signature quirk of the library)
        S += [f"let sx: &'static [{ty}] = Box::leak(xs.to_vec().into_boxed_slice());",
              f"let sy: &'static [{ty}] = Box::leak(ys.to_vec().into_boxed_slice());",
              "let v = DefView(sx);", "let v2 = DefView(sy);"]
    elif be == "vec_dv":      # Vec first series, checked view as the second
        S += [f"let v: Vec<{ty}> = xs.to_vec();", f"let sy: &'static [{ty}] = Box::leak(ys.to_vec().into_boxed_slice());",
              "let v2 = DefView(sy);"]
    return S


def wloop(view, n, stmts):
    """windows 1..=N+3. Fast-path inputs (Vec, [T; N], Array1): concrete loop — with a symbolic window the slot index
    handed to `uset` is symbolic and the write log becomes an array-theory problem (measured 3-7x slower).
    DefView (default bodies = iterator chains): symbolic window (the concrete loop is 3-7x slower there)."""
    if view == "dv":
        return [f"let w = any_window::<{n}>(1);"] + stmts
    return ["let mut w = 1usize;", f"while w <= {n} + 3 {{"] + ["    " + x for x in stmts] + ["    w += 1;", "}"]


DRV = {  # name -> (ret call, out call)
    "apply":   ("apply_ret::<i32, _, {N}>(&v, w);", "apply_out::<i32, _, {N}>(&v, w);"),
    "idx":     ("idx_ret::<i32, _, {N}>(&v, w);", "idx_out::<i32, _, {N}>(&v, w);"),
    "apply2":  ("apply2_ret::<i32, _, _, {N}>(&v, &v2, w);", "apply2_out::<i32, _, _, {N}>(&v, &v2, w);"),
    "idx2":    ("idx2_ret::<i32, _, _, {N}>(&v, &v2, w);", "idx2_out::<i32, _, _, {N}>(&v, &v2, w);"),
    "custom":  ("custom_ret!(v, w, {N});", "custom_out!(v, w, {N});"),
    "custom2": ("custom2_ret!(v, &v2, w, {N});", "custom2_out!(v, &v2, w, {N});"),
}


def drv_main(be, path, nl, thorough=False, drivers=None, tag="drv"):
    """path: 0 = returned (O = Logged), 1 = caller buffer (Some(out) over a Logged buffer)"""
    B = ["let (mut short, mut long) = (false, false);"]
    for n in nl:
        B.append("{")
        B += ["    " + s for s in setup2(be, n)]
        calls = [c[path].format(N=n) for d, c in DRV.items() if drivers is None or d in drivers]
        B += ["    " + x for x in wloop("dv" if be in ("dv", "vec", "nd") else be, n, calls + [f"short |= w < {n};", f"long |= w > {n};"])]
        B.append("}")
    if max(nl) >= 2:
        B.append('kani::cover!(short, "window shorter than the series");')
    B.append('kani::cover!(long, "window longer than the series");')
    add(f"c10_{tag}_{be}_{('ret', 'out')[path]}_{ns(nl)}", B, max(nl) + 4, thorough)


def selector(cases, n):
    """symbolic choice between the statements in `cases` (each runs alone, so every defect is reported)"""
    B = ["let which: u8 = kani::any();", f"kani::assume(which < {len(cases)});", "match which {"]
    for i, c in enumerate(cases):
        pat = "_" if i == len(cases) - 1 else str(i)
        B.append(f"    {pat} => {{ {c.format(N=n)} }},")
    B.append("}")
    return B


FAST = ["apply", "idx", "apply2", "idx2", "custom"]   # drivers overridden by the Vec / ndarray fast paths


def w0_drivers(be, n, thorough=False):
    """window 0 on a non-empty series, one symbolic choice between the five fast-path overrides (returned path) and —
    for Vec — the five `*_to` bodies (caller buffer). One harness per backend (one counterexample replay each); every
    case has its own assertion messages / monomorphised function."""
    B = setup2(be, n) + ["let w = 0usize;"]
    cases = [DRV[d][0] for d in FAST]
    if be == "vec":
        cases += [DRV[d][1] for d in FAST]
    B += selector(cases, n)
    add(f"c10_w0_drivers_{be}_n{n}", B, n + 4, thorough)


def w0_out(be, n, thorough=False):
    drivers = FAST if be != "dv" else ["apply", "idx", "apply2", "idx2"]   # dv: rolling_custom(w=0) underflows first
    B = setup2(be, n) + ["let w = 0usize;"] + selector([DRV[d][1] for d in drivers], n)
    add(f"c10_w0_out_{be}_n{n}", B, n + 4, thorough)


def w0_empty():
    B = []
    for be in ("vec", "nd"):
        B.append("{")
        B += ["    " + s for s in setup2(be, 0)] + ["    let w = 0usize;"]
        for d in FAST:
            B += ["    " + DRV[d][0].format(N=0), "    " + DRV[d][1].format(N=0)]
        B.append("}")
    add("c10_w0_empty_vec_nd", B, 4)


def short2(n, thorough=False):
    """second series one element shorter than the first; symbolic choice between rolling2_apply (Vec other: pointer
    checks), rolling2_apply_idx (DefView other: checked uget) and rolling2_custom (Vec other)"""
    B = setup2("vec", n, n - 1) + [f"let sy: &'static [i32] = Box::leak(ys.to_vec().into_boxed_slice());", "let dv2 = DefView(sy);",
                                    f"let w = any_window::<{n}>(1);"]
    B += selector([DRV["apply2"][0], DRV["idx2"][0].replace("&v2", "&dv2"), DRV["custom2"][0]], n)
    add(f"c10_short2_n{n}", B, n + 4, thorough)


def panic_w0(drv, be):
    """window 0 where the pinned tree panics before touching memory; plain Vec<u8> output, N = 1"""
    call = {
        "apply": "let _o: Vec<u8> = v.rolling_apply(0, |_rm, _x| kani::any::<u8>(), None).unwrap();",
        "idx": "let _o: Vec<u8> = v.rolling_apply_idx(0, |_s, _e, _x| kani::any::<u8>(), None).unwrap();",
        "apply2": "let _o: Vec<u8> = v.rolling2_apply(&v2, 0, |_rm, _x| kani::any::<u8>(), None).unwrap();",
        "idx2": "let _o: Vec<u8> = v.rolling2_apply_idx(&v2, 0, |_s, _e, _x| kani::any::<u8>(), None).unwrap();",
        "custom": "let _o: Vec<u8> = v.rolling_custom(0, |s| { touch(&s); kani::any::<u8>() }, None).unwrap();",
        "custom2": "let _o: Vec<u8> = v.rolling2_custom(&v2, 0, |s, t| { touch(&s); touch(&t); kani::any::<u8>() }, None).unwrap();",
    }[drv]
    add(f"c10_panic_w0_{drv}_{be}", setup2(be, 1) + [call], 5, should_panic=True)


# ------------------------------------------------------------------------------------------ layer 2
# views: arr = [T; N] (same fast-path text as Vec — `impl_vec1!(view ...)` — without a heap object: 3x cheaper for
# CBMC; get_unchecked is seen by Kani's pointer checks), vec = Vec<T> (thorough tier), dv = util::DefView.
def view_opt(view, n, small):
    S = [f"let x = opt_data::<{n}>({str(small).lower()});"]
    if view == "vec" or (n == 0 and view != "dv"):
        S.append("let v: Vec<Option<i32>> = x.to_vec();")
    elif view == "arr":
        S.append("let v = x;")
    elif n == 0:   # a zero-length stack array is not a pointer CBMC reasons about: heap-backed empty slice
        S += ["let sx: Vec<Option<i32>> = x.to_vec();", "let v = DefView(&sx[..]);"]
    else:
        S.append("let v = DefView(&x[..]);")
    return S


def view_f64(view, n):
    S = [f"let a = f64_fixed::<{n}>(1);", f"let b = f64_fixed::<{n}>(2);"]
    if view == "vec" or (n == 0 and view != "dv"):
        S += ["let va: Vec<f64> = a.to_vec();", "let vb: Vec<f64> = b.to_vec();"]
    elif view == "arr":
        S += ["let va = a;", "let vb = b;"]
    elif n == 0:
        S += ["let sa: Vec<f64> = a.to_vec();", "let sb: Vec<f64> = b.to_vec();", "let va = DefView(&sa[..]);", "let vb = DefView(&sb[..]);"]
    else:
        S += ["let va = DefView(&a[..]);", "let vb = DefView(&b[..]);"]
    return S


CMP = {"vmin": "k_vmin", "vmax": "k_vmax", "vargmin": "k_vargmin", "vargmax": "k_vargmax", "tsrank": "k_tsrank"}


def cmp_h(kernel, view, nl, thorough=False):
    B = ["let (mut short, mut some_mp) = (false, false);"]
    for n in nl:
        B.append("{")
        B += ["    " + s for s in view_opt(view, n, False)]
        B.append(f"    let mp = any_mp::<{n}>();")
        B += ["    " + x for x in wloop(view, n, [f"{CMP[kernel]}::<_, {n}>(&v, w, mp);", f"short |= w < {n};"])]
        B.append("    some_mp |= mp.is_some();")
        B.append("}")
    if max(nl) >= 2:
        B.append('kani::cover!(short, "window shorter than the series");')
    B.append('kani::cover!(some_mp, "explicit min_periods");')
    add(f"c10_cmp_{kernel}_{view}_{ns(nl)}", B, max(nl) + 4, thorough)


def minmaxnorm_h(view, nl, thorough=False):
    B = []
    for n in nl:
        B.append("{")
        B += ["    " + s for s in view_opt(view, n, True)]
        B.append(f"    let mp = any_mp::<{n}>();")
        B += ["    " + x for x in wloop(view, n, [f"k_minmaxnorm::<_, {n}>(&v, w, mp);"])]
        B.append("}")
    add(f"c10_minmaxnorm_{view}_{ns(nl)}", B, max(nl) + 4, thorough)


def resid_h(kind, view, nl, thorough=False, masks=None):
    """Float-heavy kernels (safety only). Their indices never depend on a data *value*: they are the driver's
    start/end, and the data only gates — through `n >= min_periods` — whether the j-loop over the window runs.
    * masks is None (DefView): fixed values, symbolic NaN masks, symbolic window, symbolic min_periods.
    * masks = [(ma, mb)] (fast-path inputs): fixed values, the listed concrete NaN masks, windows 1..=N+3 by a concrete
      loop, min_periods symbolic — so that every float operation constant-folds (CBMC does not finish the fast path
      with symbolic positions in the float data: > 600 s at N = 2)."""
    B = []
    for n in nl:
        B.append("{")
        B.append(f"    let mp = any_mp::<{n}>();")
        if masks is None:
            B += ["    " + x for x in view_f64(view, n)]
            B += ["    " + x for x in wloop(view, n, [f"k_resid_{kind}::<_, _, {n}>(&va, &vb, w, mp);"])]
        else:
            for ma, mb in masks:
                B.append("    {")
                B.append(f"        let a = f64_masked::<{n}>(1, {ma});")
                B.append(f"        let b = f64_masked::<{n}>(2, {mb});")
                if view == "vec":
                    B += ["        let va: Vec<f64> = a.to_vec();", "        let vb: Vec<f64> = b.to_vec();"]
                else:
                    B += ["        let va = a;", "        let vb = b;"]
                B += ["        " + x for x in wloop(view, n, [f"k_resid_{kind}::<_, _, {n}>(&va, &vb, w, mp);"])]
                B.append("    }")
        B.append("}")
    add(f"c10_resid_{kind}_{view}_{ns(nl)}", B, max(nl) + 4, thorough)


def vrank_h(view, nl, thorough=False):
    B = []
    for n in nl:
        B.append("{")
        B += ["    " + s for s in view_opt(view, n, True)]
        B.append(f"    k_vrank::<_, {n}>(&v);")
        B.append("}")
    add(f"c10_vrank_{view}_{ns(nl)}", B, max(nl) + 5, thorough)


def quantile_h(view, nl, thorough=False):
    B = []
    for n in nl:
        B.append("{")
        B += ["    " + s for s in view_opt(view, n, True)]
        B.append(f"    k_quantile::<_, {n}>(&v);")
        B.append("}")
    add(f"c10_quantile_{view}_{ns(nl)}", B, max(nl) + 5, thorough)


def part_h(fn, view, n, tag, calls, thorough=False):
    """calls: [(k, sort, rev)] concrete"""
    B = view_opt(view, n, True)
    for k, srt, rev in calls:
        B.append(f"k_{fn}::<_, {n}>(&v, {k}, {str(srt).lower()}, {str(rev).lower()});")
    add(f"c10_{fn}_{view}_{tag}_n{n}", B, n + 5, thorough)


def empty_h(view):
    wlo = 0      # an empty series gives an empty result for every window on every backend (default bodies too, since b02e1d7)
    B = view_opt(view, 0, True)
    B.append("cmp_all::<_, 0>(&v, 0);")
    B.append(f"k_minmaxnorm::<_, 0>(&v, any_window::<0>({wlo}), any_mp::<0>());")
    B += view_f64(view, 0)
    B.append(f"num_all::<_, _, 0>(&va, &vb, {wlo});")
    add(f"c10_empty_{view}", B, 4)


def w0_kernels(n, thorough=False):
    B = view_opt("vec", n, True) + view_f64("vec", n) + [f"let mp = any_mp::<{n}>();"]
    cases = ["k_vmin::<_, {N}>(&v, 0, mp);", "k_vmax::<_, {N}>(&v, 0, mp);", "k_vargmin::<_, {N}>(&v, 0, mp);",
             "k_vargmax::<_, {N}>(&v, 0, mp);", "k_tsrank::<_, {N}>(&v, 0, mp);", "k_minmaxnorm::<_, {N}>(&v, 0, mp);",
             "k_resid_mean::<_, _, {N}>(&va, &vb, 0, mp);", "k_resid_std::<_, _, {N}>(&va, &vb, 0, mp);",
             "k_resid_skew::<_, _, {N}>(&va, &vb, 0, mp);"]
    B += selector(cases, n)
    add(f"c10_w0_kernels_vec_n{n}", B, n + 4, thorough)


def layer2():
    for k in CMP:
        cmp_h(k, "arr", [1, 2, 3])
        cmp_h(k, "dv", [3]); cmp_h(k, "dv", [1, 2], True)
        cmp_h(k, "arr", [4], True); cmp_h(k, "dv", [4], True); cmp_h(k, "vec", [3], True)
    for view in ("arr", "dv"):
        minmaxnorm_h(view, [3]); minmaxnorm_h(view, [1, 2], True); minmaxnorm_h(view, [4], True)
        empty_h(view)
    minmaxnorm_h("vec", [3], True)
    # regression residuals: mean in the quick tier; std / skew (sqrt, powi: no constant folding) only on DefView, thorough
    resid_h("mean", "arr", [3], False, [(0, 0), (0b010, 0b001)])
    resid_h("mean", "dv", [3])
    resid_h("mean", "dv", [2], True)
    resid_h("std", "dv", [3], True)        # 560 s measured
    resid_h("std", "dv", [2], True)
    resid_h("skew", "dv", [2], True)       # 170 s measured; N = 3 > 600 s
    vrank_h("arr", [0, 1, 2]); vrank_h("arr", [3]); vrank_h("dv", [3]); vrank_h("dv", [0, 1, 2], True)
    vrank_h("arr", [4], True); vrank_h("dv", [4], True); vrank_h("vec", [3], True)
    quantile_h("arr", [3]); quantile_h("dv", [3], True); quantile_h("arr", [0, 1, 2], True); quantile_h("arr", [4], True)
    # varg_partition indexes the input with the sorted positions; vpartition works on a copy
    part_h("argpartition", "arr", 3, "in", [(1, False, False), (1, True, True)])
    part_h("argpartition", "arr", 3, "pad", [(3, True, False), (4, False, False)])
    part_h("argpartition", "dv", 3, "in", [(1, False, False), (1, True, True)])
    part_h("argpartition", "dv", 3, "pad", [(3, True, False), (4, False, False)], True)
    part_h("argpartition", "arr", 4, "in", [(0, True, False), (2, False, True)], True)
    part_h("argpartition", "vec", 3, "in", [(1, False, False), (1, True, True)], True)
    part_h("vpartition", "arr", 3, "mix", [(1, True, False), (3, True, True)])
    part_h("vpartition", "arr", 3, "unsorted", [(1, False, False), (3, False, False), (4, False, True)])   # after seeded change C10-m2
    part_h("vpartition", "dv", 3, "mix", [(1, True, False), (3, True, True)], True)
    w0_kernels(2)
    # ts_vrank on an empty series: `window - 1` underflowed in the pinned tree (recorded under C05); an ordinary harness —
    # it fails with that panic on a tree without the fix
    add("c10_vrank_empty", ["let v: Vec<Option<i32>> = Vec::new();",
                            "k_tsrank::<_, 0>(&v, any_window::<0>(0), any_mp::<0>());"], 4)
    # (the former should_panic harness c10_panic_cmp_empty_dv — extrema on an empty DefView hit assert!(window > 0) — is gone: that
    # panic was the C05 defect repaired by b02e1d7; c10_empty_dv now runs the extrema there as an ordinary harness)


def main():
    for path in (0, 1):
        for nl in ([0, 1], [2], [3]):
            drv_main("vec", path, nl, False)
            # Array1: the slice forms dominate (ndarray slicing; all six drivers at N = 3: 380-450 s measured).
            # Same fast-path text as Vec; the slice forms on Array1 are exercised by C02 at N = 2.
            drv_main("nd", path, nl, nl != [2], ("apply", "idx", "apply2", "idx2"))
            drv_main("nd", path, nl, True, ("custom", "custom2"), "drvc")
            drv_main("dv", path, nl, nl != [3])
        for be in ("vec", "dv"):
            drv_main(be, path, [4], True)
    w0_empty()
    for be in ("vec", "nd"):
        w0_drivers(be, 2)
        w0_drivers(be, 1, True)
        w0_drivers(be, 3, True)
    w0_out("nd", 2, True)
    w0_out("dv", 2, True)
    short2(2)
    short2(3, True)
    for d in ("apply", "idx", "apply2", "idx2", "custom", "custom2"):
        panic_w0(d, "dv")
    panic_w0("custom2", "vec")
    layer2()
    out = ["// @generated by /verif/tools/gen_c10.py — do not edit by hand\n"] + [h[1] for h in H]
    open(OUT, "w").write("\n\n".join(out) + "\n")
    quick = sum('feature = "thorough"' not in h[1] for h in H)
    print("wrote", OUT, len(H), "harnesses,", quick, "quick")


main()
