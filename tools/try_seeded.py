#!/usr/bin/env python3
"""try_seeded.py <seed id> <PROP> [more PROPs] — applies /verif/seeded/<id>/patch.diff in a scratch worktree of /repo HEAD and runs
the quick check(s) against that worktree (VERIF_REPO), recording exit code and verdict lines in seeded/<id>/meta.json["detection"]."""
import json, os, subprocess, sys, time
sid, props = sys.argv[1], sys.argv[2:]
wt = f"/tmp/seedrun_{sid}"
subprocess.run(f"git -C /repo worktree remove --force {wt}", shell=True, stdout=subprocess.DEVNULL, stderr=subprocess.DEVNULL)
subprocess.check_call(f"git -C /repo worktree add -q --detach {wt} HEAD", shell=True)
meta_p = f"/verif/seeded/{sid}/meta.json"
meta = json.load(open(meta_p))
det = meta.setdefault("detection", {})
try:
    subprocess.check_call(f"git apply /verif/seeded/{sid}/patch.diff", shell=True, cwd=wt)
    for prop in props:
        t0 = time.time()
        p = subprocess.run(f"./check {prop} --tier quick --jobs 8", shell=True, cwd="/verif", env=dict(os.environ, VERIF_REPO=wt),
                           stdout=subprocess.PIPE, stderr=subprocess.STDOUT, text=True)
        lines = [l for l in p.stdout.splitlines() if l.startswith(("VIOLATION", "  failing obligation", "INCONCLUSIVE", "KNOWN-FINDING", "[" + prop))]
        det[prop] = {"exit": p.returncode, "wall_s": round(time.time() - t0), "lines": lines[:8],
                     "repo_commit": subprocess.check_output("git -C /repo rev-parse --short HEAD", shell=True, text=True).strip()}
        print(sid, prop, "exit", p.returncode, f"{time.time()-t0:.0f}s")
        for l in lines[:6]:
            print("   ", l[:300])
finally:
    subprocess.run(f"git -C /repo worktree remove --force {wt}", shell=True)
    import shutil
    shutil.rmtree(f"/verif/.work/alt-seedrun_{sid}", ignore_errors=True)
json.dump(meta, open(meta_p, "w"), indent=1)
