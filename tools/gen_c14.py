#!/usr/bin/env python3
"""Generates /verif/kani/src/c14_gen.rs: the C14 harness table (generic bodies live in c14.rs).
Tier "q" = quick, "t" = thorough only (behind feature "thorough")."""
import os
OUT = os.path.join(os.path.dirname(os.path.abspath(__file__)), "..", "kani", "src", "c14_gen.rs")
H = []


def add(name, tier, unwind, body):
    assert name.startswith("c14_") and all(name != h[0] for h in H), name
    H.append((name, tier, unwind, body))


def es(el):
    return "".join(f"e{e}" for e in el)


def ns(nl):
    return "".join(f"n{n}" for n in nl)


def vcut(right, bounds, el, tier, nv=1, vals=None):
    side = "right" if right else "left"
    if vals is None:
        vals = "NotExcludedExtreme" if bounds else "All"
    b = ["let mut fl = CutFlags::default();"]
    for e in el:
        b.append(f"cut_case{'' if nv == 1 else '2'}::<{e}, {e + 2}>({str(right).lower()}, {str(bounds).lower()}, Vals::{vals}, &mut fl);")
    emax = max(el)
    b.append('kani::cover!(fl.mismatch, "label count does not match the edges");')
    if vals == "ExcludedExtreme":
        b.append('assert!(!fl.extreme_unlabelled, "open bounds: the extreme value of the type is labelled like any other value");')
        b.append('kani::cover!(fl.extreme, "the extreme value of the type under open bounds");')
        name = f"c14_vcut_open_extreme_{side}_{es(el)}"
    else:
        if bounds or emax >= 2:
            b.append('kani::cover!(fl.labelled, "value inside an interval");')
        if bounds or emax >= 1:
            b.append('kani::cover!(fl.null, "null value");')
        if emax >= 1:
            b.append('kani::cover!(fl.on_edge, "value equal to an edge");')
        if not bounds and emax >= 1:
            b.append('kani::cover!(fl.outside, "value outside all intervals");')
        name = f"c14_vcut_{side}_{'open' if bounds else 'closed'}_{es(el)}" + ("_v2" if nv == 2 else "")
    add(name, tier, emax + 5, b)


TY = {"opt": "Option<i32>", "f64": "f64"}


def uniq(kind, ty, nl, tier, nulls, tag=""):
    T = TY[ty]
    small = ty == "f64"      # f64 run values from -8..=8 (exact), Option<i32> run values unconstrained
    b = ["let mut fl = UFlags::default();"]
    for n in nl:
        if kind == "val":
            b.append(f"unique_val_case::<{T}, {n}>(Nulls::{nulls}, {str(small).lower()}, &mut fl);")
        else:
            b.append(f"unique_idx_case::<{T}, {n}>({str(kind == 'last').lower()}, Nulls::{nulls}, {str(small).lower()}, &mut fl);")
    nmax = max(nl)
    if nulls == "Leading":
        assert min(nl) >= 2
        b.append('kani::cover!(fl.nulls_and_values, "null block in front of valid elements");')
        if nmax >= 3:
            b.append('kani::cover!(fl.long_run, "run longer than one element");')
    else:
        if nmax >= 2:
            b.append('kani::cover!(fl.long_run, "run longer than one element");')
            b.append('kani::cover!(fl.several_runs, "several runs");')
            b.append('kani::cover!(fl.desc, "descending input");')
            b.append('kani::cover!(fl.nulls_and_values, "null block next to valid elements");')
        if nmax >= 1:
            b.append('kani::cover!(fl.all_null, "all-null input");')
    fam = {"first": "unique_idx_first", "last": "unique_idx_last", "val": "unique_val"}[kind]
    add(f"c14_{fam}{tag}_{ty}_{ns(nl)}", tier, nmax + 4, b)


# vcut: (right, add_bounds) literals; E edges, all label counts 0..=E+1 inside each harness
for right in (True, False):
    for bounds in (True, False):
        # one harness per edge count: merged harnesses cost more than the sum (pointer analysis grows with
        # the number of heap objects: 107 s merged against 26 + 19 + 23 s)
        vcut(right, bounds, [0, 1], "q")
        vcut(right, bounds, [2], "q")
        vcut(right, bounds, [3], "q")
        vcut(right, bounds, [1], "t", nv=2)
        vcut(right, bounds, [2], "q", nv=2)   # quick since seeded change C14-m7 (a per-call cache of the last hit interval: needs two values)
        vcut(right, bounds, [3], "t", nv=2)
    # the extreme value under open bounds: the pinned tree materialises the bounds as MIN / MAX
    # (one cheap edge count in the quick tier: the native replay of a failing harness needs a full CBMC trace,
    # measured 350 s for the merged E = 0,1,2 harness)
    vcut(right, True, [1], "q", vals="ExcludedExtreme")
    for e in (0, 2, 3):
        vcut(right, True, [e], "t", vals="ExcludedExtreme")

# vsorted_unique_idx / vsorted_unique
for ty in ("opt", "f64"):
    for k, nulls in (("first", "Anywhere"), ("last", "TailOrNone"), ("val", "Anywhere")):
        uniq(k, ty, [0, 1, 2], "q", nulls)
        uniq(k, ty, [5], "q" if ty == "opt" else "t", nulls)     # f64 at N = 5: thorough (70 s each)
        uniq(k, ty, [3], "t", nulls)
        uniq(k, ty, [4], "t", nulls)
        uniq(k, ty, [6], "t", nulls)
    # Keep::Last behind a leading null block: the pinned tree emits an index of a null
    # (one length per harness: Kani cuts the path at a failed assertion)
    uniq("last", ty, [4], "q" if ty == "opt" else "t", "Leading", tag="_leading_nulls")
    for n in (2, 3, 5):
        uniq("last", ty, [n], "t", "Leading", tag="_leading_nulls")

out = ["// @generated by /verif/tools/gen_c14.py — do not edit by hand", ""]
for name, tier, unwind, body in H:
    if tier == "t":
        out.append('#[cfg(feature = "thorough")]')
    out += ["#[kani::proof]", "#[kani::stub(std::fmt::format, crate::util::fmt_stub)]", f"#[kani::unwind({unwind})]",
            f"pub fn {name}() {{"]
    out += ["    " + l for l in body]
    out += ["}", ""]
open(OUT, "w").write("\n".join(out))
print(f"{len(H)} harnesses ({sum(1 for h in H if h[1] == 'q')} quick) -> {os.path.normpath(OUT)}")
