#!/usr/bin/env python3
"""Prints the markdown table of seeded changes and which check caught them (from seeded/*/meta.json)."""
import glob, json, os
rows = []
for d in sorted(glob.glob("/verif/seeded/*")):
    m = json.load(open(os.path.join(d, "meta.json")))
    det = m.get("detection", {})
    res = []
    for prop, r in det.items():
        verdict = {0: "missed (exit 0)", 1: "caught (exit 1)", 2: "inconclusive (exit 2)"}.get(r["exit"], str(r["exit"]))
        by = ""
        for l in r.get("lines", []):
            if "failing obligation:" in l:
                by = l.split("failing obligation:")[1].strip().split("::")[0]
                break
        res.append(f"{prop}: {verdict}" + (f" by `{by}`" if by else "") + f", {r['wall_s']} s")
    what = m.get("what", "").replace("|", "/")
    needs = m.get("needs", "").replace("|", "/")
    rows.append(f"| {os.path.basename(d)} | {', '.join(m.get('files', []))[:60]} | {what[:170]} | {needs[:150]} | {'; '.join(res) or 'not run'} |")
print("| seed | file(s) | change | needs | quick check result |\n|---|---|---|---|---|")
print("\n".join(rows))
