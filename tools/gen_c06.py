#!/usr/bin/env python3
"""Generates /verif/kani/src/c06_gen.rs: explicit harnesses for C06 (see kani/src/c06.rs).

  c06_lag_<fn>_<type>_n<N>    prefix stability of shift / vshift / vdiff / vpct_change (all cuts 0..=N unrolled)
  c06_pre_<kernel>_n<N>       prefix stability of ts_vsum / cmp kernels / ts_vminmaxnorm (all cuts)
  c06_loc_<kernel>_n<N>       window locality of the cmp kernels
"""
import os
OUT = os.path.join(os.path.dirname(os.path.abspath(__file__)), "..", "kani", "src", "c06_gen.rs")

# name: (element type, series expr, default item, item type, pre statements, iterator expr over `v`, cut guard, extra assume)
LAGS = {
    "shift_i32": dict(T="i32", series="kani::any()", U="i32", dflt="0i32",
                      pre=["let fill: i32 = kani::any();"], it="{v}.titer().shift(n, fill)", guard="n as usize <= {cut}",
                      assume="n as usize <= {N}"),
    "shift_opt": dict(T="Option<i32>", series="kani::any()", U="Option<i32>", dflt="None",
                      pre=["let fill: Option<i32> = kani::any();"], it="{v}.titer().shift(n, fill)", guard="n as usize <= {cut}",
                      assume="n as usize <= {N}"),
    "vshift_opt": dict(T="Option<i32>", series="kani::any()", U="Option<i32>", dflt="None",
                       pre=["let fill: Option<Option<i32>> = kani::any();"], it="{v}.titer().vshift(n, fill)"),
    "vshift_i32": dict(T="i32", series="kani::any()", U="i32", dflt="0i32",
                       pre=["let f: i32 = kani::any();", "let fill: Option<i32> = Some(f);"], it="{v}.titer().vshift(n, fill)"),
    "vshift_f64": dict(T="f64", series="f64_series::<{N}>()", U="f64", dflt="0.0f64",
                       pre=["let fill: Option<f64> = if kani::any() { None } else { Some(small_f64_or_nan(-2, 2)) };"],
                       it="{v}.titer().vshift(n, fill)"),
    "vdiff_f64": dict(T="f64", series="f64_series::<{N}>()", U="f64", dflt="0.0f64",
                      pre=[], it="{v}.vdiff(n, None)"),
    "vdiff_i32": dict(T="i32", series="i32_series::<{N}>()", U="i32", dflt="0i32",
                      pre=["let f: i32 = kani::any();", "kani::assume(f >= -(1 << 29) && f <= (1 << 29));"],
                      it="{v}.vdiff(n, Some(f))", guard="(n as usize) < {cut}"),
    "vpct_f64": dict(T="f64", series="f64_series::<{N}>()", U="f64", dflt="0.0f64", pre=[], it="{v}.vpct_change(n)"),
    "vpct_i32": dict(T="i32", series="small_i32_series::<{N}>()", U="f64", dflt="0.0f64", pre=[], it="{v}.vpct_change(n)"),
    "vpct_opt": dict(T="Option<i32>", series="small_opt_series::<{N}>()", U="f64", dflt="0.0f64", pre=[], it="{v}.vpct_change(n)"),
}
# isolated: explicit fill value of vdiff
LAGS_ISOLATED = {
    "vdiff_fill_f64": dict(T="f64", series="f64_series::<{N}>()", U="f64", dflt="0.0f64",
                           pre=["let f: f64 = small_i32(-2, 2) as f64;"], it="{v}.vdiff(n, Some(f))"),
    "vdiff_fill_i32": dict(T="i32", series="i32_series::<{N}>()", U="i32", dflt="0i32",
                           pre=["let f: i32 = kani::any();", "kani::assume(f >= -(1 << 29) && f <= (1 << 29));"],
                           it="{v}.vdiff(n, Some(f))"),
}
KERNELS = {"vsum": "Kern::Sum", "vmin": "Kern::Min", "vmax": "Kern::Max", "vargmin": "Kern::ArgMin",
           "vargmax": "Kern::ArgMax", "vrank": "Kern::Rank(false)", "vrankpct": "Kern::Rank(true)", "minmaxnorm": "Kern::MinMaxNorm"}
LOC = ["vmin", "vmax", "vargmin", "vargmax", "vrank", "vrankpct", "minmaxnorm"]     # minmaxnorm added after seeded change C06-m4

LAG_QUICK, LAG_THOROUGH = [3], [2, 4, 5]
PRE_QUICK, PRE_THOROUGH = [3], [2, 4]
LOC_QUICK, LOC_THOROUGH = [3], [2, 4]


def head(name, unwind, thorough):
    L = []
    if thorough:
        L.append('#[cfg(feature = "thorough")]')
    L += ["#[kani::proof]", "#[kani::stub(std::fmt::format, crate::util::fmt_stub)]", f"#[kani::unwind({unwind})]", f"pub fn {name}() {{"]
    return L


def lag_harness(fn, spec, n, thorough, isolated=False):
    L = head(f"c06_lag_{fn}_n{n}", n + 2, thorough)
    L.append(f"    let x: [{spec['T']}; {n}] = {spec['series'].format(N=n)};")
    L.append(f"    let n = lag::<{n}>();")
    if "assume" in spec:
        L.append(f"    kani::assume({spec['assume'].format(N=n)});")
    L += ["    " + p for p in spec["pre"]]
    L.append(f"    let v: Vec<{spec['T']}> = x.to_vec();")
    L.append(f"    let whole: [{spec['U']}; {n}] = take_all({spec['it'].format(v='v')}, {spec['dflt']});")
    L.append("    let mut c = LagCov::default();")
    for cut in range(1, n):
        g = spec.get("guard")
        ind = "    "
        if g:
            L.append(f"    if {g.format(cut=cut)} {{")
            ind = "        "
        L.append(f"{ind}let p{cut}: Vec<{spec['T']}> = x[..{cut}].to_vec();")
        L.append(f"{ind}same_prefix({spec['it'].format(v='p' + str(cut))}, {cut}, n, &whole, &mut c);")
        if g:
            L.append("    }")
    if not isolated:
        if n >= 2:
            L.append('    kani::cover!(c.lagged, "a genuinely lagged item was compared");')
        if fn != "vdiff_i32" and n >= 1:
            L.append('    kani::cover!(c.filled, "an item of the fill region was compared");')
        if not spec.get("guard") and n >= 2:
            L.append('    kani::cover!(c.short_prefix, "prefix not longer than the lag, whole series longer");')
        L.append('    kani::cover!(n == 0, "lag 0");')
    else:
        L.append('    kani::cover!(c.short_prefix, "prefix not longer than the lag, whole series longer");')
    L.append("}")
    return "\n".join(L) + "\n"


def pre_harness(k, n, thorough, cuts=None, tag=""):
    L = head(f"c06_pre_{k}{tag}_n{n}", n + 1, thorough)
    K = KERNELS[k]
    L.append(f"    let x = opt_series::<{n}>({K});")
    L.append(f"    let p = params::<{n}>();")
    if k not in ("vsum", "minmaxnorm"):
        L.append("    // whole series: omitted min_periods needs len >= w as well (DESIGN 5.3)")
        L.append(f"    kani::assume(p.mp.is_some() || {n} >= p.w);")
    L.append("    let v = x.to_vec();")
    L.append(f"    let whole = run({K}, &v, &p);")
    L.append(f'    assert!(whole.len() == {n}, "rolling: one output per element of the whole series");')
    L.append("    let mut c = RollCov::default();")
    for cut in (cuts or range(1, n)):
        L.append(f"    same_rolling_prefix({K}, &x, {cut}, &p, &whole, &mut c);")
    L.append('    kani::cover!(c.null_cmp, "a null output was compared");')
    if not (k == "minmaxnorm" and n == 2):      # N = 2: only the single-element window (max == min, always null) is compared
        L.append('    kani::cover!(c.val_cmp, "a non-null output was compared");')
    L.append('    kani::cover!(c.short, "prefix shorter than the window");')
    L.append('    kani::cover!(c.omitted, "omitted min_periods");')
    if n >= 3:
        L.append('    kani::cover!(c.steady, "position whose window has lost its first element");')
    L.append("}")
    return "\n".join(L) + "\n"


def loc_harness(k, n, thorough):
    L = head(f"c06_loc_{k}_n{n}", n + 1, thorough)
    L.append(f"    let c = locality::<{n}>({KERNELS[k]});")
    L.append('    kani::cover!(c.differs_before && c.val_cmp, "histories differ before the window, non-null output");')
    L.append('    kani::cover!(c.differs_before && c.null_cmp, "histories differ before the window, null output");')
    L.append("}")
    return "\n".join(L) + "\n"


# quick-tier cost trimming (measured at N = 3, CBMC seconds): these run in the thorough tier only
LAG_THOROUGH_ONLY = {"vshift_i32", "vpct_i32"}          # 46 s, 55 s; same code paths as the opt / f64 variants
PRE_THOROUGH_ONLY = {"vrankpct"}                        # 130 s
LOC_THOROUGH_ONLY = {"vrankpct"}                        # 90 s


def main():
    out = ["// @generated by /verif/tools/gen_c06.py — do not edit by hand\n"]
    for ns, th in ((LAG_QUICK, False), (LAG_THOROUGH, True)):
        for n in ns:
            for fn, spec in LAGS.items():
                out.append(lag_harness(fn, spec, n, th or fn in LAG_THOROUGH_ONLY))
    for fn, spec in LAGS_ISOLATED.items():
        out.append(lag_harness(fn, spec, 2, False, isolated=True))
        out.append(lag_harness(fn, spec, 3, True, isolated=True))
    for ns, th in ((PRE_QUICK, False), (PRE_THOROUGH, True)):
        for n in ns:
            for k in KERNELS:
                if k == "minmaxnorm" and n == 3 and not th:
                    # 111-149 s with both cuts; cut = 1 only ever compares the always-null single-element window
                    out.append(pre_harness(k, n, False, cuts=[2]))
                    out.append(pre_harness(k, n, True, tag="_allcuts"))
                    continue
                out.append(pre_harness(k, n, th or k in PRE_THOROUGH_ONLY))
    for ns, th in ((LOC_QUICK, False), (LOC_THOROUGH, True)):
        for n in ns:
            for k in LOC:
                if k == "minmaxnorm" and n == 4:
                    continue            # two runs of the normalisation at N = 4: beyond the per-harness budget (one run: 400 s)
                out.append(loc_harness(k, n, th or k in LOC_THOROUGH_ONLY))
    with open(OUT, "w") as f:
        f.write("\n".join(out))
    print("wrote", OUT, "harnesses:", sum(o.count("#[kani::proof]") for o in out))


if __name__ == "__main__":
    main()
