#!/usr/bin/env python3
"""Generates /verif/kani/src/c08_gen.rs: explicit harnesses for the C08 families of c08.rs.

Blocks of lengths N of the base series (the null-padded series has N + 1 slots). Measured: CBMC time
grows faster than linearly with harness size, so one length per harness beyond the small ones.
"""
import os
OUT = os.path.join(os.path.dirname(os.path.abspath(__file__)), "..", "kani", "src", "c08_gen.rs")
HARNESSES = []


def tag(ns):
    return f"n{ns[0]}" if len(ns) == 1 else f"n{ns[0]}to{ns[-1]}"


def harness(name, ns, body_fn, covers, thorough=False, decl="let mut fl = Fl::default();", solver=None, stub=False, unwind_extra=0):
    lines = []
    if thorough:
        lines.append('#[cfg(feature = "thorough")]')
    lines.append("#[kani::proof]")
    if stub:
        lines.append("#[kani::stub(std::fmt::format, crate::util::fmt_stub)]")
    lines.append(f"#[kani::unwind({max(ns) + 4 + unwind_extra})]")
    if solver and os.environ.get("C08_NO_SOLVER") != "1":
        lines.append(f"#[kani::solver({solver})]")
    lines.append(f"pub fn c08_{name}_{tag(ns)}() {{")
    lines.append("    " + decl)
    for n in ns:
        lines.append("    { " + " ".join(body_fn(n)) + " }")
    for expr, text, min_n in covers:
        if max(ns) >= min_n:
            lines.append(f'    kani::cover!({expr}, "{text}");')
    lines.append("}")
    HARNESSES.append("\n".join(lines))


def family(name, body_fn, covers, quick, thorough, **kw):
    for ns in quick:
        harness(name, ns, body_fn, covers, **kw)
    for ns in thorough:
        harness(name, ns, body_fn, covers, thorough=True, **kw)


INS = [("fl.before_valid", "the null is inserted before a valid element", 1), ("fl.after_all", "the null is inserted after the last valid element", 1),
       ("fl.value", "a non-null result", 1), ("fl.null", "nothing valid: null result", 0)]
ELTS = [("opti32", "Option<i32>", "Any"), ("f64", "f64", "Small")]

for t, E, alpha in ELTS:
    family(f"ins_extrema_{t}", lambda n, E=E, alpha=alpha: [f"ins_extrema::<{E}, {n}, {n + 1}>(Alpha::{alpha}, &mut fl);"],
           INS + [("fl.shifted", "the arg-minimum moved past the inserted null", 1), ("fl.stayed", "the arg-minimum stayed in place", 1)],
           [[0, 1], [2], [3]], [[4]])

family("ins_sum_opti32", lambda n: [f"ins_sum::<{n}, {n + 1}>(&mut fl);"], INS, [[0, 1, 2], [3]], [[4]])

for t, E, alpha in ELTS:
    family(f"ins_percentile_{t}", lambda n, E=E, alpha=alpha: [f"ins_percentile::<{E}, {n}, {n + 1}>(Alpha::{alpha}, &mut fl);"],
           INS + [("fl.interior", "a percentile rank strictly between 0 and 1", 2)], [[0, 1, 2], [3]], [[4]])

# quantiles: the number of valid elements is not 1 (main) / exactly 1 (isolated, C12's n == 1 shortcut)
QMAIN = [("fl.before_valid", "the null is inserted before a valid element", 2), ("fl.after_all", "the null is inserted after the last valid element", 2),
         ("fl.value", "a non-null result", 2), ("fl.null", "nothing valid: null result", 0)]
QSINGLE = [("fl.before_valid", "the null is inserted before the single valid element", 1),
           ("fl.after_all", "the null is inserted after the single valid element", 1)]
QELTS = [("opti32", "Option<i32>", "Small"), ("f64", "f64", "Small")]
for t, E, alpha in QELTS:
    family(f"ins_quantile_{t}", lambda n, E=E, alpha=alpha: [f"ins_quantile::<{E}, {n}, {n + 1}>(Alpha::{alpha}, false, &mut fl);"],
           QMAIN, [[0, 1], [2]], [[3]], stub=True, solver="minisat")
    family(f"ins_median_{t}", lambda n, E=E, alpha=alpha: [f"ins_median::<{E}, {n}, {n + 1}>(Alpha::{alpha}, false, &mut fl);"],
           QMAIN, [[0, 1], [2]], [[3]], stub=True, solver="minisat")
    family(f"quantile_single_valid_{t}", lambda n, E=E, alpha=alpha: [f"ins_quantile::<{E}, {n}, {n + 1}>(Alpha::{alpha}, true, &mut fl);"],
           QSINGLE, [[1]], [[2]], stub=True, solver="minisat")
    family(f"median_single_valid_{t}", lambda n, E=E, alpha=alpha: [f"ins_median::<{E}, {n}, {n + 1}>(Alpha::{alpha}, true, &mut fl);"],
           QSINGLE, [[1]], [[2]], stub=True, solver="minisat")

# encoding independence
EDECL = "let mut fl = EFl::default();"
ENC = [("fl.mixed", "a null next to a valid element", 2), ("fl.null_first", "null first, valid element behind it", 2),
       ("fl.all_null", "no valid element in a non-empty series", 1)]
family("enc_exact", lambda n: [f"enc_exact::<{n}>(&mut fl);"], ENC, [[0, 1], [2], [3]], [[4]], decl=EDECL)
family("enc_quantile", lambda n: [f"enc_quantile::<{n}>(&mut fl);"], ENC, [[0, 1], [2]], [[3], [4]], decl=EDECL, stub=True, solver="minisat")
OUTC = ENC + [("fl.null_out", "a null output position", 1), ("fl.value_out", "a non-null output position", 1)]
# two rolling runs per harness are expensive (c07: 80 s for ts_vsum at N = 3): one kernel per harness
family("enc_output_vmin", lambda n: [f"enc_output_vmin::<{n}>(&mut fl);"], OUTC, [[2]], [[0, 1], [3], [4]], decl=EDECL, stub=True)
family("enc_output_vsum", lambda n: [f"enc_output_vsum::<{n}>(&mut fl);"], OUTC, [[0, 1], [2]], [[3], [4]], decl=EDECL, stub=True)
family("enc_input_rolling", lambda n: [f"enc_input_rolling::<{n}>(&mut fl);"], OUTC, [], [[1], [2]], decl=EDECL, stub=True)


def main():
    with open(OUT, "w") as f:
        f.write("// @generated by /verif/tools/gen_c08.py — do not edit by hand\n\n" + "\n\n".join(HARNESSES) + "\n")
    q = sum(1 for h in HARNESSES if 'feature = "thorough"' not in h)
    print("wrote", OUT, len(HARNESSES), "harnesses,", q, "quick")


main()
