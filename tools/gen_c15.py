#!/usr/bin/env python3
"""Generates /verif/kani/src/c15_gen.rs: the cast harnesses of C15 (literal assertion messages —
Kani prints `concat!(..)` messages unexpanded, so they are expanded here).

Families:
  c15_cast_<T>         numeric lattice row of T (impl_numeric_cast! in tea-dtype/src/cast.rs): T / Option<T> to every
                       implemented U / Option<U>, identity, T <-> Option<T>
  c15_cast_<T>_time    T / Option<T> to DateTime<ns|us|ms|s>, Time, TimeDelta
  c15_cast_bool_src    bool / Option<bool> to every numeric type
  c15_cast_bool_dst    every numeric type (values 0 / 1 / null) to bool / Option<bool>
  c15_cast_dt_<unit>, c15_cast_time, c15_cast_timedelta, c15_cast_timedelta_nat
                       time types to i64 / Option<i64> and the impl_time_cast! targets

Every harness draws a symbolic selector so that each (target, form) is decided on its own path: a failing
assertion (Kani stops a path at the first failure) never hides the verdict for another target.
"""
import os

OUT = os.path.join(os.path.dirname(os.path.abspath(__file__)), "..", "kani", "src", "c15_gen.rs")

# rows of impl_numeric_cast! (source => targets), order as in cast.rs
LATTICE = {
    "u8": ["u64", "f32", "f64", "i32", "i64", "usize", "isize"],
    "u64": ["u8", "f32", "f64", "i32", "i64", "usize", "isize"],
    "i64": ["u8", "f32", "f64", "i32", "u64", "usize", "isize"],
    "i32": ["u8", "f32", "f64", "i64", "u64", "usize", "isize"],
    "f32": ["u8", "f64", "i32", "i64", "u64", "usize", "isize"],
    "f64": ["u8", "f32", "i32", "i64", "u64", "usize", "isize"],
    "usize": ["u8", "f32", "f64", "i32", "i64", "u64", "isize"],
    "isize": ["u8", "f32", "f64", "i32", "i64", "u64", "usize"],
}
FLOATS = ("f32", "f64")
# impl_time_cast!(u8, u64, f32, f64, i32, usize, isize, bool)
TIME_TARGETS = ["u8", "u64", "f32", "f64", "i32", "usize", "isize"]
UNITS = [("ns", "Nanosecond"), ("us", "Microsecond"), ("ms", "Millisecond"), ("s", "Second")]


class W:
    def __init__(self):
        self.lines = []
        self.ind = 0

    def w(self, s=""):
        self.lines.append(("    " * self.ind + s) if s else "")

    def open(self, s):
        self.w(s + " {")
        self.ind += 1

    def close(self, tail=""):
        self.ind -= 1
        self.w("}" + tail)

    def a(self, cond, msg):
        assert '"' not in msg
        self.w(f'assert!({cond}, "{msg}");')

    def cover(self, cond, msg):
        self.w(f'kani::cover!({cond}, "{msg}");')

    def text(self):
        return "\n".join(self.lines)


def is_null(e):
    """nullness by the harness' own definition (NaN / None / NaT), not by the library's is_none"""
    return f"{e}.null_oracle()"


# ---------------------------------------------------------------------------------------------------
def lattice(T):
    o = W()
    us = LATTICE[T]
    o.w("#[kani::proof]")
    o.open(f"pub fn c15_cast_{T}()")
    o.w(f"let x: {T} = Sym::sym();")
    o.w(f"let ox: Option<{T}> = Sym::sym();")
    o.w("let which: u8 = kani::any();")
    o.w(f"kani::assume(which <= {len(us)});")
    # identity, T <-> Option<T>
    o.open("if which == 0")
    o.w(f"let got: {T} = Cast::<{T}>::cast(x);")
    o.a("got.same(&x)", f"{T} -> {T}: identity cast returns the value bit for bit")
    o.w(f"let got: Option<{T}> = Cast::<Option<{T}>>::cast(ox);")
    o.a("got.same(&ox)", f"Option<{T}> -> Option<{T}>: identity cast returns it unchanged")
    o.w(f"let got: Option<{T}> = Cast::<Option<{T}>>::cast(x);")
    if T in FLOATS:
        o.open(f"if {is_null('x')}")
        o.a("got.is_none()", f"{T} -> Option<{T}>: null gives None")
        o.close(" else {")
        o.ind += 1
        o.a("got.same(&Some(x))", f"{T} -> Option<{T}>: non-null gives Some(x)")
        o.close()
    else:
        o.a("got.same(&Some(x))", f"{T} -> Option<{T}>: gives Some(x)")
    o.open("match ox")
    o.open("Some(v) =>")
    o.w(f"let got: {T} = Cast::<{T}>::cast(ox);")
    o.a("got.same(&v)", f"Option<{T}> -> {T}: Some(v) gives v")
    o.close(",")
    if T in FLOATS:
        o.open("None =>")
        o.w(f"let got: {T} = Cast::<{T}>::cast(ox);")
        o.a(is_null("got"), f"Option<{T}> -> {T}: None gives NaN")
        o.close(",")
    else:
        o.w("None => {}, // none() of an integer type panics by design")
    o.close()
    o.close()
    for k, U in enumerate(us, 1):
        o.open(f"if which == {k}")
        # plain source
        if T in FLOATS:
            o.open(f"if !{is_null('x')}")
        o.w(f"let want: {U} = x as {U};")
        o.w(f"let got: {U} = Cast::<{U}>::cast(x);")
        o.a("got.same(&want)", f"{T} -> {U}: non-null cast equals `as`")
        o.w(f"let got: Option<{U}> = Cast::<Option<{U}>>::cast(x);")
        o.a("got.same(&Some(want))", f"{T} -> Option<{U}>: non-null gives Some(`as`)")
        if T in FLOATS:
            o.close(" else {")
            o.ind += 1
            o.w(f"let got: Option<{U}> = Cast::<Option<{U}>>::cast(x);")
            o.a("got.is_none()", f"{T} -> Option<{U}>: null gives None")
            if U in FLOATS:
                o.w(f"let got: {U} = Cast::<{U}>::cast(x);")
                o.a(is_null("got"), f"{T} -> {U}: null gives NaN")
            o.close()
        # option source
        o.open("match ox")
        o.open("Some(v) =>")
        o.w(f"let want: {U} = v as {U};")
        o.w(f"let got: Option<{U}> = Cast::<Option<{U}>>::cast(ox);")
        o.a("got.same(&Some(want))", f"Option<{T}> -> Option<{U}>: Some maps through `as`")
        o.w(f"let got: {U} = Cast::<{U}>::cast(ox);")
        o.a("got.same(&want)", f"Option<{T}> -> {U}: Some(v) gives v `as`")
        o.close(",")
        o.open("None =>")
        o.w(f"let got: Option<{U}> = Cast::<Option<{U}>>::cast(ox);")
        o.a("got.is_none()", f"Option<{T}> -> Option<{U}>: None stays None")
        if U in FLOATS:
            o.w(f"let got: {U} = Cast::<{U}>::cast(ox);")
            o.a(is_null("got"), f"Option<{T}> -> {U}: None gives NaN")
        else:
            o.w(f"// Option<{T}> -> {U}: none() of an integer type panics by design, not exercised")
        o.close(",")
        o.close()
        o.close()
    if T in FLOATS:
        o.cover(f"which == 1 && {is_null('x')}", "null source")
        o.cover(f"which == 1 && !{is_null('x')}", "non-null source")
    o.cover(f"which == {len(us)} && ox.is_none()", "None source, last target")
    o.cover("which == 0 && ox.is_some()", "Some source, identity")
    o.close()
    return o.text()


# ---------------------------------------------------------------------------------------------------
def num_time(T):
    o = W()
    fl = T in FLOATS
    o.w("#[kani::proof]")
    o.open(f"pub fn c15_cast_{T}_time()")
    o.w(f"let x: {T} = Sym::sym();")
    o.w(f"let ox: Option<{T}> = Sym::sym();")
    o.w("let xi: i64 = x as i64;")
    o.w("let oxi: Option<i64> = match ox { Some(v) => Some(v as i64), None => None };")
    o.w("// the value whose `as i64` image is i64::MIN is the NaT encoding itself (module doc)")
    if fl:
        o.w(f"kani::assume({is_null('x')} || xi != i64::MIN);")
    else:
        o.w("kani::assume(xi != i64::MIN);")
    o.w("kani::assume(oxi != Some(i64::MIN));")
    o.w("let tgt: u8 = kani::any();")
    o.w("kani::assume(tgt < 6);")
    o.w("let opt_src: bool = kani::any();")
    tgts = [(f"DateTime<{u}>", f"DateTime<{s}>", "d.0 == {v}") for s, u in UNITS]
    tgts.append(("Time", "Time", "d.0 == {v}"))
    # TimeDelta: the value law is tea-time's From<i64> (64-bit division by 10^9; an equivalence of two dividers
    # does not come back from the SAT solver) — only nullness is claimed here
    tgts.append(("TimeDelta", "TimeDelta", "!d.is_nat() && d.months == 0"))
    for k, (ty, label, val) in enumerate(tgts):
        o.open(f"if tgt == {k} && !opt_src")
        o.w(f"let d: {ty} = Cast::<{ty}>::cast(x);")
        what = "holds the value `as i64`" if ty != "TimeDelta" else "is a non-null duration without months"
        if fl:
            o.open(f"if !{is_null('x')}")
            o.a(val.format(v="xi"), f"{T} -> {label}: non-null {what}")
            o.close(" else {")
            o.ind += 1
            o.a("d.is_nat()", f"{T} -> {label}: null (NaN) gives NaT")
            o.close()
        else:
            o.a(val.format(v="xi"), f"{T} -> {label}: {what}")
        o.close()
        o.open(f"if tgt == {k} && opt_src")
        o.w(f"let d: {ty} = Cast::<{ty}>::cast(ox);")
        o.open("match oxi")
        o.w("None => " + f'assert!(d.is_nat(), "Option<{T}> -> {label}: None gives NaT"),')
        o.w("Some(v) => " + f'assert!({val.format(v="v")}, "Option<{T}> -> {label}: Some(v) {what}"),')
        o.close()
        o.close()
    if fl:
        o.cover(f"tgt == 0 && !opt_src && {is_null('x')}", "null source")
        o.cover(f"tgt == 5 && !opt_src && !{is_null('x')}", "non-null source, TimeDelta")
    o.cover("tgt == 5 && opt_src && ox.is_none()", "None source, TimeDelta")
    o.cover("tgt == 4 && opt_src && ox.is_some()", "Some source, Time")
    o.close()
    return o.text()


# ---------------------------------------------------------------------------------------------------
def bool_src():
    o = W()
    nums = list(LATTICE)
    o.w("#[kani::proof]")
    o.open("pub fn c15_cast_bool_src()")
    o.w("let b: bool = kani::any();")
    o.w("let ob: Option<bool> = kani::any();")
    o.w("let which: u8 = kani::any();")
    o.w(f"kani::assume(which <= {len(nums)});")
    o.open("if which == 0")
    o.w("let got: bool = Cast::<bool>::cast(b);")
    o.a("got == b", "bool -> bool: identity cast")
    o.w("let got: Option<bool> = Cast::<Option<bool>>::cast(b);")
    o.a("got == Some(b)", "bool -> Option<bool>: gives Some(b)")
    o.w("let got: Option<bool> = Cast::<Option<bool>>::cast(ob);")
    o.a("got == ob", "Option<bool> -> Option<bool>: identity cast")
    o.open("if let Some(v) = ob")
    o.w("// None panics by design (Should not cast None to bool)")
    o.w("let got: bool = Cast::<bool>::cast(ob);")
    o.a("got == v", "Option<bool> -> bool: Some(v) gives v")
    o.close()
    o.close()
    for k, U in enumerate(nums, 1):
        o.open(f"if which == {k}")
        o.w(f"let want: {U} = (b as u8) as {U};")
        o.w(f"let got: {U} = Cast::<{U}>::cast(b);")
        o.a("got.same(&want)", f"bool -> {U}: false is 0, true is 1")
        o.w(f"let got: Option<{U}> = Cast::<Option<{U}>>::cast(b);")
        o.a("got.same(&Some(want))", f"bool -> Option<{U}>: gives Some(0 / 1)")
        o.open("match ob")
        o.open("Some(v) =>")
        o.w(f"let want: {U} = (v as u8) as {U};")
        o.w(f"let got: {U} = Cast::<{U}>::cast(ob);")
        o.a("got.same(&want)", f"Option<bool> -> {U}: Some(v) gives 0 / 1")
        o.w(f"let got: Option<{U}> = Cast::<Option<{U}>>::cast(ob);")
        o.a("got.same(&Some(want))", f"Option<bool> -> Option<{U}>: Some maps")
        o.close(",")
        o.open("None =>")
        o.w(f"let got: Option<{U}> = Cast::<Option<{U}>>::cast(ob);")
        o.a("got.is_none()", f"Option<bool> -> Option<{U}>: None stays None")
        if U in FLOATS:
            o.w(f"let got: {U} = Cast::<{U}>::cast(ob);")
            o.a(is_null("got"), f"Option<bool> -> {U}: None gives NaN")
        else:
            o.w(f"// Option<bool> -> {U}: none() of an integer type panics by design, not exercised")
        o.close(",")
        o.close()
        o.close()
    o.cover(f"which == {len(nums)} && ob.is_none()", "None source, last target")
    o.cover("which == 1 && ob == Some(true) && !b", "Some(true) and false sources")
    o.close()
    return o.text()


def bool_dst():
    o = W()
    nums = list(LATTICE)
    o.w("#[kani::proof]")
    o.w("#[kani::stub(std::fmt::format, crate::util::fmt_stub)]")
    o.open("pub fn c15_cast_bool_dst()")
    o.w("let which: u8 = kani::any();")
    o.w(f"kani::assume(which < {len(nums)});")
    o.w("let mut saw_null = false;")
    o.w("let mut saw_none = false;")
    o.w("let mut saw_true = false;")
    for k, T in enumerate(nums):
        zero, one = ("0.0", "1.0") if T in FLOATS else ("0", "1")
        o.open(f"if which == {k}")
        o.w(f"let x: {T} = Sym::sym();")
        o.w("// values other than 0 / 1 panic by design (can not cast .. to bool)")
        if T in FLOATS:
            o.w(f"kani::assume({is_null('x')} || x == {zero} || x == {one});")
        else:
            o.w(f"kani::assume(x == {zero} || x == {one});")
        o.w(f"let ox: Option<{T}> = Sym::sym();")
        o.w(f"kani::assume(match ox {{ Some(v) => v == {zero} || v == {one}, None => true }});")
        if T in FLOATS:
            o.open(f"if !{is_null('x')}")
        o.w("let got: bool = Cast::<bool>::cast(x);")
        o.a(f"got == (x == {one})", f"{T} -> bool: 0 is false, 1 is true")
        o.w("let got: Option<bool> = Cast::<Option<bool>>::cast(x);")
        o.a(f"got == Some(x == {one})", f"{T} -> Option<bool>: non-null gives Some")
        o.w(f"saw_true |= x == {one};")
        if T in FLOATS:
            o.close(" else {")
            o.ind += 1
            o.w("let got: Option<bool> = Cast::<Option<bool>>::cast(x);")
            o.a("got.is_none()", f"{T} -> Option<bool>: null gives None")
            o.w("saw_null = true;")
            o.close()
        o.open("match ox")
        o.open("Some(v) =>")
        o.w("// None panics by design (can not cast None to bool)")
        o.w("let got: bool = Cast::<bool>::cast(ox);")
        o.a(f"got == (v == {one})", f"Option<{T}> -> bool: Some(v) gives v != 0")
        o.w("let got: Option<bool> = Cast::<Option<bool>>::cast(ox);")
        o.a(f"got == Some(v == {one})", f"Option<{T}> -> Option<bool>: Some maps")
        o.close(",")
        o.open("None =>")
        o.w("let got: Option<bool> = Cast::<Option<bool>>::cast(ox);")
        o.a("got.is_none()", f"Option<{T}> -> Option<bool>: None stays None")
        o.w("saw_none = true;")
        o.close(",")
        o.close()
        o.close()
    o.cover("saw_null", "null float source")
    o.cover("saw_none", "None source")
    o.cover("saw_true && which == 0", "value 1")
    o.close()
    return o.text()


# ---------------------------------------------------------------------------------------------------
def time_targets(o, src, label, null_float_last=True):
    """Selector arms 1.. for the impl_time_cast! targets of a time value `x` with raw i64 `raw` / nullness `null`."""
    k = 1
    for T in TIME_TARGETS:
        o.open(f"if which == {k}")
        o.w(f"let o: Option<{T}> = Cast::<Option<{T}>>::cast(x);")
        o.open("if null")
        o.a("o.is_none()", f"{label} -> Option<{T}>: NaT gives None")
        if T in FLOATS and src != "TimeDelta":
            o.w(f"let got: {T} = Cast::<{T}>::cast(x);")
            o.a(is_null("got"), f"{label} -> {T}: NaT gives NaN")
        o.close(" else {")
        o.ind += 1
        o.w(f"let want: {T} = raw as {T};")
        o.a("o.same(&Some(want))", f"{label} -> Option<{T}>: non-null gives Some(value `as`)")
        o.w(f"let got: {T} = Cast::<{T}>::cast(x);")
        o.a("got.same(&want)", f"{label} -> {T}: non-null gives value `as`")
        o.close()
        o.close()
        k += 1
    # bool
    o.open(f"if which == {k}")
    o.open("if null")
    o.w("let o: Option<bool> = Cast::<Option<bool>>::cast(x);")
    o.a("o.is_none()", f"{label} -> Option<bool>: NaT gives None")
    o.close(" else if raw == 0 || raw == 1 {")
    o.ind += 1
    o.w("// other values panic by design")
    o.w("let o: Option<bool> = Cast::<Option<bool>>::cast(x);")
    o.a("o == Some(raw == 1)", f"{label} -> Option<bool>: 0 / 1 gives Some(false / true)")
    o.w("let got: bool = Cast::<bool>::cast(x);")
    o.a("got == (raw == 1)", f"{label} -> bool: 0 / 1 gives false / true")
    o.close()
    o.close()
    return k


def dt_src():
    o = W()
    o.open("fn dt_src<U: TimeUnitTrait>()")
    o.w("let raw: i64 = kani::any();")
    o.w("let x: DateTime<U> = DateTime::new(raw);")
    o.w("let null = raw == i64::MIN;")
    o.w("let which: u8 = kani::any();")
    o.w(f"kani::assume(which <= {len(TIME_TARGETS) + 1});")
    o.open("if which == 0")
    o.a(f"{is_null('x')} == null", "DateTime is null exactly for the NaT encoding")
    o.w("let o: Option<i64> = Cast::<Option<i64>>::cast(x);")
    o.open("if null")
    o.a("o.is_none()", "DateTime -> Option<i64>: NaT gives None")
    o.close(" else {")
    o.ind += 1
    o.a("o == Some(raw)", "DateTime -> Option<i64>: non-null gives Some(timestamp)")
    o.w("let got: i64 = Cast::<i64>::cast(x);")
    o.a("got == raw", "DateTime -> i64: non-null gives the timestamp")
    o.close()
    o.w("let got: DateTime<U> = Cast::<DateTime<U>>::cast(x);")
    o.a("got.0 == raw", "DateTime -> DateTime: identity cast")
    o.w("let got: Option<DateTime<U>> = Cast::<Option<DateTime<U>>>::cast(x);")
    o.a("got.is_none() == null", "DateTime -> Option<DateTime>: None exactly for NaT")
    o.close()
    last = time_targets(o, "DateTime", "DateTime")
    o.cover("null && which == 1", "NaT source")
    o.cover("!null && raw < 0 && which == 3", "negative timestamp to f32")
    o.cover(f"raw == 1 && which == {last}", "timestamp 1 to bool")
    o.close()
    out = [o.text()]
    for s, u in UNITS:
        out.append("#[kani::proof]\n#[kani::stub(std::fmt::format, crate::util::fmt_stub)]\n"
                   f"pub fn c15_cast_dt_{s}() {{\n    dt_src::<{u}>()\n}}")
    return "\n\n".join(out)


def time_src():
    o = W()
    o.w("#[kani::proof]")
    o.w("#[kani::stub(std::fmt::format, crate::util::fmt_stub)]")
    o.open("pub fn c15_cast_time()")
    o.w("let raw: i64 = kani::any();")
    o.w("let x: Time = Time(raw);")
    o.w("let null = raw == i64::MIN;")
    o.w("let which: u8 = kani::any();")
    o.w(f"kani::assume(which <= {len(TIME_TARGETS) + 1});")
    o.open("if which == 0")
    o.a(f"{is_null('x')} == null", "Time is null exactly for the NaT encoding")
    o.w("let o: Option<i64> = Cast::<Option<i64>>::cast(x);")
    o.open("if null")
    o.a("o.is_none()", "Time -> Option<i64>: NaT gives None")
    o.close(" else {")
    o.ind += 1
    o.a("o == Some(raw)", "Time -> Option<i64>: non-null gives Some(nanoseconds)")
    o.w("let got: i64 = Cast::<i64>::cast(x);")
    o.a("got == raw", "Time -> i64: non-null gives the nanoseconds")
    o.close()
    o.w("let got: Time = Cast::<Time>::cast(x);")
    o.a("got.0 == raw", "Time -> Time: identity cast")
    o.w("let got: Option<Time> = Cast::<Option<Time>>::cast(x);")
    o.a("got.is_none() == null", "Time -> Option<Time>: None exactly for NaT")
    o.close()
    last = time_targets(o, "Time", "Time")
    o.cover("null && which == 1", "NaT source")
    o.cover("!null && raw < 0 && which == 3", "negative value to f32")
    o.cover(f"raw == 1 && which == {last}", "value 1 to bool")
    o.close()
    return o.text()


def timedelta_src(name="c15_cast_timedelta", table=100, thorough=False):
    o = W()
    o.w("/// Non-null TimeDelta values (months == 0: other values panic by design; |secs| <= 2^40 so that the")
    o.w("/// microsecond count is representable) and the Option targets of a NaT, which do not go through")
    o.w("/// `Cast<i64> for TimeDelta`. Nullness over the whole range, values over a table (see below).")
    if thorough:
        o.w('#[cfg(feature = "thorough")]')
    o.w("#[kani::proof]")
    o.w("#[kani::stub(std::fmt::format, crate::util::fmt_stub)]")
    o.open(f"pub fn {name}()")
    o.w("let null: bool = kani::any();")
    o.w("let secs: i64 = kani::any();")
    o.w("let nanos: u32 = kani::any();")
    o.w("kani::assume(secs >= -(1i64 << 40) && secs <= (1i64 << 40) && nanos < 1_000_000_000);")
    o.w("let which: u8 = kani::any();")
    o.w(f"kani::assume(which <= {len(TIME_TARGETS) + 2});")
    o.w("// The value arms compare several evaluations of chrono's num_microseconds (a 64-bit checked multiplication")
    o.w("// and a 32-bit division each); the SAT solver cannot prove two such circuits equivalent over symbolic")
    o.w(f"// operands (no answer in 600 s), so the value arms run over a table: |secs| <= {table} and the sub-second part")
    o.w("// from a fixed set. The nullness arm (the last one) runs over |secs| <= 2^40 and every sub-second part.")
    o.w(f"let nullness_arm = which == {len(TIME_TARGETS) + 2};")
    o.w(f"kani::assume(nullness_arm || (secs >= -{table} && secs <= {table}));")
    o.w("kani::assume(nullness_arm || nanos == 0 || nanos == 1 || nanos == 999 || nanos == 1000 || nanos == 1001")
    o.w("    || nanos == 500_000_000 || nanos == 999_999_000 || nanos == 999_999_999);")
    o.w("let d = Duration::new(secs, nanos);")
    o.w("kani::assume(d.is_some());")
    o.w("// NaT as the library's constructors produce it, and NaT markers with an arbitrary duration part")
    o.w("// (is_nat() looks at `months` only)")
    o.w("let x = if null {")
    o.w("    TimeDelta { months: i32::MIN, inner: if kani::any() { Duration::seconds(0) } else { d.unwrap() } }")
    o.w("} else {")
    o.w("    TimeDelta { months: 0, inner: d.unwrap() }")
    o.w("};")
    o.w("// the number a non-null TimeDelta stands for (whole microseconds) is taken from the plain i64 cast")
    o.w("let raw: i64 = if null || nullness_arm { 0 } else { Cast::<i64>::cast(x) };")
    o.open("if which == 0")
    o.a(f"{is_null('x')} == null", "TimeDelta is null exactly for the NaT marker")
    o.w("let got: Option<TimeDelta> = Cast::<Option<TimeDelta>>::cast(x);")
    o.a("got.is_none() == null", "TimeDelta -> Option<TimeDelta>: None exactly for NaT")
    o.w("let got: TimeDelta = Cast::<TimeDelta>::cast(x);")
    o.a("got.same(&x)", "TimeDelta -> TimeDelta: identity cast")
    o.open("if !null")
    o.w("let o: Option<i64> = Cast::<Option<i64>>::cast(x);")
    o.a("o == Some(raw)", "TimeDelta -> Option<i64>: non-null gives Some(microseconds)")
    o.close()
    o.close()
    last = time_targets(o, "TimeDelta", "TimeDelta")
    o.open("if nullness_arm")
    for T in ["i64"] + TIME_TARGETS:
        if T == "i64":
            o.open("if !null")
            o.w("// NaT -> Option<i64> panics on the pinned tree: decided by c15_cast_timedelta_nat")
        o.w(f"let o: Option<{T}> = Cast::<Option<{T}>>::cast(x);")
        o.a("o.is_none() == null", f"TimeDelta -> Option<{T}>: None exactly for NaT (every sub-second part)")
        if T == "i64":
            o.close()
    o.open("if !null")
    for T in FLOATS:
        o.w(f"let got: {T} = Cast::<{T}>::cast(x);")
        o.a(f"!{is_null('got')}", f"TimeDelta -> {T}: non-null never gives NaN")
    o.close()
    o.close()
    o.cover("null && which == 1", "NaT source")
    o.cover("!null && raw < 0 && which == 3", "negative duration to f32")
    o.cover(f"!null && raw == 1 && which == {last}", "one microsecond to bool")
    o.close()
    if thorough:
        return o.text()
    o.w()
    o.w("/// NaT TimeDelta to the targets that can represent a null but are reached through")
    o.w("/// `Cast<i64> for TimeDelta` / `Cast<Option<i64>> for TimeDelta`.")
    o.w("#[kani::proof]")
    o.w("#[kani::stub(std::fmt::format, crate::util::fmt_stub)]")
    o.open("pub fn c15_cast_timedelta_nat()")
    o.w("let x = TimeDelta::nat();")
    o.a(is_null("x"), "TimeDelta::nat() is a null")
    o.w("let which: u8 = kani::any();")
    o.w("kani::assume(which < 3);")
    o.open("if which == 0")
    o.w("let o: Option<i64> = Cast::<Option<i64>>::cast(x);")
    o.a("o.is_none()", "TimeDelta -> Option<i64>: NaT gives None")
    o.close()
    o.open("if which == 1")
    o.w("let got: f64 = Cast::<f64>::cast(x);")
    o.a("got.is_nan()", "TimeDelta -> f64: NaT gives NaN")
    o.close()
    o.open("if which == 2")
    o.w("let got: f32 = Cast::<f32>::cast(x);")
    o.a("got.is_nan()", "TimeDelta -> f32: NaT gives NaN")
    o.close()
    o.cover("which == 0", "Option<i64> target")
    o.close()
    return o.text()


def main():
    out = ["// @generated by /verif/tools/gen_c15.py — do not edit by hand"]
    n = 0
    for T in LATTICE:
        out.append(lattice(T))
        n += 1
    for T in LATTICE:
        out.append(num_time(T))
        n += 1
    out += [bool_src(), bool_dst(), dt_src(), time_src(), timedelta_src()]
    n += 2 + 4 + 1 + 2
    out.append(timedelta_src("c15_cast_timedelta_wide", 4096, True))
    n += 1
    open(OUT, "w").write("\n\n".join(out) + "\n")
    print("wrote", OUT, n, "harnesses")


main()
