#!/usr/bin/env python3
"""Generates /verif/kani/src/c12_gen.rs: the C12 harness table (generic bodies live in c12.rs).

Element classes: f64 = f64 built from keys -2..=2 with NaN mask, opt = Option<i32> keys -2..=2,
any = Option<i32> unconstrained. Tier "q" = quick, "t" = thorough only.
"""
import os
OUT = os.path.join(os.path.dirname(os.path.abspath(__file__)), "..", "kani", "src", "c12_gen.rs")

TY = {"f64": ("f64", "true"), "opt": ("Option<i32>", "true"), "any": ("Option<i32>", "false")}
ALLQ, ALLM, LOHI = 0b1111111, 0b1111, 0b0110
H = []   # (name, tier, unwind, [body lines])


SOLVER = {}   # harness-name prefix -> SAT back end (default: CaDiCaL)


def add(name, tier, unwind, body):
    assert name.startswith("c12_") and all(name != h[0] for h in H), name
    H.append((name, tier, unwind, body))


def ns(nl):
    return "".join(f"n{n}" for n in nl)


def quantile(ty, nl, tier, methods=ALLM, single=None, qs=ALLQ, median=(), tag=""):
    """single: None = no assumption on the valid count (only for N <= 1), False = n != 1, True = n == 1"""
    T, small = TY[ty]
    b = ["let mut fl = QFlags::default();"]
    for n in nl:
        if single is None:
            assert n <= 1
        s = {None: "Split::All", False: "Split::NotOne", True: "Split::One"}[single]
        b.append(f"quantile_case::<{T}, {n}>({small}, {qs:#09b}, {methods:#06b}, {s}, &mut fl);")
    for n in median:
        s = {None: "Split::All", False: "Split::NotOne", True: "Split::One"}[single]
        b.append(f"median_case::<{T}, {n}>({small}, {s}, &mut fl);")
    nmax = max(list(nl) + list(median))
    if single is True:
        if nmax >= 2:
            b.append('kani::cover!(fl.null_first, "the only valid element is not in the first slot");')
        b.append('kani::cover!(fl.upper_half, "q above one half");')
    else:
        b.append('kani::cover!(fl.empty, "no valid element");')
        if nmax >= 2 and single is False:
            b.append('kani::cover!(fl.fractional, "fractional position");')
            if methods & 0b1001:
                b.append('kani::cover!(fl.distinct_neighbours, "interpolation between distinct neighbours");')
            if qs >> 4:
                b.append('kani::cover!(fl.upper_half, "q above one half (mirrored branch)");')
        if nmax >= 3 and single is False:
            b.append('kani::cover!(fl.null_first, "null in the first slot, valid elements behind it");')
    kind = "quantile_single" if single is True else "quantile"
    add(f"c12_{kind}_{ty}{tag}_{ns(list(nl) + [m for m in median if m not in nl])}", tier, nmax + 4, b)


def median(ty, nl, tier):
    T, small = TY[ty]
    b = ["let mut fl = QFlags::default();"]
    for n in nl:
        b.append(f"median_case::<{T}, {n}>({small}, {'Split::NotOne' if n > 1 else 'Split::All'}, &mut fl);")
    b.append('kani::cover!(fl.empty, "no valid element");')
    if max(nl) >= 2:
        b.append('kani::cover!(fl.distinct_neighbours, "median between distinct neighbours");')
    add(f"c12_median_{ty}_{ns(nl)}", tier, max(nl) + 4, b)


def pctof(ty, nl, tier):
    T, small = TY[ty]
    b = ["let mut fl = PFlags::default();"]
    for n in nl:
        b.append(f"fl.merge(percentile_case::<{T}, {n}>({small}));")
    if max(nl) >= 2:
        b.append('kani::cover!(fl.tie, "score matches several elements");')
        b.append('kani::cover!(fl.with_null, "nulls among the elements");')
    if max(nl) >= 1:
        b.append('kani::cover!(fl.absent, "score matches no element");')
    add(f"c12_percentile_{ty}_{ns(nl)}", tier, max(nl) + 4, b)


def bsym(v, name):
    return ("kani::any()" if v is None else str(v).lower())


def rank(ty, nl, tier, pct=None, rev=None, tag=""):
    T, small = TY[ty]
    b = ["let mut fl = RFlags::default();", f"let pct: bool = {bsym(pct, 'pct')};", f"let rev: bool = {bsym(rev, 'rev')};"]
    for n in nl:
        b.append(f"fl.merge(rank_case::<{T}, {n}>({small}, pct, rev));")
    if max(nl) >= 2:
        b.append('kani::cover!(fl.tie, "tied elements");')
        b.append('kani::cover!(fl.null_and_valid, "nulls next to valid elements");')
    if pct is None:
        b.append('kani::cover!(pct, "fractional ranks");')
    if rev is None:
        b.append('kani::cover!(rev, "descending ranks");')
    add(f"c12_rank_{ty}{tag}_{ns(nl)}", tier, max(nl) + 4, b)


def part(fn, ty, calls, tier, tag):
    """calls: [(N, k, sort, rev)] — all concrete (see partition_case)"""
    T, small = TY[ty]
    case = {"partition": "partition_case", "argpartition": "arg_partition_case"}[fn]
    b = ["let mut fl = PartFlags::default();"]
    for n in sorted({c[0] for c in calls}):
        b.append(f"let keys{n}: [Option<i32>; {n}] = sym_keys({small});")
    for n, k, sort, rev in calls:
        assert 0 <= k <= n + 1
        b.append(f"fl.merge({case}::<{T}, {n}, {n + 3}>(&keys{n}, {k}, {str(sort).lower()}, {str(rev).lower()}));")
    what = "partition" if fn == "partition" else "arg-partition"
    b.append(f'assert!(!fl.count_bad, "{what} yields exactly k+1 entries");')
    if any(n >= 1 for n, k, _, _ in calls):
        b.append('kani::cover!(fl.padded, "fewer than k+1 valid elements (pads required)");')
    if any(k + 1 < n for n, k, _, _ in calls):
        b.append('kani::cover!(fl.selected, "more than k+1 valid elements (genuine selection)");')
    if any(k + 3 <= n for n, k, _, _ in calls):     # k+1 < valid count < N
        b.append('kani::cover!(fl.null_in_input && fl.selected, "nulls in the input and a genuine selection");')
    # tight bound: library loops over the N elements (N+1 evaluations of the condition, one spare) and the
    # k+2 reads of the harness; a generous bound is expensive here because the merged iterator states keep
    # every inner `find` loop unrolling up to the bound
    unwind = max(max(c[0] for c in calls) + 2, max(c[1] for c in calls) + 3)
    add(f"c12_{fn}_{ty}_{tag}", tier, unwind, b)


# ---------------------------------------------------------------------------------------------
# the table
# ---------------------------------------------------------------------------------------------
SOLVER.update({"c12_quantile": "minisat", "c12_median": "minisat", "c12_rank": "minisat", "c12_percentile": "minisat"})
# vquantile / vmedian. n == 1 ("single") is kept apart for N >= 2: the pinned tree reads slot 0 there.
quantile("f64", [0, 1], "q", median=[0])
quantile("opt", [0, 1], "t", median=[0])
quantile("f64", [3], "q", single=False)
quantile("opt", [3], "q", single=False)
quantile("any", [2], "t", single=False, methods=LOHI, tag="_lohi")
quantile("any", [3], "t", single=False, methods=LOHI, tag="_lohi")
quantile("any", [4], "t", single=False, methods=LOHI, tag="_lohi")
for ty in ("f64", "opt"):
    quantile(ty, [2], "t", single=False)
    quantile(ty, [4], "t", single=False)
quantile("f64", [3], "q", single=True)
quantile("any", [3], "t", single=True)
for ty in ("f64", "any"):
    quantile(ty, [2], "t", single=True, median=[2, 3])
    quantile(ty, [4], "t", single=True, median=[4])
median("f64", [3], "q")
median("opt", [3], "t")
for ty in ("f64", "opt"):
    median(ty, [1, 2], "t")
    median(ty, [4], "t")

# vpercentile_of
for ty in ("f64", "opt", "any"):
    pctof(ty, [0, 1, 2, 3], "t" if ty == "opt" else "q")
    pctof(ty, [4], "t")
    pctof(ty, [5], "t")

# vrank
rank("f64", [0, 1], "q")           # len == 1 shortcut: fails on "null element gets a null rank"
rank("opt", [0, 1], "t")
rank("opt", [2], "q")
rank("f64", [2], "t")
rank("f64", [3], "q", rev=False, tag="_asc")
rank("opt", [3], "q", rev=True, tag="_desc")
rank("f64", [3], "t", rev=True, tag="_desc")
rank("opt", [3], "t", rev=False, tag="_asc")
rank("any", [2], "t")
rank("any", [3], "t", rev=False, tag="_asc")
rank("any", [3], "t", rev=True, tag="_desc")
for ty in ("f64", "opt"):
    rank(ty, [4], "t", rev=False, tag="_asc")
    rank(ty, [4], "t", rev=True, tag="_desc")

# vpartition / varg_partition; (N, k, sort, rev) all concrete per call.
A, D, S, U = False, True, True, False     # asc / desc, sorted / unsorted
QUICK_TY = {"partition": "opt", "argpartition": "f64"}
for fn in ("partition", "argpartition"):
    for ty in ("f64", "opt", "any"):
        t = "q" if ty == QUICK_TY[fn] else "t"
        if ty == "any":
            # unconstrained keys: the two selection families only
            part(fn, ty, [(3, 1, S, A), (3, 0, S, D)], "t", "in_sorted_n3")
            part(fn, ty, [(3, 0, U, A), (3, 1, U, D)], "t", "in_unsorted_n3")
            continue
        # k < len: every code path (n == k+1 filter path, n < k+1 pad path, sorted fast path, selection)
        part(fn, ty, [(3, 1, S, A), (3, 0, S, D)], t, "in_sorted_n3")
        part(fn, ty, [(3, 0, U, A), (3, 1, U, D)], t, "in_unsorted_n3")
        # k+1 == len (sorted) and k+1 > len without the sorted flag (pads forced)
        part(fn, ty, [(3, 2, S, A), (3, 3, U, D)], "t", "pad_n3")       # quick has the same paths at N = 1 (small_n0n1)
        part(fn, ty, [(0, 0, U, A), (1, 0, S, A), (1, 1, U, D)], t, "small_n0n1")
        # k+1 > len with the sorted flag: the pinned vpartition returns len entries here
        # (kept small: the native replay of a failing harness needs a full CBMC trace, about 5x its cost)
        part(fn, ty, [(1, 1, S, D), (2, 2, S, A)], t if fn == "partition" else "t", "sorted_beyond_n1n2")
        part(fn, ty, [(0, 0, S, A), (2, 3, S, D)], "t", "sorted_beyond_rest_n0n2")
        part(fn, ty, [(3, 3, S, A), (3, 4, S, D)], "t", "sorted_beyond_n3")
        # the mirrored flags and the remaining k at N <= 3, and N = 4: thorough
        part(fn, ty, [(0, 1, U, D), (1, 0, S, D), (1, 0, U, A), (1, 0, U, D), (1, 1, U, A), (1, 2, U, A), (1, 2, U, D)], "t", "small_rest_n0n1")
        part(fn, ty, [(3, 1, S, D), (3, 0, S, A)], "t", "in_sorted_mirror_n3")
        part(fn, ty, [(3, 0, U, D), (3, 1, U, A)], "t", "in_unsorted_mirror_n3")
        part(fn, ty, [(3, 2, S, D), (3, 2, U, A), (3, 2, U, D)], "t", "pad_k2_n3")
        part(fn, ty, [(3, 3, U, A), (3, 4, U, A), (3, 4, U, D)], "t", "pad_beyond_n3")
        part(fn, ty, [(2, 0, S, A), (2, 0, S, D), (2, 0, U, A), (2, 0, U, D)], "t", "in_n2")
        part(fn, ty, [(2, 1, S, A), (2, 1, S, D), (2, 1, U, A), (2, 1, U, D)], "t", "pad_k1_n2")
        part(fn, ty, [(2, 2, U, A), (2, 2, U, D), (2, 3, U, A), (2, 3, U, D)], "t", "pad_beyond_n2")
        if True:
            for k in (0, 1, 2):
                part(fn, ty, [(4, k, S, A), (4, k, U, D)], "t", f"in_k{k}_n4")
                part(fn, ty, [(4, k, S, D), (4, k, U, A)], "t", f"in_k{k}_mirror_n4")
            part(fn, ty, [(4, 3, S, A), (4, 3, U, D)], "t", "pad_k3_n4")
            part(fn, ty, [(4, 4, U, A), (4, 5, U, D)], "t", "pad_beyond_n4")
            part(fn, ty, [(4, 4, S, A), (4, 5, S, D)], "t", "sorted_beyond_n4")

out = ["// @generated by /verif/tools/gen_c12.py — do not edit by hand", ""]
for name, tier, unwind, body in H:
    if tier == "t":
        out.append('#[cfg(feature = "thorough")]')
    out += ["#[kani::proof]", "#[kani::stub(std::fmt::format, crate::util::fmt_stub)]", f"#[kani::unwind({unwind})]"]
    for pre, sol in SOLVER.items():
        if name.startswith(pre):
            out.append(f"#[kani::solver({sol})]")
            break
    out.append(f"pub fn {name}() {{")
    out += ["    " + l for l in body]
    out += ["}", ""]
open(OUT, "w").write("\n".join(out))
print(f"{len(H)} harnesses ({sum(1 for h in H if h[1] == 'q')} quick) -> {os.path.normpath(OUT)}")
