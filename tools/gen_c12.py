#!/usr/bin/env python3
"""Generates /verif/kani/src/c12_gen.rs: the C12 harness table (generic bodies live in c12.rs).

Element classes: f64 = f64 built from keys -2..=2 with NaN mask, opt = Option<i32> keys -2..=2,
any = Option<i32> unconstrained. Tier "q" = quick, "t" = thorough only.
"""
import os
OUT = os.path.join(os.path.dirname(os.path.abspath(__file__)), "..", "kani", "src", "c12_gen.rs")

TY = {"f64": ("f64", "true"), "opt": ("Option<i32>", "true"), "any": ("Option<i32>", "false")}
ALLQ, ALLM, LOHI = 0b1111111, 0b1111, 0b0110
H = []   # (name, tier, unwind, [body lines])


def add(name, tier, unwind, body):
    assert name.startswith("c12_") and all(name != h[0] for h in H), name
    H.append((name, tier, unwind, body))


def ns(nl):
    return "".join(f"n{n}" for n in nl)


def quantile(ty, nl, tier, methods=ALLM, single=None, qs=ALLQ, median=(), tag=""):
    """single: None = no assumption on the valid count (only for N <= 1), False = n != 1, True = n == 1"""
    T, small = TY[ty]
    b = ["let mut fl = QFlags::default();"]
    for n in nl:
        if single is None:
            assert n <= 1
        s = {None: "Split::All", False: "Split::NotOne", True: "Split::One"}[single]
        b.append(f"quantile_case::<{T}, {n}>({small}, {qs:#09b}, {methods:#06b}, {s}, &mut fl);")
    for n in median:
        s = {None: "Split::All", False: "Split::NotOne", True: "Split::One"}[single]
        b.append(f"median_case::<{T}, {n}>({small}, {s}, &mut fl);")
    nmax = max(list(nl) + list(median))
    if single is True:
        if nmax >= 2:
            b.append('kani::cover!(fl.null_first, "the only valid element is not in the first slot");')
        b.append('kani::cover!(fl.upper_half, "q above one half");')
    else:
        b.append('kani::cover!(fl.empty, "no valid element");')
        if nmax >= 2 and single is False:
            b.append('kani::cover!(fl.fractional, "fractional position");')
            if methods & 0b1001:
                b.append('kani::cover!(fl.distinct_neighbours, "interpolation between distinct neighbours");')
            if qs >> 4:
                b.append('kani::cover!(fl.upper_half, "q above one half (mirrored branch)");')
        if nmax >= 3 and single is False:
            b.append('kani::cover!(fl.null_first, "null in the first slot, valid elements behind it");')
    kind = "quantile_single" if single is True else "quantile"
    add(f"c12_{kind}_{ty}{tag}_{ns(list(nl) + [m for m in median if m not in nl])}", tier, nmax + 4, b)


def median(ty, nl, tier):
    T, small = TY[ty]
    b = ["let mut fl = QFlags::default();"]
    for n in nl:
        b.append(f"median_case::<{T}, {n}>({small}, {'Split::NotOne' if n > 1 else 'Split::All'}, &mut fl);")
    b.append('kani::cover!(fl.empty, "no valid element");')
    if max(nl) >= 2:
        b.append('kani::cover!(fl.distinct_neighbours, "median between distinct neighbours");')
    add(f"c12_median_{ty}_{ns(nl)}", tier, max(nl) + 4, b)


def pctof(ty, nl, tier):
    T, small = TY[ty]
    b = ["let mut fl = PFlags::default();"]
    for n in nl:
        b.append(f"fl.merge(percentile_case::<{T}, {n}>({small}));")
    if max(nl) >= 2:
        b.append('kani::cover!(fl.tie, "score matches several elements");')
        b.append('kani::cover!(fl.with_null, "nulls among the elements");')
    if max(nl) >= 1:
        b.append('kani::cover!(fl.absent, "score matches no element");')
    add(f"c12_percentile_{ty}_{ns(nl)}", tier, max(nl) + 4, b)


def bsym(v, name):
    return ("kani::any()" if v is None else str(v).lower())


def rank(ty, nl, tier, pct=None, rev=None, tag=""):
    T, small = TY[ty]
    b = ["let mut fl = RFlags::default();", f"let pct: bool = {bsym(pct, 'pct')};", f"let rev: bool = {bsym(rev, 'rev')};"]
    for n in nl:
        b.append(f"fl.merge(rank_case::<{T}, {n}>({small}, pct, rev));")
    if max(nl) >= 2:
        b.append('kani::cover!(fl.tie, "tied elements");')
        b.append('kani::cover!(fl.null_and_valid, "nulls next to valid elements");')
    if pct is None:
        b.append('kani::cover!(pct, "fractional ranks");')
    if rev is None:
        b.append('kani::cover!(rev, "descending ranks");')
    add(f"c12_rank_{ty}{tag}_{ns(nl)}", tier, max(nl) + 4, b)


def part(fn, ty, n, ks, tier, sort=None, rev=None, tag=""):
    T, small = TY[ty]
    case = {"partition": "partition_case", "argpartition": "arg_partition_case"}[fn]
    b = [f"let keys: [Option<i32>; {n}] = sym_keys({small});", "let mut fl = PartFlags::default();",
         f"let sort: bool = {bsym(sort, 'sort')};", f"let rev: bool = {bsym(rev, 'rev')};"]
    for k in ks:
        assert 0 <= k <= n + 1
        b.append(f"fl.merge({case}::<{T}, {n}, {n + 3}>(&keys, {k}, sort, rev));")
    if n >= 1:
        b.append('kani::cover!(fl.padded, "fewer than k+1 valid elements (pads required)");')
    if min(ks) + 1 < n:
        b.append('kani::cover!(fl.selected, "more than k+1 valid elements (genuine selection)");')
    if n >= 2 and min(ks) < n:
        b.append('kani::cover!(fl.null_in_input && !fl.padded, "nulls in the input but enough valid elements");')
    if sort is None:
        b.append('kani::cover!(sort, "sorted output requested");')
    if rev is None:
        b.append('kani::cover!(rev, "largest elements requested");')
    add(f"c12_{fn}_{ty}{tag}_n{n}", tier, n + 5, b)


# ---------------------------------------------------------------------------------------------
# the table
# ---------------------------------------------------------------------------------------------
# vquantile / vmedian. n == 1 (single) is kept apart from N >= 2 on: the pinned tree reads slot 0 there.
for ty in ("f64", "opt"):
    quantile(ty, [0, 1], "q", median=[0, 1])
quantile("f64", [3], "q", single=False)
quantile("any", [3], "q", single=False, methods=LOHI, tag="_lohi")
quantile("opt", [3], "t", single=False)
for ty in ("f64", "opt"):
    quantile(ty, [2], "t", single=False)
    quantile(ty, [4], "t", single=False)
quantile("any", [2], "t", single=False, methods=LOHI, tag="_lohi")
quantile("any", [4], "t", single=False, methods=LOHI, tag="_lohi")
quantile("f64", [2, 3], "q", single=True, median=[2])
quantile("any", [2, 3], "q", single=True, median=[2])
quantile("f64", [4], "t", single=True, median=[3, 4])
quantile("any", [4], "t", single=True, median=[3, 4])
median("f64", [3], "q")
median("opt", [2], "q")
median("opt", [3], "t")
median("f64", [2], "t")
median("f64", [4], "t")
median("opt", [4], "t")

# vpercentile_of
for ty in ("f64", "opt", "any"):
    pctof(ty, [0, 1, 2], "q")
    pctof(ty, [3], "q")
    pctof(ty, [4], "t")
    pctof(ty, [5], "t")

# vrank
for ty in ("f64", "opt"):
    rank(ty, [0, 1], "q")          # len == 1 shortcut: fails on "null element gets a null rank"
    rank(ty, [2], "q")
rank("f64", [3], "q", rev=False, tag="_asc")
rank("opt", [3], "q", rev=True, tag="_desc")
rank("f64", [3], "t", rev=True, tag="_desc")
rank("opt", [3], "t", rev=False, tag="_asc")
rank("any", [2], "t")
rank("any", [3], "t", rev=False, tag="_asc")
rank("any", [3], "t", rev=True, tag="_desc")
for ty in ("f64", "opt"):
    rank(ty, [4], "t", rev=False, tag="_asc")
    rank(ty, [4], "t", rev=True, tag="_desc")

# vpartition / varg_partition. "in": k < len (k+1 entries exist), "beyond": k >= len (pads forced).
for fn in ("partition", "argpartition"):
    for ty in ("f64", "opt"):
        part(fn, ty, 0, [0, 1], "q", tag="_small")
        part(fn, ty, 1, [0, 1, 2], "q", tag="_small")
part("partition", "opt", 3, [0, 1, 2], "q", rev=False, tag="_in_asc")
part("partition", "f64", 3, [0, 1, 2], "q", rev=True, tag="_in_desc")
part("argpartition", "f64", 3, [0, 1, 2], "q", rev=False, tag="_in_asc")
part("argpartition", "opt", 3, [0, 1, 2], "q", rev=True, tag="_in_desc")
part("partition", "opt", 3, [3, 4], "q", tag="_beyond")
part("argpartition", "f64", 3, [3, 4], "q", tag="_beyond")
part("partition", "f64", 3, [3, 4], "t", tag="_beyond")
part("argpartition", "opt", 3, [3, 4], "t", tag="_beyond")
part("partition", "f64", 3, [0, 1, 2], "t", rev=False, tag="_in_asc")
part("partition", "opt", 3, [0, 1, 2], "t", rev=True, tag="_in_desc")
part("argpartition", "opt", 3, [0, 1, 2], "t", rev=False, tag="_in_asc")
part("argpartition", "f64", 3, [0, 1, 2], "t", rev=True, tag="_in_desc")
for fn in ("partition", "argpartition"):
    for ty in ("f64", "opt"):
        part(fn, ty, 2, [0, 1], "t", tag="_in")
        part(fn, ty, 2, [2, 3], "t", tag="_beyond")
        for rev, d in ((False, "asc"), (True, "desc")):
            part(fn, ty, 4, [0, 1], "t", rev=rev, tag=f"_in01_{d}")
            part(fn, ty, 4, [2, 3], "t", rev=rev, tag=f"_in23_{d}")
        part(fn, ty, 4, [4, 5], "t", tag="_beyond")
    part(fn, "any", 3, [0, 1, 2], "t", rev=False, tag="_in_asc")
    part(fn, "any", 3, [0, 1, 2], "t", rev=True, tag="_in_desc")

out = ["// @generated by /verif/tools/gen_c12.py — do not edit by hand", ""]
for name, tier, unwind, body in H:
    if tier == "t":
        out.append('#[cfg(feature = "thorough")]')
    out += ["#[kani::proof]", "#[kani::stub(std::fmt::format, crate::util::fmt_stub)]", f"#[kani::unwind({unwind})]",
            f"pub fn {name}() {{"]
    out += ["    " + l for l in body]
    out += ["}", ""]
open(OUT, "w").write("\n".join(out))
print(f"{len(H)} harnesses ({sum(1 for h in H if h[1] == 'q')} quick) -> {os.path.normpath(OUT)}")
