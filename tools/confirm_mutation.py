#!/usr/bin/env python3
"""confirm_mutation.py <src dir with patch.diff/demo.rs/meta.json> <seed id> — confirms in a scratch worktree of /repo HEAD that
the patch applies, compiles, keeps the existing suite green, that the demo fails with it and passes without it; then stores it
under /verif/seeded/<seed id>/ with the confirmation record. Nothing is left in /repo."""
import json, os, shutil, subprocess, sys, time
src, sid = sys.argv[1], sys.argv[2]
wt = f"/tmp/confirm_{sid}"
env = dict(os.environ, CARGO_NET_OFFLINE="true", CARGO_TARGET_DIR=f"/tmp/confirm_target_{sid}")
def sh(cmd, cwd=None, timeout=1800):
    p = subprocess.run(cmd, cwd=cwd, shell=True, env=env, stdout=subprocess.PIPE, stderr=subprocess.STDOUT, text=True, timeout=timeout)
    return p.returncode, p.stdout
subprocess.run(f"git -C /repo worktree remove --force {wt}", shell=True, stdout=subprocess.DEVNULL, stderr=subprocess.DEVNULL)
rc, out = sh(f"git -C /repo worktree add -q --detach {wt} HEAD")
rec = {"confirmed_at_repo_commit": subprocess.check_output("git -C /repo rev-parse --short HEAD", shell=True, text=True).strip()}
try:
    rc, out = sh(f"git apply {os.path.abspath(src)}/patch.diff", cwd=wt)
    rec["patch_applies"] = rc == 0
    if rc != 0:
        print("PATCH DOES NOT APPLY", out[-500:]); sys.exit(1)
    rc, out = sh("cargo test --workspace --no-fail-fast --offline 2>&1 | tail -60", cwd=wt)
    ok = "FAILED" not in out and "error[" not in out and "error:" not in out
    rec["suite_green_with_patch"] = ok
    os.makedirs(f"{wt}/tevec/tests", exist_ok=True)
    shutil.copy(f"{src}/demo.rs", f"{wt}/tevec/tests/demo_seed.rs")
    rc1, out1 = sh("cargo test -p tevec --offline --features ndarray,vecdeque --test demo_seed 2>&1 | tail -30", cwd=wt)
    rec["demo_fails_with_patch"] = ("FAILED" in out1 or "panicked" in out1) and "error[" not in out1
    sh("git checkout -- .", cwd=wt)
    rc2, out2 = sh("cargo test -p tevec --offline --features ndarray,vecdeque --test demo_seed 2>&1 | tail -30", cwd=wt)
    rec["demo_passes_without_patch"] = "test result: ok" in out2 and "FAILED" not in out2
    rec["demo_output_with_patch"] = out1[-600:]
finally:
    subprocess.run(f"git -C /repo worktree remove --force {wt}", shell=True)
    shutil.rmtree(f"/tmp/confirm_target_{sid}", ignore_errors=True)
print(json.dumps({k: v for k, v in rec.items() if k != "demo_output_with_patch"}))
good = all(rec.get(k) for k in ("patch_applies", "suite_green_with_patch", "demo_fails_with_patch", "demo_passes_without_patch"))
if good:
    dst = f"/verif/seeded/{sid}"
    os.makedirs(dst, exist_ok=True)
    for f in ("patch.diff", "demo.rs"):
        shutil.copy(f"{src}/{f}", dst)
    meta = json.load(open(f"{src}/meta.json"))
    meta["confirmation"] = rec
    meta["ran"] = ["git apply patch.diff (scratch worktree of /repo HEAD)", "cargo test --workspace --no-fail-fast --offline (green)",
                   "cargo test -p tevec --offline --features ndarray,vecdeque --test demo_seed (fails with patch, passes without)"]
    json.dump(meta, open(f"{dst}/meta.json", "w"), indent=1)
    print("STORED", dst)
else:
    print("NOT CONFIRMED", rec)
    sys.exit(1)
