#!/usr/bin/env python3
"""Generates /verif/kani/src/c05_gen.rs: explicit length-law harnesses for C05 (see kani/src/c05.rs).

name: c05_len_<group>_n<N>; every harness shares one symbolic (w, min_periods) and one symbolic input among the
entry points of its group (each assertion message names its entry point).
"""
import os
OUT = os.path.join(os.path.dirname(os.path.abspath(__file__)), "..", "kani", "src", "c05_gen.rs")

VFEAT_A = ["ts_vsum", "ts_vmean", "ts_vewm", "ts_vwma"]
VFEAT_B = ["ts_vstd", "ts_vvar", "ts_vskew", "ts_vkurt"]
FEAT_A = ["ts_sum", "ts_mean", "ts_ewm", "ts_wma"]
FEAT_B = ["ts_std", "ts_var", "ts_skew", "ts_kurt"]
CMP = ["ts_vmin", "ts_vmax", "ts_vargmin", "ts_vargmax"]
NORM = ["ts_vzscore", "ts_vminmaxnorm"]
REG = ["ts_vreg", "ts_vtsf", "ts_vreg_slope", "ts_vreg_intercept", "ts_vreg_resid_mean"]
REGX_A = ["ts_vregx_alpha", "ts_vregx_beta"]            # + ts_vregx_all
REGX_B = ["ts_vregx_resid_mean", "ts_vregx_resid_std", "ts_vregx_resid_skew"]

# spec = (input kind, omitted-needs-full, one-series fns, rank?, two-series fns, regx_all?, vcov mode)
#   vcov mode: None = not in group, "any" = unrestricted, "eff1" = effective min_periods >= 1
def S(kind="opt", full=False, one=(), rank=False, two=(), allf=False, vcov=None):
    return (kind, full, list(one), rank, list(two), allf, vcov)


def groups(n):
    """(group name, spec, thorough?) for length n. The float data path is not separable from the length for CBMC, and
    several float-heavy kernels (std/var/skew/kurt, zscore, minmaxnorm, cov/corr, the regressions) in one formula scale
    worse than linearly: at N >= 2 they are run at most two per harness."""
    resid = [(f[3:], S(two=[f]), False) for f in REGX_B]     # one per harness: three together cost 3-6 times the sum
    if n == 0:
        # empty input: the callbacks are never invoked (cheap; ts_vcov is not restricted here)
        return [("valid", S(one=VFEAT_A + VFEAT_B + NORM + REG, two=["ts_vcorr"] + REGX_A + REGX_B, allf=True, vcov="any"), False),
                ("feat", S("int", one=FEAT_A + FEAT_B), False),
                ("cmp", S(full=True, one=CMP), False)]
    if n == 1:
        return [("vfeat_a", S(one=VFEAT_A), False), ("vfeat_b", S(one=VFEAT_B), False),
                ("feat_a", S("int", one=FEAT_A), False), ("feat_b", S("int", one=FEAT_B), False),
                ("cmp", S(full=True, one=CMP, rank=True), False), ("norm", S(one=NORM), False),
                ("binary", S(two=["ts_vcorr"], vcov="eff1"), False), ("reg", S(one=REG), False),
                ("regx_a", S(two=REGX_A, allf=True), False), ("regx_b", S(two=REGX_B), False)]
    if n == 2:
        return [("vfeat_a", S(one=VFEAT_A), False), ("vfeat_b1", S(one=VFEAT_B[:2]), False), ("vfeat_b2", S(one=VFEAT_B[2:]), False),
                ("feat_a", S("int", one=FEAT_A), False), ("feat_b1", S("int", one=FEAT_B[:2]), False), ("feat_b2", S("int", one=FEAT_B[2:]), False),
                ("cmp_a", S(full=True, one=CMP[:2]), False), ("cmp_b", S(full=True, one=CMP[2:]), False),
                ("vrank", S(full=True, rank=True), False),
                ("norm", S(one=NORM), False), ("binary", S(two=["ts_vcorr"], vcov="eff1"), False),
                ("reg", S(one=REG), False), ("regx_a", S(two=REGX_A, allf=True), False)] + resid
    cheap = [("vfeat_a", S(one=VFEAT_A), n > 3), ("feat_a", S("int", one=FEAT_A), n > 3),
             ("cmp_a", S(full=True, one=CMP[:2]), n > 3), ("cmp_b", S(full=True, one=CMP[2:]), n > 3),
             ("vrank", S(full=True, rank=True), n > 3), ("regx_a", S(two=REGX_A, allf=True), n > 3)] + \
            [(g, sp, n > 3) for g, sp, _ in resid]
    # float-heavy entry points: two per harness (four per harness is 4-10 times the cost of two pairs)
    heavy = [("vstd_vvar", S(one=VFEAT_B[:2]), False), ("vskew_vkurt", S(one=VFEAT_B[2:]), False),
             ("std_var", S("int", one=FEAT_B[:2]), False), ("skew_kurt", S("int", one=FEAT_B[2:]), False),
             ("norm", S(one=NORM), False), ("binary", S(two=["ts_vcorr"], vcov="eff1"), False),
             ("reg_a", S(one=REG[:2]), False), ("reg_b", S(one=REG[2:4]), False), ("reg_c", S(one=REG[4:]), False)]
    return cheap + [(g, sp, n > 3) for g, sp, _ in heavy]


def harness(name, n, spec, thorough=False, extra_pre=(), covers=True, extra_post=()):
    kind, needs_full, one, rank, two, allf, vcov = spec
    L = []
    if thorough:
        L.append('#[cfg(feature = "thorough")]')
    L.append("#[kani::proof]")
    L.append("#[kani::stub(std::fmt::format, crate::util::fmt_stub)]")
    L.append("#[kani::stub(f64::sqrt, any_sqrt)]")
    L.append("#[kani::stub(f64::powi, any_powi)]")
    L.append("#[kani::stub(f64::mul_add, any_mul_add)]")
    if any("resid_mean" in f for f in two):
        L.append("#[kani::stub(tea_core::prelude::AggValidBasic::vmean, StubAgg::vmean_drain)]")
    if any("resid_std" in f for f in two):
        L.append("#[kani::stub(tea_core::prelude::AggValidBasic::vstd, StubAgg::vstd_drain)]")
    if any("resid_skew" in f for f in two):
        L.append("#[kani::stub(tea_core::prelude::AggValidBasic::vskew, StubAgg::vskew_drain)]")
    L.append(f"#[kani::unwind({n + 2 if any('resid' in f for f in two) or n == 0 else n + 1})]")
    L.append(f"pub fn {name}() {{")
    L.append(f"    let p = params::<{n}>({'true' if needs_full else 'false'});")
    L.extend("    " + e for e in extra_pre)
    L.append(f"    let v = {'opt_input' if kind == 'opt' else 'int_input'}::<{n}>();")
    if two or allf or vcov:
        L.append(f"    let o = opt_input::<{n}>();")
    for f in one:
        L.append(f"    len1!(v, p, {n}, {f});")
    if rank:
        L.append(f"    len_rank!(v, p, {n});")
    for f in two:
        L.append(f"    len2!(v, o, p, {n}, {f});")
    if allf:
        L.append(f"    len2_all!(v, o, p, {n});")
    if vcov == "any":
        L.append(f"    len2!(v, o, p, {n}, ts_vcov);")
    elif vcov == "eff1":
        L.append("    // effective min_periods 0 is isolated in c05_len_vcov_mp0_n1")
        L.append("    if p.eff >= 1 {")
        L.append(f"        len2!(v, o, p, {n}, ts_vcov);")
        L.append("    }")
    if covers:
        L.append(f'    kani::cover!(p.w > {n}, "window longer than the series");')
        L.append('    kani::cover!(p.mp == Some(0), "explicit min_periods 0");')
        if not (needs_full and n == 0):
            L.append('    kani::cover!(p.mp.is_none(), "omitted min_periods");')
    L.extend("    " + e for e in extra_post)
    L.append("}")
    return "\n".join(L) + "\n"


def main():
    out = ["// @generated by /verif/tools/gen_c05.py — do not edit by hand\n"]
    cnt = 0
    for n in (0, 1, 2, 3, 4):
        for g, spec, th in groups(n):
            out.append(harness(f"c05_len_{g}_n{n}", n, spec, thorough=th))
            cnt += 1
    # isolated: ts_vrank on empty input
    out.append(harness("c05_len_vrank_n0", 0, S(full=True, rank=True), covers=False))
    # isolated: ts_vcov with effective min_periods 0
    out.append(harness("c05_len_vcov_mp0_n1", 1, S(vcov="any"),
                       extra_pre=["kani::assume(p.eff == 0);"], covers=False,
                       extra_post=['kani::cover!(v[0].is_none() || o[0].is_none(), "no complete pair in the only window, effective min_periods 0");']))
    # isolated: integer output container of the extrema (null is `None.cast::<i32>()`)
    out.append("""#[kani::proof]
#[kani::stub(std::fmt::format, crate::util::fmt_stub)]
#[kani::unwind(2)]
pub fn c05_len_minmax_i32out_n1() {
    let p = params::<1>(true);
    let v = opt_input::<1>();
    let out: Vec<i32> = v.ts_vmin(p.w, p.mp);
    assert!(out.len() == 1, "ts_vmin -> Vec<i32>: exactly one output per input element");
    let out: Vec<i32> = v.ts_vmax(p.w, p.mp);
    assert!(out.len() == 1, "ts_vmax -> Vec<i32>: exactly one output per input element");
}
""")
    cnt += 3
    with open(OUT, "w") as f:
        f.write("\n".join(out))
    print("wrote", OUT, "harnesses:", cnt)


if __name__ == "__main__":
    main()
