#!/bin/sh
# seed_pipeline4.sh <PROP> [check props...]: confirm /tmp/mut4_<PROP>/_out/m7 (round 4) and run the quick check(s) against each
P=$1; shift
CHK=${@:-$P}
for n in m7; do
  if [ -f /tmp/mut4_$P/_out/$n/patch.diff ]; then
    python3 /verif/tools/confirm_mutation.py /tmp/mut4_$P/_out/$n $P-$n 2>&1 | tail -n 1
    if [ -d /verif/seeded/$P-$n ]; then python3 /verif/tools/try_seeded.py $P-$n $CHK 2>&1 | grep -E "exit|VIOLATION" | cut -c1-260; fi
  else echo "$P/$n: no patch"; fi
done
