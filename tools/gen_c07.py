#!/usr/bin/env python3
"""Generates /verif/kani/src/c07_gen.rs: the C07 harness table (generic bodies live in c07.rs).

(a) accessor coherence: one harness per (container, group of lengths); every length N in the group builds the
    container from its own symbolic `xs: [T; N]` and runs acc_view / acc_slice! / acc_tas.
    Containers (logical sequence xs):
      vec, arr ([T;N]), slc ([T] through &[T]), deq<r> (VecDeque whose ring head sits at offset r),
      nd (Array1), ndv1 / nd2 / nd3 (ArrayView1 step 1 / 2 / 3), ndrev / ndm2 (step -1 / -2),
      arc (Arc<Vec>), opt (OptIter over Vec<Option<i32>>)
    Quick: N in 0..=3 — light containers grouped {0,1,2} + {3}; VecDeque / ndarray one harness per N (several heavy
    instances in one harness cost CBMC more than the sum of the parts); the step-1 view only at N = 3 (same impl
    macro as Array1); deque offsets 0 and 1; steps 1, 2, -1.
    Thorough adds N = 4, deque offsets 2 and 3, steps 3 and -2.
    The reversed view's try_as_slice (known defect: memory-order slice) is isolated in c07_tas_ndrev_* so that its
    counterexample replay stays cheap and the c07_acc_ndrev_* harnesses still decide everything else.
(b) end-to-end witnesses (bodies in c07.rs): N = 2 quick (measured: 45-65 s each; N = 3: 80-160 s), N = 3 / 4 thorough;
    ts_vmin, rolling_apply Some(out), vshift Vec-vs-Array1 and the Vec-vs-Vec out-buffer case are thorough only.
"""
import os
OUT = os.path.join(os.path.dirname(os.path.abspath(__file__)), "..", "kani", "src", "c07_gen.rs")

# name: (T, setup (uses xs, {N}), reference expression handed to the generic checks)
CONT = {
    "vec":   ("i32", "let v: Vec<i32> = xs.to_vec();", "&v"),
    "arr":   ("i32", "let v: [i32; {N}] = xs;", "&v"),
    "slc":   ("i32", "let v: &[i32] = &xs[..];", "v"),
    "deq0":  ("i32", "let v = deque_rot(&xs[..], 0);", "&v"),
    "deq1":  ("i32", "let v = deque_rot(&xs[..], 1);", "&v"),
    "deq2":  ("i32", "let v = deque_rot(&xs[..], 2);", "&v"),
    "deq3":  ("i32", "let v = deque_rot(&xs[..], 3);", "&v"),
    "nd":    ("i32", "let v = nd_owned(&xs[..]);", "&v"),
    "ndv1":  ("i32", "let st = nd_owned(&xs[..]); let v = st.slice(s![..;1]);", "&v"),
    "nd2":   ("i32", "let st = nd_step_storage(&xs[..], 2); let v = st.slice(s![..;2]);", "&v"),
    "nd3":   ("i32", "let st = nd_step_storage(&xs[..], 3); let v = st.slice(s![..;3]);", "&v"),
    "ndrev": ("i32", "let st = nd_rev_storage(&xs[..]); let v = st.slice(s![..;-1]);", "&v"),
    "ndm2":  ("i32", "let st = { let mut t = nd_step_storage(&xs[..], 2).to_vec(); t.reverse(); Array1::from_vec(t) }; "
                     "let v = st.slice(s![..;-2]);", "&v"),
    "arc":   ("i32", "let v = Arc::new(xs.to_vec());", "&v"),
    "opt":   ("Option<i32>", "let base: Vec<Option<i32>> = xs.to_vec(); let v = base.opt();", "&v"),
}
HEAVY = ("deq0", "deq1", "nd", "ndv1", "nd2", "ndrev")
QUICK = ["vec", "arr", "slc", "deq0", "deq1", "nd", "ndv1", "nd2", "ndrev", "arc", "opt"]
THOROUGH_ONLY = {"deq2": [[3], [4]], "deq3": [[4]], "nd3": [[0], [1], [2], [3], [4]], "ndm2": [[0], [1], [2], [3], [4]]}


def tas(be, n):
    """what try_as_slice answers for container `be` of length n"""
    if be in ("vec", "slc", "arc", "nd", "ndv1"):
        return "some"          # (a reversed view offers a slice only for n <= 1 since fix 8d61a29: falls through below)
    if be in ("arr", "opt"):
        return "none"
    if be.startswith("deq"):
        r = int(be[3:])
        return "some" if n == 0 or r % n == 0 else "none"
    return "some" if n <= 1 else "none"      # strided views


def acc(be, ns, thorough):
    T, setup, ref = CONT[be]
    nmax = max(ns)
    step = 3 if be == "nd3" else 2
    unwind = max(nmax * (step if be in ("nd2", "nd3", "ndm2") else 1), nmax) + 4
    if be.startswith("nd"):
        unwind = max(unwind, 10)     # ndarray's contiguity test compares stride arrays with memcmp (8 bytes)
    L = []
    if thorough:
        L.append('#[cfg(feature = "thorough")]')
    L += ["#[kani::proof]", "#[kani::stub(std::fmt::format, crate::util::fmt_stub)]", f"#[kani::unwind({unwind})]",
          f"pub fn c07_acc_{be}_{''.join('n%d' % n for n in ns)}() {{", "    let mut fl = Fl::default();"]
    for n in ns:
        L.append("    {")
        L.append(f"        let xs: [{T}; {n}] = kani::any();")
        L.append("        " + setup.replace("{N}", str(n)))
        L.append(f"        acc_view::<{T}, _, {n}>({ref}, &xs);")
        L.append(f"        acc_slice!({ref}, xs, {n}, fl);")
        if be != "ndrev":        # the reversed view's try_as_slice is a known defect: isolated in c07_tas_ndrev_*
            L.append(f"        acc_tas::<{T}, _, {n}>({ref}, &xs, &mut fl);")
        L.append("    }")
    kinds = {tas(be, n) for n in ns} if be != "ndrev" else set()
    if "some" in kinds:
        L.append('    kani::cover!(fl.tas_some, "try_as_slice offered a slice");')
    if "none" in kinds:
        L.append('    kani::cover!(fl.tas_none, "try_as_slice declined");')
    L.append('    kani::cover!(fl.empty_slice, "empty sub-slice");')
    if nmax >= 3:
        L.append('    kani::cover!(fl.inner_slice, "sub-slice strictly inside the sequence");')
    L.append("}")
    return "\n".join(L)


def tas_only(be, ns, thorough):
    """try_as_slice alone (small harness: cheap counterexample replay)"""
    T, setup, ref = CONT[be]
    L = []
    if thorough:
        L.append('#[cfg(feature = "thorough")]')
    L += ["#[kani::proof]", "#[kani::unwind(10)]", f"pub fn c07_tas_{be}_{''.join('n%d' % n for n in ns)}() {{",
          "    let mut fl = Fl::default();"]
    for n in ns:
        L += ["    {", f"        let xs: [{T}; {n}] = kani::any();", "        " + setup.replace("{N}", str(n)),
              f"        acc_tas::<{T}, _, {n}>({ref}, &xs, &mut fl);", "    }"]
    kinds = {tas(be, n) for n in ns}
    if "some" in kinds:
        L.append('    kani::cover!(fl.tas_some, "try_as_slice offered a slice");')
    if "none" in kinds:
        L.append('    kani::cover!(fl.tas_none, "try_as_slice declined");')
    L.append("}")
    return "\n".join(L)


# (b): name -> (generic fn, quick N, thorough N, unwind slack)
# name, generic fn, lengths in the quick tier, lengths in the thorough tier only (measured cost decides)
E2E = [
    ("tsvsum_vec_deq", "e2e_tsvsum_vec_deq", [2], [3, 4]),
    ("tsvsum_vec_ndrev", "e2e_tsvsum_vec_ndrev", [2], [3, 4]),
    ("tsvmin_vec_deq", "e2e_tsvmin_vec_deq", [3], [2]),            # N = 3 in the quick tier after seeded change C07-m2 (141 s)
    ("vshift_vec_deq", "e2e_vshift_vec_deq", [2], [3]),
    ("vshift_vec_nd", "e2e_vshift_vec_nd", [], [2]),           # 325 s measured at N = 2; N = 3 ran the SAT back end out of memory (12 GB)
    ("agg_arr_deq_ndrev", "e2e_agg", [2], [3, 4]),
    ("agg_nd2_arc_nd", "e2e_agg2", [], [2, 3]),
    ("out_tsvsum_vec", "e2e_out_tsvsum_vec", [], [2, 3, 4]),
    ("out_tsvsum_deq", "e2e_out_tsvsum_deq", [2], [3]),
    ("out_tsvsum_nd", "e2e_out_tsvsum_nd", [2], [3]),
    ("out_apply", "e2e_out_apply", [], [2, 3]),
]


def e2e(name, fn, n, thorough):
    L = []
    if thorough:
        L.append('#[cfg(feature = "thorough")]')
    L += ["#[kani::proof]", "#[kani::stub(std::fmt::format, crate::util::fmt_stub)]", f"#[kani::unwind({2 * n + 4})]",
          f"pub fn c07_e2e_{name}_n{n}() {{", f"    {fn}::<{n}>();", "}"]
    return "\n".join(L)


def main():
    out = ["// @generated by /verif/tools/gen_c07.py — do not edit by hand\n"]
    for be in QUICK:
        if be in HEAVY:
            # several ndarray / VecDeque instances in one harness cost CBMC more than the sum of the parts
            # (every pointer dereference case-splits over all heap objects): one harness per length
            for n in (0, 1, 2, 3):
                out.append(acc(be, [n], be == "ndv1" and n < 3))   # step-1 view: same impl macro as Array1
        else:
            out.append(acc(be, [0, 1, 2], False))
            out.append(acc(be, [3], False))
        out.append(acc(be, [4], True))
    for be, groups in THOROUGH_ONLY.items():
        for g in groups:
            out.append(acc(be, g, True))
    out.append(tas_only("ndrev", [0, 1], False))
    out.append(tas_only("ndrev", [2], False))
    out.append(tas_only("ndrev", [3], True))
    out.append(tas_only("ndrev", [4], True))
    for name, fn, q, t in E2E:
        for n in q:
            out.append(e2e(name, fn, n, False))
        for n in t:
            out.append(e2e(name, fn, n, True))
    open(OUT, "w").write("\n\n".join(out) + "\n")
    print("wrote", OUT, len(out) - 1, "harnesses")


main()
