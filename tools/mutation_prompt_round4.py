import sys, json, os
pid=sys.argv[1]
prop=open(f"/tmp/prop_{pid}.txt").read()
prev=[]
for k in ("m1","m2","m3","m4","m5","m6"):
    p=f"/verif/seeded/{pid}-{k}/meta.json"
    if os.path.exists(p):
        d=json.load(open(p)); prev.append(d.get("what",""))
prevtxt="\n".join(f"  ({i+1}) {w}" for i,w in enumerate(prev))
W=f"/tmp/mut4_{pid}"
print(f"""You are testing how well a verification framework detects realistic bugs. You work ONLY inside the scratch git worktree {W} (a checkout of the Rust workspace "tevec": rolling-window, mapping and aggregation statistics over Vec / VecDeque / ndarray backends; crates tea-core, tea-dtype, tea-time, tea-rolling, tea-map, tea-agg, tevec). Do NOT read or write anything under /verif or /repo (pretend they do not exist), do not touch any other directory under /tmp, and do not use the network (it is sealed; cargo must be run with --offline). NEVER use `git stash` (the stash is shared between worktrees): to revert a change use `git diff > /tmp/mut4_{pid}/_out/tmp.diff && git checkout -- .`, to re-apply it `git apply /tmp/mut4_{pid}/_out/tmp.diff`.

The following semantic property is supposed to hold for the code base:

---
{prop}---

Your task: produce ONE source change (call it m7) to the code in {W} such that it
 (a) BREAKS this property (for some input / configuration the statement becomes false),
 (b) still compiles, and the existing test suite still passes: `cd {W} && CARGO_TARGET_DIR={W}/target cargo test --workspace --offline` must be green with the change applied (run it and confirm; the suite has about 65 tests and takes seconds after the first build),
 (c) is REALISTIC — the kind of slip a maintainer could make in a refactoring or optimisation (an off-by-one in an index or bound, a wrong comparison operator, a forgotten branch or guard, a wrong constant in one formula, swapped operands, a stale cached value, a fast path that disagrees with the general path on a corner, a missed update of one of several accumulators, a wrong unit or sign in a conversion ...), NOT a deliberate sabotage like `if x == 12345`,
 (d) needs SOMETHING SPECIFIC to manifest — a particular shape of input, a specific parameter relation (e.g. window larger than the series, min_periods at a boundary, a null at a particular place, a tie, a negative value, a value before 1970, a specific backend or output path, a multi-step history such as an element expiring from the window while another condition holds, or two code sites that each look fine alone) — so that ordinary use and the existing tests do NOT expose it at once. Prefer changes whose effect only shows for rare inputs over ones that change every result.
 It must be DIFFERENT from these changes that somebody else already made (do not repeat them or trivial variants of them; prefer other functions, other clauses of the property):
{prevtxt}

Deliver, in {W}/_out/m7/:
 * `patch.diff` — `git diff` of the change against the worktree's HEAD (only source files of the library; no test files, no new dependencies);
 * `demo.rs` — a small self-contained demonstration that FAILS with the change and PASSES without it: a `#[test] fn demo()` (plus helpers) that can be dropped into a file `tests/demo_seed.rs` of the `tevec` crate (i.e. {W}/tevec/tests/demo_seed.rs), using only the public API via `use tevec::prelude::*;` (check that the functions you need are exported there; tea_core / tea_rolling etc. items are re-exported through tevec::prelude or tevec::core / tevec::dtype). It is run with `cargo test -p tevec --offline --features ndarray,vecdeque --test demo_seed`. The demo must compare against an independent from-scratch computation or a hand-computed expected value, with a tolerance for floats;
 * `meta.json` — {{"property": "{pid}", "files": [...changed files...], "what": "<one sentence: what the change does>", "needs": "<what specific input/parameters/history is needed for it to manifest>", "commands": ["<the exact commands you ran to confirm (b) and the demo failing/passing>"]}}.
You have about 12 minutes: pick a change quickly. Procedure: apply it, run the whole test suite (must pass), add the demo test file temporarily, run the demo (must FAIL), revert the library change while keeping the demo (must PASS), then restore; finally leave the worktree's tracked files UNCHANGED (`git checkout -- .` and remove the temporary test file) — the deliverables live only in _out/. Verify the patches apply cleanly to a clean tree with `git apply --check _out/m7/patch.diff`.

Final message: for m7 a short description (file, function, what, what it needs to manifest), and confirmation of the three runs (suite green with change, demo fails with change, demo passes without).""")
