#!/usr/bin/env python3
"""Generates /verif/kani/src/c02_gen.rs: one harness per (driver, backend, N).

Backends (logical sequence xs: [T; N]):
  vec, arr ([T;N]), slc ([T]), deq0 / deqr (VecDeque, contiguous / wrapped ring), nd (Array1),
  ndrev (ArrayView1 step -1), nd2 (ArrayView1 step 2), arc (Arc<Vec>), dv (thin view: default bodies),
  opt (OptIter over Vec<Option<i32>>: T = Option<i32>)
Quick tier: N in QUICK_N; thorough adds THOROUGH_N (behind feature "thorough").
"""
import os
OUT = os.path.join(os.path.dirname(os.path.abspath(__file__)), "..", "kani", "src", "c02_gen.rs")

BACKENDS = {
    # name: (T, setup statements using xs/ys -> v / v2, call-prefix for single-series, slice support)
    "vec":   ("i32", "let v: Vec<i32> = {s}.to_vec();", "&v"),
    "arr":   ("i32", "let v: [i32; {N}] = {s};", "&v"),
    "slc":   ("i32", "let v: &[i32] = &{s}[..];", "v"),
    "deq0":  ("i32", "let v = deque_rot(&{s}[..], 0);", "&v"),
    "deqr":  ("i32", "let v = deque_rot(&{s}[..], 1);", "&v"),
    "nd":    ("i32", "let v = nd_owned(&{s}[..]);", "&v"),
    "ndrev": ("i32", "let st{k} = nd_rev_storage(&{s}[..]); let v = st{k}.slice(s![..;-1]);", "&v"),
    "nd2":   ("i32", "let st{k} = nd_step_storage(&{s}[..], 2); let v = st{k}.slice(s![..;2]);", "&v"),
    "arc":   ("i32", "let v = Arc::new({s}.to_vec());", "&v"),
    "dv":    ("i32", "let v = DefView(&{s}[..]);", "&v"),
    "opt":   ("Option<i32>", "let base{k}: Vec<Option<i32>> = {s}.to_vec(); let v = base{k}.opt();", "&v"),
}
LEAKED = {
    "ndrev": "let st{k}: &'static Array1<i32> = Box::leak(Box::new(nd_rev_storage(&{s}[..]))); let v = st{k}.slice(s![..;-1]);",
    "nd2": "let st{k}: &'static Array1<i32> = Box::leak(Box::new(nd_step_storage(&{s}[..], 2))); let v = st{k}.slice(s![..;2]);",
    "opt": "let base{k}: &'static Vec<Option<i32>> = Box::leak(Box::new({s}.to_vec())); let v = base{k}.opt();",
    "dv": "let st{k}: &'static [i32] = Box::leak({s}.to_vec().into_boxed_slice()); let v = DefView(st{k});",
}
HEAVY = ("deq0", "deqr", "nd", "ndrev", "nd2")   # slicing these is expensive for CBMC
ALL_N = [1, 2, 3, 4, 5]
DRIVERS = ["apply", "idx", "apply2", "idx2", "custom_ret", "custom_to", "custom_iter", "custom2_ret", "custom2_to"]


def quick_n(drv, be):
    return 2 if (drv.startswith("custom") and be in HEAVY) else 3


def harness(drv, be, n, thorough):
    T, setup, ref = BACKENDS[be]
    if drv.startswith("custom2") and be in LEAKED:
        # rolling2_custom over a *borrowing* view only type-checks for 'static storage (signature
        # quirk of the library), so these three backends view leaked storage here.
        setup = LEAKED[be]
    two = drv in ("apply2", "idx2", "custom2_ret", "custom2_to")
    lines = []
    if thorough:
        lines.append('#[cfg(feature = "thorough")]')
    lines.append("#[kani::proof]")
    lines.append("#[kani::stub(std::fmt::format, crate::util::fmt_stub)]")
    lines.append(f"#[kani::unwind({n + 4})]")
    lines.append(f"pub fn c02_{drv}_{be}_n{n}() {{")
    lines.append(f"    let mut r = Rec::<{T}, {n}>::new();")
    lines.append("    let (xs, ys) = (r.x, r.y);")
    lines.append("    " + setup.format(s="xs", N=n, k=1))
    r2 = ref.replace("v", "v2")
    if two:
        if be == "slc":   # the library requires a Sized second series: pair the unsized slice with a Vec
            lines.append("    let v2: Vec<i32> = ys.to_vec();")
            r2 = "&v2"
        else:
            lines.append("    " + setup.format(s="ys", N=n, k=2).replace("let v ", "let v2 ").replace("let v:", "let v2:"))
    if drv == "apply":
        lines.append(f"    drv_apply({ref}, &mut r);")
    elif drv == "idx":
        lines.append(f"    drv_apply_idx({ref}, &mut r);")
    elif drv == "apply2":
        lines.append(f"    drv_apply2({ref}, {r2}, &mut r);")
    elif drv == "idx2":
        lines.append(f"    drv_apply2_idx({ref}, {r2}, &mut r);")
    elif drv.startswith("custom2"):
        lines.append(f"    drv_{drv}!(v, {r2}, r, {n});")
    elif drv.startswith("custom"):
        lines.append(f"    drv_{drv}!(v, r, {n});")
    # vacuity witnesses that exist for this N
    if drv.startswith("custom"):
        if n >= 2:
            lines.append('    kani::cover!(r.saw_full, "a full window past warm-up was delivered");')
    else:
        if n >= 1:
            lines.append('    kani::cover!(r.saw_steady, "steady state (something removed) reached");')
        if n >= 2:
            lines.append('    kani::cover!(r.saw_warm, "warm-up position (nothing removed) reached");')
    lines.append("}")
    return "\n".join(lines)


def empty_harness(be):
    """All drivers on an empty series in one harness: no callback, empty output, no panic."""
    T, setup, ref = BACKENDS[be]
    lines = ["#[kani::proof]", "#[kani::stub(std::fmt::format, crate::util::fmt_stub)]", "#[kani::unwind(4)]", f"pub fn c02_empty_{be}() {{",
             f"    let mut r = Rec::<{T}, 0>::new();", "    let (xs, ys) = (r.x, r.y);"]
    st = LEAKED.get(be, setup)
    lines.append("    " + st.format(s="xs", N=0, k=1))
    if be == "slc":
        lines.append("    let v2: Vec<i32> = ys.to_vec();")
        r2 = "&v2"
    else:
        lines.append("    " + st.format(s="ys", N=0, k=2).replace("let v ", "let v2 ").replace("let v:", "let v2:"))
        r2 = ref.replace("v", "v2")
    lines += [f"    drv_apply({ref}, &mut r);", f"    drv_apply_idx({ref}, &mut r);",
              f"    drv_apply2({ref}, {r2}, &mut r);", f"    drv_apply2_idx({ref}, {r2}, &mut r);",
              "    drv_custom_ret!(v, r, 0);", "    drv_custom_to!(v, r, 0);", "    drv_custom_iter!(v, r, 0);",
              f"    drv_custom2_ret!(v, {r2}, r, 0);", f"    drv_custom2_to!(v, {r2}, r, 0);",
              '    kani::cover!(r.w > 1, "window longer than the empty series");', "}"]
    return "\n".join(lines)


def main():
    out = ["// @generated by /verif/tools/gen_c02.py — do not edit by hand\n"]
    for be in BACKENDS:
        out.append(empty_harness(be))
        for drv in DRIVERS:
            for n in ALL_N:
                out.append(harness(drv, be, n, n != quick_n(drv, be)))
    open(OUT, "w").write("\n\n".join(out) + "\n")
    print("wrote", OUT, len(out) - 1, "harnesses")


main()
