#!/usr/bin/env python3
"""Generates /verif/kani/src/c11_gen.rs: explicit harnesses for the C11 families of c11.rs.

A harness is (family, element class, iterator source, block of lengths). Blocks: quick tier runs
N in 0..=4 (several lengths share a harness where that is cheap), thorough adds N = 5.
"""
import os
OUT = os.path.join(os.path.dirname(os.path.abspath(__file__)), "..", "kani", "src", "c11_gen.rs")

HARNESSES = []


def harness(name, ns, body_fn, covers, thorough=False, decl="", solver=None, extra_unwind=0):
    """body_fn(n) -> list of statements for length n; covers: [(expr, text, min_n)]"""
    lines = []
    if thorough:
        lines.append('#[cfg(feature = "thorough")]')
    lines.append("#[kani::proof]")
    lines.append(f"#[kani::unwind({max(ns) + 3 + extra_unwind})]")
    if solver:
        lines.append(f"#[kani::solver({solver})]")
    lines.append(f"pub fn c11_{name}() {{")
    if decl:
        lines.append("    " + decl)
    for n in ns:
        lines.append("    {")
        for st in body_fn(n):
            lines.append("        " + st)
        lines.append("    }")
    for expr, text, min_n in covers:
        if max(ns) >= min_n:
            lines.append(f'    kani::cover!({expr}, "{text}");')
    lines.append("}")
    HARNESSES.append("\n".join(lines))


def blocks(prefix, mk_body, covers, quick_blocks, thorough_blocks, **kw):
    for ns in quick_blocks:
        harness(f"{prefix}_{tag(ns)}", ns, mk_body, covers, **kw)
    for ns in thorough_blocks:
        harness(f"{prefix}_{tag(ns)}", ns, mk_body, covers, thorough=True, **kw)


def tag(ns):
    return f"n{ns[0]}" if len(ns) == 1 else f"n{ns[0]}to{ns[-1]}"



# ---- tier assignment ---------------------------------------------------------------------------
# Blocks of lengths: "s" = N in {0,1,2} in one harness, "3", "4", "5" = that length alone. Measured: CBMC
# time grows faster than linearly with the size of a harness (all assertions are decided on one
# formula), so one length per harness beyond N = 2. QUICK lists the blocks of the quick tier; every
# other block of ALL is thorough.
BLOCK = {"0": [0], "1": [1], "2": [2], "z": [0, 1], "s": [0, 1, 2], "b": [0, 1, 2, 3], "3": [3], "4": [4], "5": [5], "p": [2, 3]}
CALIBRATE = os.environ.get("C11_CALIBRATE") == "1"
# quick-tier blocks per harness family (default "3"); measured costs (4 jobs, loaded machine) in the comments
QUICK = {
    # null-aware comparisons: N = 3 own/opt 33-80 s, N = 4 tit 27-50 s, N <= 2 tit 2-29 s each (merged: 170 s)
    "cmp_opti32_own": "3", "cmp_opti32_tit": "0 1 2 4", "cmp_opti32_opt": "3",
    "cmp_f64_own": "", "cmp_f64_tit": "4", "cmp_f64_opt": "3", "cmp_i32_opt": "",
    # null-aware sums: 6-27 s
    "sum_opti32_own": "3", "sum_opti32_tit": "s 4", "sum_opti32_opt": "3", "sum_opti64_tit": "3",
    # null-unaware
    "plain_cmp_i32_own": "3", "plain_cmp_i32_tit": "z 2 4", "plain_cmp_i64_tit": "",
    "plain_sum_i32_own": "3", "plain_sum_i32_tit": "s 4", "plain_sum_i64_tit": "2", "plain_f64_tit": "s 3",
    "plain_nan": "2",
    "bool_plain": "b", "bool_opt": "b",
    "masked_opti32_tit_bool": "3", "masked_opti32_tit_optbool": "z 2 4", "masked_opti32_own_bool": "3",
    "masked_opti32_opt_optbool": "", "masked_i32_tit_bool": "3",
    "perm_opti32_sum": "3", "perm_opti32_any": "p", "perm_f64_small": "p", "perm_plain_sum": "p", "perm_plain_any": "p",
    "perm_bool": "p",
    # fold protocols: every element type with the owned vector at N = 3 and the borrowed iterator at N = 4, the option
    # view for f64, i32 and Option<i32>, small lengths for Option<i32> (0, 1) and f64 (2)
    "fold_protocol_opti32_tit": "z 4", "fold_protocol_f64_tit": "2 4", "fold_protocol_i32_tit": "4", "fold_protocol_optf64_tit": "4",
    "fold_protocol_optf64_opt": "",
}


class Tiers(dict):
    def __missing__(self, name):
        q = QUICK.get(name, "3").split()
        if name.startswith("perm_"):
            allb = ["2", "3", "4", "5"] if "3" in q else ["p", "4", "5"]
        elif "b" in q:
            allb = ["b", "4", "5"]
        elif "z" in q or (name.startswith("fold_") and "2" in q):
            allb = ["z", "2", "3", "4", "5"]
        elif any(b in q for b in "012") or name == "plain_nan":
            allb = ["0", "1", "2", "3", "4", "5"]
        else:
            allb = ["s", "3", "4", "5"]
        if CALIBRATE:
            q = [b for b in allb if b != "5"]
        return {"quick_blocks": [BLOCK[b] for b in allb if b in q], "thorough_blocks": [BLOCK[b] for b in allb if b not in q]}


TIERS = Tiers()

FL = "let mut fl = Fl::default();"
CMP_COVERS = [("fl.mixed", "a null next to a valid element", 2), ("fl.tie", "the extremum occurs twice", 2),
              ("fl.all_null", "no valid element in a non-empty series", 1), ("fl.null_first", "null first, valid element behind it", 2)]
PLAIN_COVERS = [("fl.tie", "the extremum occurs twice", 2)]

# ---- null-aware comparison family ------------------------------------------------------------
# (tag, element type, alphabet, nullable, source)
CMP = [
    ("opti32_own", "Option<i32>", "Any", True, "own"),
    ("opti32_tit", "Option<i32>", "Any", True, "tit"),
    ("opti32_opt", "Option<i32>", "Any", True, "opt"),
    ("f64_own", "f64", "Small", True, "own"),
    ("f64_tit", "f64", "Small", True, "tit"),
    ("f64_opt", "f64", "Small", True, "opt"),
    ("i32_opt", "i32", "Any", False, "opt"),
]


def item_type(E, src):
    if src != "opt":
        return E
    inner = {"Option<i32>": "i32", "Option<i64>": "i64", "f64": "f64", "i32": "i32", "Option<f64>": "f64"}[E]
    return f"Option<{inner}>"


def cmp_body(E, alpha, nullable, src):
    def body(n):
        st = [f"let k = keys::<{n}>(Alpha::{alpha}, {str(nullable).lower()});"]
        J = item_type(E, src)
        if src == "own":
            st += [f"fam_valid_cmp::<{E}, _, {n}>(&k, || to_vec::<{E}, {n}>(&k), &mut fl);",
                   f"fam_valid_last::<{E}, _, {n}>(&k, || to_vec::<{E}, {n}>(&k));"]
        elif src == "tit":
            st += [f"let v: Vec<{E}> = to_vec(&k);",
                   f"fam_valid_cmp::<{E}, _, {n}>(&k, || v.titer(), &mut fl);",
                   f"fam_valid_last::<{E}, _, {n}>(&k, || v.titer());"]
        else:
            st += [f"let v: Vec<{E}> = to_vec(&k);", "let o = v.opt();", "let r = &o;",
                   f"fam_valid_cmp::<{J}, _, {n}>(&k, move || r, &mut fl);",
                   f"fam_valid_last::<{J}, _, {n}>(&k, || o.titer());"]
        return st
    return body


for t, E, alpha, nullable, src in CMP:
    cov = CMP_COVERS if nullable else PLAIN_COVERS
    blocks(f"cmp_{t}", cmp_body(E, alpha, nullable, src), cov, **TIERS[f"cmp_{t}"], decl=FL)

# ---- null-aware sums / means -------------------------------------------------------------------
SUM = [
    ("opti32_own", "Option<i32>", "Sum", True, "own"),
    ("opti32_tit", "Option<i32>", "Sum", True, "tit"),
    ("opti32_opt", "Option<i32>", "Sum", True, "opt"),
    ("opti64_tit", "Option<i64>", "Any", True, "tit"),
]


def sum_body(E, alpha, nullable, src):
    def body(n):
        st = [f"let k = keys::<{n}>(Alpha::{alpha}, {str(nullable).lower()});"]
        J = item_type(E, src)
        if src == "own":
            st += [f"fam_valid_sum::<{E}, _, {n}>(&k, || to_vec::<{E}, {n}>(&k), &mut fl);"]
        elif src == "tit":
            st += [f"let v: Vec<{E}> = to_vec(&k);", f"fam_valid_sum::<{E}, _, {n}>(&k, || v.titer(), &mut fl);"]
        else:
            st += [f"let v: Vec<{E}> = to_vec(&k);", "let o = v.opt();", "let r = &o;",
                   f"fam_valid_sum::<{J}, _, {n}>(&k, move || r, &mut fl);"]
        return st
    return body


SUM_COVERS = [("fl.mixed", "a null next to a valid element", 2), ("fl.all_null", "no valid element in a non-empty series", 1)]
for t, E, alpha, nullable, src in SUM:
    blocks(f"sum_{t}", sum_body(E, alpha, nullable, src), SUM_COVERS, **TIERS[f"sum_{t}"], decl=FL)

# ---- null-unaware family on null-free integers ----------------------------------------------
# comparisons over the full i32 range; sums over |x| <= 1000 (i32) / the full i32 range (i64)
PLAIN = [("cmp_i32_own", "cmp", "i32", "Any", "own"), ("cmp_i32_tit", "cmp", "i32", "Any", "tit"),
         ("sum_i32_own", "sum", "i32", "Sum", "own"), ("sum_i32_tit", "sum", "i32", "Sum", "tit"),
         ("sum_i64_tit", "sum", "i64", "Any", "tit"), ("cmp_i64_tit", "cmp", "i64", "Any", "tit")]


def plain_body(part, T, alpha, src):
    tail = ", &mut fl" if part == "cmp" else ""

    def body(n):
        st = [f"let k = keys::<{n}>(Alpha::{alpha}, false);"]
        if src == "own":
            st.append(f"fam_plain_{part}::<{T}, _, {n}>(&k, || to_vec::<{T}, {n}>(&k){tail});")
        else:
            st.append(f"let v: Vec<{T}> = to_vec(&k);")
            st.append(f"fam_plain_{part}::<{T}, _, {n}>(&k, || v.titer(){tail});")
        return st
    return body


for t, part, T, alpha, src in PLAIN:
    blocks(f"plain_{t}", plain_body(part, T, alpha, src), PLAIN_COVERS if part == "cmp" else [], **TIERS[f"plain_{t}"], decl=FL)


def plain_f64_body(n):
    return [f"let k = keys::<{n}>(Alpha::Small, false);", "let v: Vec<f64> = to_vec(&k);",
            f"fam_plain_cmp_f64::<_, {n}>(&k, || v.titer(), &mut fl);"]


blocks("plain_f64_tit", plain_f64_body, PLAIN_COVERS, **TIERS["plain_f64_tit"], decl=FL)


for w, fname in enumerate(["min", "max", "argmin", "argmax"]):
    blocks(f"plain_nan_{fname}", lambda n, w=w: [f"let k = keys::<{n}>(Alpha::Small, true);", f"plain_extrema_nan::<{n}>(&k, {w}, &mut fl);"],
           [("fl.null_first", "NaN first, a number behind it", 2), ("fl.mixed", "NaN next to a number", 2)],
           **TIERS["plain_nan"], decl=FL)

# ---- booleans --------------------------------------------------------------------------------
BCOV = [("fl.any_true", "some element true", 1), ("fl.all_true", "all valid elements true", 1)]
blocks("bool_plain", lambda n: [f"fam_bool_plain::<{n}>(&mut fl);"], BCOV, **TIERS["bool_plain"], decl="let mut fl = BFl::default();")
blocks("bool_opt", lambda n: [f"fam_bool_opt::<{n}>(&mut fl);"], BCOV + [("fl.mixed_null", "a null next to a valid bool", 2)],
       **TIERS["bool_opt"], decl="let mut fl = BFl::default();")

# ---- masked sum / mean -----------------------------------------------------------------------
MASKED = [
    ("opti32_tit_bool", "Option<i32>", True, "tit", False),
    ("opti32_tit_optbool", "Option<i32>", True, "tit", True),
    ("opti32_own_bool", "Option<i32>", True, "own", False),
    ("opti32_opt_optbool", "Option<i32>", True, "opt", True),
    ("i32_tit_bool", "i32", False, "tit", False),
]


def masked_body(E, nullable, src, optmask):
    om = str(optmask).lower()

    def body(n):
        st = [f"let k = keys::<{n}>(Alpha::Sum, {str(nullable).lower()});"]
        J = item_type(E, src)
        if src == "own":
            st += [f"fam_masked::<{E}, _, {n}>(&k, || to_vec::<{E}, {n}>(&k), {om}, &mut fl);"]
        elif src == "tit":
            st += [f"let v: Vec<{E}> = to_vec(&k);", f"fam_masked::<{E}, _, {n}>(&k, || v.titer(), {om}, &mut fl);"]
        else:
            st += [f"let v: Vec<{E}> = to_vec(&k);", "let o = v.opt();", "let r = &o;",
                   f"fam_masked::<{J}, _, {n}>(&k, move || r, {om}, &mut fl);"]
        return st
    return body


for t, E, nullable, src, optmask in MASKED:
    cov = [("fl.excluded", "a valid element excluded by the mask", 1), ("fl.short", "something selected but fewer than min_periods", 1),
           ("fl.value", "a non-null masked mean", 1)]
    if nullable:
        cov.append(("fl.null_selected", "a null element selected by the mask", 1))
    if optmask:
        cov.append(("fl.null_mask", "a null mask entry", 1))
    blocks(f"masked_{t}", masked_body(E, nullable, src, optmask), cov, **TIERS[f"masked_{t}"], decl="let mut fl = MFl::default();")

# ---- permutation invariance -------------------------------------------------------------------
PERM = [
    ("opti32_sum", "perm_valid::<Option<i32>, {n}>(Alpha::Sum, true)"),
    ("opti32_any", "perm_valid::<Option<i32>, {n}>(Alpha::Any, false)"),
    ("f64_small", "perm_valid::<f64, {n}>(Alpha::Small, false)"),
    ("plain_sum", "perm_plain::<{n}>(true)"),
    ("plain_any", "perm_plain::<{n}>(false)"),
    ("bool", "perm_bool::<{n}>()"),
]
for t, call in PERM:
    blocks(f"perm_{t}", lambda n, call=call: ["moved |= " + call.format(n=n) + ";"],
           [("moved", "the transposition exchanges two different elements", 2)], **TIERS[f"perm_{t}"], decl="let mut moved = false;")

# ---- fold protocols ------------------------------------------------------------------------------
FOLD_T = [("opti32", "Option<i32>"), ("f64", "f64"), ("i32", "i32"), ("optf64", "Option<f64>")]


def fold_body(J, src):
    def body(n):
        st = [f"let x = any_items::<{J}, {n}>();", f"let y = any_items::<{J}, {n}>();"]
        if src == "own":
            st += [f"let n1 = fold_protocol::<{J}, _, {n}>(&x, || x.to_vec());",
                   f"let n2 = fold2_protocol::<{J}, _, _, {n}>(&x, &y, || x.to_vec(), || y.to_vec());"]
        elif src == "tit":
            st += [f"let (v, w): (Vec<{J}>, Vec<{J}>) = (x.to_vec(), y.to_vec());",
                   f"let n1 = fold_protocol::<{J}, _, {n}>(&x, || v.titer());",
                   f"let n2 = fold2_protocol::<{J}, _, _, {n}>(&x, &y, || v.titer(), || w.titer());"]
        else:
            K = item_type(J, "opt")
            st += [f"let (v, w): (Vec<{J}>, Vec<{J}>) = (x.to_vec(), y.to_vec());",
                   "let (ov, ow) = (v.opt(), w.opt());", "let (rv, rw) = (&ov, &ow);",
                   "let (ox, oy) = (opt_items(&x), opt_items(&y));",
                   f"let n1 = fold_protocol::<{K}, _, {n}>(&ox, move || rv);",
                   f"let n2 = fold2_protocol::<{K}, _, _, {n}>(&ox, &oy, move || rv, move || rw);"]
        st += [f"some |= n1 > 0 && n2 > 0;", f"skipped |= n1 < {n} && n2 < n1;"]
        return st
    return body


for t, J in FOLD_T:
    for src in ("own", "tit", "opt"):
        cov = [("some", "f was called in the one- and the two-series fold", 1)]
        if J != "i32":
            cov.append(("skipped", "nulls skipped; a pair dropped because only the second item is null", 2))
        blocks(f"fold_protocol_{t}_{src}", fold_body(J, src), cov, **TIERS[f"fold_protocol_{t}_{src}"],
               decl="let (mut some, mut skipped) = (false, false);")


def main():
    with open(OUT, "w") as f:
        f.write("// @generated by /verif/tools/gen_c11.py — do not edit by hand\n\n" + "\n\n".join(HARNESSES) + "\n")
    q = sum(1 for h in HARNESSES if 'feature = "thorough"' not in h)
    print("wrote", OUT, len(HARNESSES), "harnesses,", q, "quick")


main()
