//! Native replay / translator-validation helper: runs the *real* tevec functions (release or dev
//! build of the current /repo tree) on concrete inputs given on stdin and prints the outputs.
//!
//! One request per line:  <fn> <window> <min_periods|-> <x0,x1,..|-> [<y0,y1,..>]
//! values: decimal floats or `nan`. Reply: one line of space-separated floats (`nan` for null),
//! or `PANIC <message>`.
use std::io::{self, BufRead, Write};

use tevec::prelude::*;
use tea_agg::*;

fn parse_series(s: &str) -> Vec<f64> {
    if s == "-" || s.is_empty() {
        return vec![];
    }
    s.split(',').map(|t| if t == "nan" { f64::NAN } else { t.parse::<f64>().unwrap() }).collect()
}

fn fmt(v: &[f64]) -> String {
    v.iter().map(|x| if x.is_nan() { "nan".to_string() } else { format!("{:e}", x) }).collect::<Vec<_>>().join(" ")
}

fn dispatch(name: &str, w: usize, mp: Option<usize>, x: &Vec<f64>, y: &Vec<f64>) -> Vec<f64> {
    macro_rules! one { ($m:ident) => {{ let o: Vec<f64> = x.$m(w, mp); o }}; }
    macro_rules! two { ($m:ident) => {{ let o: Vec<f64> = x.$m(y, w, mp); o }}; }
    let mpu = mp.unwrap_or(1);
    match name {
        "ts_vsum" => one!(ts_vsum), "ts_vmean" => one!(ts_vmean), "ts_vewm" => one!(ts_vewm),
        "ts_vwma" => one!(ts_vwma), "ts_vstd" => one!(ts_vstd), "ts_vvar" => one!(ts_vvar),
        "ts_vskew" => one!(ts_vskew), "ts_vkurt" => one!(ts_vkurt),
        "ts_sum" => one!(ts_sum), "ts_mean" => one!(ts_mean), "ts_ewm" => one!(ts_ewm),
        "ts_wma" => one!(ts_wma), "ts_std" => one!(ts_std), "ts_var" => one!(ts_var),
        "ts_skew" => one!(ts_skew), "ts_kurt" => one!(ts_kurt),
        "ts_vzscore" => one!(ts_vzscore), "ts_vminmaxnorm" => one!(ts_vminmaxnorm),
        "ts_vreg" => one!(ts_vreg), "ts_vtsf" => one!(ts_vtsf), "ts_vreg_slope" => one!(ts_vreg_slope),
        "ts_vreg_intercept" => one!(ts_vreg_intercept), "ts_vreg_resid_mean" => one!(ts_vreg_resid_mean),
        "ts_vcov" => two!(ts_vcov), "ts_vcorr" => two!(ts_vcorr),
        "ts_vregx_alpha" => two!(ts_vregx_alpha), "ts_vregx_beta" => two!(ts_vregx_beta),
        "ts_vregx_resid_mean" => two!(ts_vregx_resid_mean), "ts_vregx_resid_std" => two!(ts_vregx_resid_std),
        "ts_vregx_resid_skew" => two!(ts_vregx_resid_skew),
        "ts_vregx_all_alpha" | "ts_vregx_all_beta" | "ts_vregx_all_sse" => {
            let o: Vec<(f64, f64, f64)> = x.ts_vregx_all(y, w, mp);
            o.iter().map(|t| match name { "ts_vregx_all_alpha" => t.0, "ts_vregx_all_beta" => t.1, _ => t.2 }).collect()
        },
        "ts_vmin" => one!(ts_vmin), "ts_vmax" => one!(ts_vmax), "ts_vargmin" => one!(ts_vargmin),
        "ts_vargmax" => one!(ts_vargmax),
        // aggregations (window ignored)
        "vsum" => vec![x.titer().vsum().unwrap_or(f64::NAN)],
        "vmean" => vec![x.titer().vmean()],
        "vmean_var_mean" => vec![x.titer().vmean_var(mpu).0],
        "vvar" => vec![x.titer().vvar(mpu)],
        "vstd" => vec![x.titer().vstd(mpu)],
        "vskew" => vec![x.titer().vskew(mpu)],
        "vkurt" => vec![x.titer().vkurt(mpu)],
        "vcov" => vec![x.titer().vcov(y.titer(), mpu)],
        "vcorr_pearson" => vec![x.titer().vcorr_pearson::<f64, _, _>(y.titer(), mpu)],
        _ => panic!("unknown function {name}"),
    }
}

fn main() {
    let stdin = io::stdin();
    let mut out = io::stdout();
    std::panic::set_hook(Box::new(|_| {}));
    for line in stdin.lock().lines() {
        let line = line.unwrap();
        let p: Vec<&str> = line.split_whitespace().collect();
        if p.len() >= 1 && p[0] == "td_parse" {
            // td_parse <hex bytes of the UTF-8 string>  ->  OK <months> <total ns> | ERR | PANIC <msg>
            let hex = if p.len() > 1 { p[1] } else { "" };
            let bytes: Vec<u8> = (0..hex.len() / 2).map(|i| u8::from_str_radix(&hex[2 * i..2 * i + 2], 16).unwrap()).collect();
            let txt = String::from_utf8(bytes).unwrap();
            let r = std::panic::catch_unwind(|| tevec::prelude::TimeDelta::parse(&txt));
            match r {
                Ok(Ok(td)) => writeln!(out, "OK {} {}", td.months, td.inner.num_nanoseconds().map(|v| v.to_string()).unwrap_or("overflow".into())).unwrap(),
                Ok(Err(_)) => writeln!(out, "ERR").unwrap(),
                Err(e) => {
                    let msg = e.downcast_ref::<String>().cloned().or_else(|| e.downcast_ref::<&str>().map(|s| s.to_string())).unwrap_or_default();
                    writeln!(out, "PANIC {}", msg.replace('\n', " ")).unwrap()
                },
            }
            out.flush().unwrap();
            continue;
        }
        if p.len() >= 4 && (p[0] == "dtfmt" || p[0] == "dtparse") {
            // dtfmt <s|ms|us|ns> <ts> <hex fmt | ->           ->  S <hex of strftime output> | PANIC <msg>
            // dtparse <s|ms|us|ns> <hex fmt | -> <hex string>   ->  R <ts> | ERR | PANIC <msg>
            use tevec::prelude::unit::*;
            let unhex = |h: &str| -> String {
                let b: Vec<u8> = (0..h.len() / 2).map(|i| u8::from_str_radix(&h[2 * i..2 * i + 2], 16).unwrap()).collect();
                String::from_utf8(b).unwrap()
            };
            let cmd = p[0].to_string();
            let u = p[1].to_string();
            let r = std::panic::catch_unwind(move || {
                macro_rules! run { ($U:ty) => {{
                    if cmd == "dtfmt" {
                        let ts: i64 = p[2].parse().unwrap();
                        let f = if p[3] == "-" { None } else { Some(unhex(p[3])) };
                        let txt = DateTime::<$U>::new(ts).strftime(f.as_deref());
                        format!("S {}", txt.bytes().map(|b| format!("{:02x}", b)).collect::<String>())
                    } else {
                        let f = if p[2] == "-" { None } else { Some(unhex(p[2])) };
                        let txt = if p.len() > 3 { unhex(p[3]) } else { String::new() };
                        match DateTime::<$U>::parse(&txt, f.as_deref()) { Ok(d) => format!("R {}", d.0), Err(_) => "ERR".to_string() }
                    }
                }} }
                match u.as_str() { "s" => run!(Second), "ms" => run!(Millisecond), "us" => run!(Microsecond), _ => run!(Nanosecond) }
            });
            match r {
                Ok(x) => writeln!(out, "{}", x).unwrap(),
                Err(e) => {
                    let msg = e.downcast_ref::<String>().cloned().or_else(|| e.downcast_ref::<&str>().map(|s| s.to_string())).unwrap_or_default();
                    writeln!(out, "PANIC {}", msg.replace('\n', " ")).unwrap()
                },
            }
            out.flush().unwrap();
            continue;
        }
        if p.len() >= 3 && p[0] == "dtget" {
            // dtget <s|ms|us|ns> <ts>  ->  G <year> <month> <day> <hour> <minute> <second> <ns of day from time()> <ts after as_cr -> into> | NONE | PANIC
            use tevec::prelude::unit::*;
            let u = p[1].to_string();
            let ts: i64 = p[2].parse().unwrap();
            let r = std::panic::catch_unwind(move || {
                macro_rules! run { ($U:ty) => {{
                    let d = DateTime::<$U>::new(ts);
                    match (d.year(), d.month(), d.day(), d.hour(), d.minute(), d.second(), d.time(), d.as_cr()) {
                        (Some(y), Some(mo), Some(dd), Some(h), Some(mi), Some(sec), Some(t), Some(cr)) => {
                            use chrono::Timelike;
                            let tod = t.num_seconds_from_midnight() as i64 * 1_000_000_000 + t.nanosecond() as i64;
                            let back: DateTime<$U> = cr.into();
                            format!("G {} {} {} {} {} {} {} {}", y, mo, dd, h, mi, sec, tod, back.0)
                        },
                        (None, None, None, None, None, None, None, None) => "NONE".to_string(),
                        _ => "MIXED".to_string(),
                    }
                }} }
                match u.as_str() { "s" => run!(Second), "ms" => run!(Millisecond), "us" => run!(Microsecond), _ => run!(Nanosecond) }
            });
            match r {
                Ok(x) => writeln!(out, "{}", x).unwrap(),
                Err(e) => {
                    let msg = e.downcast_ref::<String>().cloned().or_else(|| e.downcast_ref::<&str>().map(|s| s.to_string())).unwrap_or_default();
                    writeln!(out, "PANIC {}", msg.replace('\n', " ")).unwrap()
                },
            }
            out.flush().unwrap();
            continue;
        }
        if p.len() >= 3 && p[0] == "crcal" {
            // crcal <unix seconds> <ns of second>  ->  C <year> <month> <day> <hour> <minute> <second> <ns of day>   (chrono alone, no tevec code)
            use chrono::{Datelike, Timelike};
            let secs: i64 = p[1].parse().unwrap();
            let ns: u32 = p[2].parse().unwrap();
            match chrono::DateTime::from_timestamp(secs, ns) {
                Some(d) => writeln!(out, "C {} {} {} {} {} {} {}", d.year(), d.month(), d.day(), d.hour(), d.minute(), d.second(),
                                    d.time().num_seconds_from_midnight() as i64 * 1_000_000_000 + d.time().nanosecond() as i64).unwrap(),
                None => writeln!(out, "NONE").unwrap(),
            }
            out.flush().unwrap();
            continue;
        }
        if p.len() >= 5 && p[0] == "i32in" {
            // i32in <fn> <window> <min_periods|-> <i0,i1,..>   the 16 rolling moment kernels on a Vec<i32> input (f64 output)
            let name = p[1].to_string();
            let w: usize = p[2].parse().unwrap();
            let mp: Option<usize> = if p[3] == "-" { None } else { Some(p[3].parse().unwrap()) };
            let x: Vec<i32> = if p[4] == "-" { vec![] } else { p[4].split(',').map(|t| t.parse::<i32>().unwrap()).collect() };
            let r = std::panic::catch_unwind(|| {
                macro_rules! one { ($m:ident) => {{ let o: Vec<f64> = x.$m(w, mp); o }}; }
                match name.as_str() {
                    "ts_vsum" => one!(ts_vsum), "ts_vmean" => one!(ts_vmean), "ts_vewm" => one!(ts_vewm), "ts_vwma" => one!(ts_vwma),
                    "ts_vstd" => one!(ts_vstd), "ts_vvar" => one!(ts_vvar), "ts_vskew" => one!(ts_vskew), "ts_vkurt" => one!(ts_vkurt),
                    "ts_sum" => one!(ts_sum), "ts_mean" => one!(ts_mean), "ts_ewm" => one!(ts_ewm), "ts_wma" => one!(ts_wma),
                    "ts_std" => one!(ts_std), "ts_var" => one!(ts_var), "ts_skew" => one!(ts_skew), "ts_kurt" => one!(ts_kurt),
                    _ => panic!("unknown function {name}"),
                }
            });
            match r {
                Ok(v) => writeln!(out, "{}", fmt(&v)).unwrap(),
                Err(e) => {
                    let msg = e.downcast_ref::<String>().cloned().or_else(|| e.downcast_ref::<&str>().map(|s| s.to_string())).unwrap_or_default();
                    writeln!(out, "PANIC {}", msg.replace('\n', " ")).unwrap()
                },
            }
            out.flush().unwrap();
            continue;
        }
        if p.len() >= 4 && p[0] == "into_unit" {
            // into_unit <s|ms|us|ns> <s|ms|us|ns> <i64>  ->  R <i64> | PANIC <msg>
            use tevec::prelude::unit::*;
            let v: i64 = p[3].parse().unwrap();
            let (f, t) = (p[1].to_string(), p[2].to_string());
            let r = std::panic::catch_unwind(move || {
                macro_rules! from { ($U:ty) => { match t.as_str() {
                    "s" => DateTime::<$U>::new(v).into_unit::<Second>().0,
                    "ms" => DateTime::<$U>::new(v).into_unit::<Millisecond>().0,
                    "us" => DateTime::<$U>::new(v).into_unit::<Microsecond>().0,
                    _ => DateTime::<$U>::new(v).into_unit::<Nanosecond>().0,
                } } }
                match f.as_str() { "s" => from!(Second), "ms" => from!(Millisecond), "us" => from!(Microsecond), _ => from!(Nanosecond) }
            });
            match r {
                Ok(x) => writeln!(out, "R {}", x).unwrap(),
                Err(e) => {
                    let msg = e.downcast_ref::<String>().cloned().or_else(|| e.downcast_ref::<&str>().map(|s| s.to_string())).unwrap_or_default();
                    writeln!(out, "PANIC {}", msg.replace('\n', " ")).unwrap()
                },
            }
            out.flush().unwrap();
            continue;
        }
        if p.len() >= 5 && p[0] == "dtop" {
            // dtop <add|sub|addsub|subadd|trunc> <s|ms|us|ns> <ts> <months> <duration ns (i128)>  ->  R <i64>
            // dtop <diff|diffadd> <s|ms|us|ns> <a> <b>  ->  R <months> <ns>  |  R <i64>
            use tevec::prelude::unit::*;
            let (op, u) = (p[1].to_string(), p[2].to_string());
            let a: i64 = p[3].parse().unwrap();
            let q: Vec<String> = p[4..].iter().map(|s| s.to_string()).collect();
            let r = std::panic::catch_unwind(move || {
                let mk = |months: i32, ns: i128| -> TimeDelta {
                    let secs = ns.div_euclid(1_000_000_000) as i64;
                    let sub = ns.rem_euclid(1_000_000_000) as u32;
                    TimeDelta { months, inner: chrono::Duration::new(secs, sub).expect("duration out of chrono's range") }
                };
                macro_rules! run { ($U:ty) => {{
                    let t = DateTime::<$U>::new(a);
                    match op.as_str() {
                        "diff" => { let d = t - DateTime::<$U>::new(q[0].parse().unwrap());
                                    format!("{} {}", d.months, d.inner.num_seconds() as i128 * 1_000_000_000 + d.inner.subsec_nanos() as i128) },
                        "diffadd" => { let b = DateTime::<$U>::new(q[0].parse().unwrap()); format!("{}", (b + (t - b)).0) },
                        _ => {
                            let d = mk(q[0].parse().unwrap(), q[1].parse().unwrap());
                            let r = match op.as_str() { "add" => t + d, "sub" => t - d, "addsub" => (t + d) - d, "subadd" => (t - d) + d,
                                                        _ => t.duration_trunc(d) };
                            format!("{}", r.0)
                        },
                    }
                }} }
                match u.as_str() { "s" => run!(Second), "ms" => run!(Millisecond), "us" => run!(Microsecond), _ => run!(Nanosecond) }
            });
            match r {
                Ok(x) => writeln!(out, "R {}", x).unwrap(),
                Err(e) => {
                    let msg = e.downcast_ref::<String>().cloned().or_else(|| e.downcast_ref::<&str>().map(|s| s.to_string())).unwrap_or_default();
                    writeln!(out, "PANIC {}", msg.replace('\n', " ")).unwrap()
                },
            }
            out.flush().unwrap();
            continue;
        }
        if p.len() >= 3 && p[0] == "half_life" {
            // half_life <min_periods|-> <x0,x1,..>  ->  R <lag> | PANIC <msg>
            let mp: Option<usize> = if p[1] == "-" { None } else { Some(p[1].parse().unwrap()) };
            let x = parse_series(p[2]);
            let r = std::panic::catch_unwind(|| x.half_life(mp));
            match r {
                Ok(v) => writeln!(out, "R {}", v).unwrap(),
                Err(e) => {
                    let msg = e.downcast_ref::<String>().cloned().or_else(|| e.downcast_ref::<&str>().map(|s| s.to_string())).unwrap_or_default();
                    writeln!(out, "PANIC {}", msg.replace('\n', " ")).unwrap()
                },
            }
            out.flush().unwrap();
            continue;
        }
        if p.len() >= 4 && p[0] == "winsorize" {
            // winsorize <q|m|s> <param|-> <x0,x1,..>  ->  values | ERR | PANIC <msg>
            let method = match p[1] { "q" => WinsorizeMethod::Quantile, "m" => WinsorizeMethod::Median, _ => WinsorizeMethod::Sigma };
            let param: Option<f64> = if p[2] == "-" { None } else { Some(p[2].parse().unwrap()) };
            let x = parse_series(p[3]);
            let r = std::panic::catch_unwind(|| x.winsorize(method, param).map(|it| it.collect::<Vec<f64>>()));
            match r {
                Ok(Ok(v)) => writeln!(out, "{}", fmt(&v)).unwrap(),
                Ok(Err(_)) => writeln!(out, "ERR").unwrap(),
                Err(e) => {
                    let msg = e.downcast_ref::<String>().cloned().or_else(|| e.downcast_ref::<&str>().map(|s| s.to_string())).unwrap_or_default();
                    writeln!(out, "PANIC {}", msg.replace('\n', " ")).unwrap()
                },
            }
            out.flush().unwrap();
            continue;
        }
        if p.len() < 4 {
            continue;
        }
        let name = p[0].to_string();
        let w: usize = p[1].parse().unwrap();
        let mp: Option<usize> = if p[2] == "-" { None } else { Some(p[2].parse().unwrap()) };
        let x = parse_series(p[3]);
        let y = if p.len() > 4 { parse_series(p[4]) } else { vec![] };
        let r = std::panic::catch_unwind(|| dispatch(&name, w, mp, &x, &y));
        match r {
            Ok(v) => writeln!(out, "{}", fmt(&v)).unwrap(),
            Err(e) => {
                let msg = e.downcast_ref::<String>().cloned().or_else(|| e.downcast_ref::<&str>().map(|s| s.to_string())).unwrap_or_default();
                writeln!(out, "PANIC {}", msg.replace('\n', " ")).unwrap()
            },
        }
        out.flush().unwrap();
    }
}
