"""C13 — element-wise mapping operations follow their positional definitions. Engine K."""
import kani_engine

RULE = ("one Kani harness per (operation, element type, input length N); the expected output is computed in the harness by the "
        "positional definition written as plain loops over arrays, the operation's iterator is consumed by plain iteration and "
        "compared element by element, the element count must be exactly N; contents, null patterns, lags (full i32 range for "
        "vshift/vdiff/vpct_change, -N-3..=N+3 for shift), fill values, defaults, mask predicates and bounds are kani::any(); a "
        "harness is non-trivial when all its kani::cover! witnesses are SATISFIED")

MANIFEST = {
    "engine": "K",
    "technique": "bounded model checking (Kani/CBMC) of shift, vshift, vdiff, vpct_change, ffill/bfill(_mask), fill(_mask), vclip, "
                 "abs/vabs against their positional definitions written out in the harness",
    "design_ref": "DESIGN.md 3/C13",
    "level_text": "CBMC decides, for all element values / null patterns and all parameters in the stated ranges at each concrete "
                  "length N <= 4, that every output element of shift, vshift, vdiff, vpct_change, ffill, ffill_mask, bfill, "
                  "bfill_mask, fill, fill_mask, vclip (four bound modes incl. null bounds; idempotence and containment under "
                  "lower <= upper) and abs/vabs equals the positional definition and that exactly N elements are produced; "
                  "counterexamples are replayed natively",
    "level_note": "trusted: Kani's MIR->goto translation, CBMC, CaDiCaL. Bounds: N <= 3 (lagged operations, vclip) / 4 (fills, abs) "
                  "quick, <= 5 thorough; element types i32, Option<i32>, f64 built from small integers with symbolic NaN (float "
                  "values are compared, the one subtraction / division of vdiff / vpct_change is compared with the same IEEE "
                  "expression in the oracle); Vec input in the quick tier, VecDeque and ndarray for vdiff/vpct_change in the "
                  "thorough tier; abs(i32::MIN) excluded by assumption (undefined in the language, DESIGN 5.6); Polars outside",
}


def check(v, tier, opts):
    v.functions.update(["MapBasic::{shift, abs}", "MapValidBasic::{vshift, vabs, ffill, ffill_mask, bfill, bfill_mask, fill, "
                        "fill_mask, vclip}", "MapValidVec::{vdiff, vpct_change}"])
    v.bounds.append("N in 0..=3 (lagged operations, vclip) / 0..=4 (fills, abs) quick, up to 5 thorough; lag: full i32 range "
                    "(vshift, vdiff, vpct_change), -N-3..=N+3 (shift); i32 / Option<i32> elements unconstrained except "
                    "-100..=100 for the i32 difference and -3..=3 for the quotient; f64 elements are integers in -4..=4 or NaN")
    v.assumptions.append("abs/vabs: elements != i32::MIN; canonical nulls only (NaN for floats, None for options); the mask "
                         "predicates are equality with a symbolic element")
    v.outside.append("Polars backend; lengths above the bound; general f64 values (float arithmetic equivalence is not decided "
                     "by CBMC: values are small integers, comparisons only)")
    kani_engine.decide(v, "C13", tier, opts)
    return v.finish(RULE)

READY = True
