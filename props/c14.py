"""C14 — binning assigns the unique enclosing bin; run de-duplication keeps run ends. Engine K."""
import kani_engine

RULE = ("vcut: one Kani harness per (right, add_bounds, edge count E); the value(s) (Option<i32>: any i32 incl. MIN/MAX, or null) and "
        "the strictly ascending i32 edges are kani::any(), every label count 0..=E+1 is tried inside the harness. "
        "vsorted_unique(_idx): one harness per (operation, Keep, element type, length N); the input is a run-length encoding "
        "with a symbolic null block (head or tail), symbolic run breaks and strictly monotone symbolic run values "
        "(ascending or descending). A harness is non-trivial when its kani::cover! witnesses (value on an edge, null value, "
        "value outside, label mismatch, long run, several runs, descending, nulls next to values) are SATISFIED")

MANIFEST = {
    "engine": "K",
    "technique": "bounded model checking (Kani/CBMC, SAT) of MapValidBasic::vcut / vsorted_unique_idx / vsorted_unique against the "
                 "enclosing-interval and run-end definitions written out in the harness",
    "design_ref": "DESIGN.md 3/C14",
    "level_text": "CBMC decides, for every i32 value (incl. MIN, MAX, values on an edge) or null and every strictly ascending edge vector of "
                  "E <= 3 edges with 0..=E+1 labels, for the four (right, add_bounds) modes, that vcut returns the label of the unique "
                  "enclosing interval, the null label for null, Err (no panic, no label) outside all intervals, Err from vcut itself on a "
                  "label-count mismatch, and a label for every non-null value under open bounds; and for every sorted input of length "
                  "N <= 5 with runs of any length and a null block at the head or tail that vsorted_unique_idx(First/Last) yields exactly "
                  "the first/last index of each run in order, never an index of a null, and vsorted_unique one value per run",
    "level_note": "trusted: Kani's MIR->goto translation, CBMC, CaDiCaL; std::fmt::format stubbed; results are mem::forget-ed instead of "
                  "dropped (the drop glue of TError / boxed iterators is outside the claim; it is what made the naive harness cost 790 s). "
                  "Bounds: 1 value per vcut call (2 at E = 2) quick, 2 at E in 1..=3 thorough; E <= 3 (the statement's 0..5 edges / 0..6 labels beyond that are "
                  "outside the bound); N <= 5 quick, <= 6 thorough; f64 run values from -8..=8",
}


def check(v, tier, opts):
    v.functions.update(["tea_map::MapValidBasic::vcut (right x add_bounds)", "tea_map::MapValidBasic::vsorted_unique_idx (Keep::First, Keep::Last)",
                        "tea_map::MapValidBasic::vsorted_unique", "itertools tuple_windows / zip as compiled"])
    if tier == "quick":
        v.bounds.append("quick: vcut with 1 value, E in 0..=3 edges, label counts 0..=E+1, and with 2 consecutive values at E = 2 (state carried between values); vsorted_unique(_idx) N in {0,1,2,5} for Option<i32> "
                        "(unconstrained run values), N in {0,1,2} for f64 (run values -8..=8, NaN nulls)")
    else:
        v.bounds.append("thorough: quick plus vcut with 2 values (E in 1..=3), vsorted_unique(_idx) N in {3,4,6} (f64 also 5), leading-null Keep::Last at N in {3,5}")
    v.bounds.append("the extreme value excluded by the open-bounds harnesses (i32::MIN right-closed, i32::MAX left-closed) and Keep::Last "
                    "behind a leading null block have their own harnesses (c14_vcut_open_extreme_*, c14_unique_idx_last_leading_nulls_*)")
    v.outside.append("more than 3 edges / 4 labels; more than 2 values per call; non-ascending or null edges (vcut unwraps them); inputs whose "
                     "equal values are not adjacent; nulls in the middle of the input; element types other than Option<i32> / f64")
    v.assumptions.append("edges strictly ascending and non-null; canonical nulls only (NaN for f64, None for Option<i32>)")
    kani_engine.decide(v, "C14", tier, opts)
    return v.finish(RULE)

READY = True
