"""C11 — aggregations equal their textbook definitions over the non-null elements. Engine K part
(exact / integer-shaped aggregations, permutation invariance, fold protocols)."""
import kani_engine
from mir_engine import props_m

RULE = ("one Kani harness per (aggregation family, iterator source, length block); the null mask, all element values, the "
        "searched value, the bool mask and min_periods are kani::any(); the oracle is the textbook definition written as "
        "plain loops / first-order characterisations over the key array in the harness (minimum = attained lower bound, "
        "arg-minimum = first index attaining it, ...); fold protocols use a recording closure that walks the input with its own "
        "cursor; a harness is non-trivial when its kani::cover! witnesses (null next to valid, tie of the extremum, no valid "
        "element, mask excluding a valid element, result null by min_periods) are SATISFIED")

MANIFEST = {
    "engine": "K+M",
    "technique": "bounded model checking (Kani/CBMC, SAT) of the exact aggregations of AggBasic / AggValidBasic / AggValidExt and of "
                 "the null-skipping folds against definitions evaluated in the harness, per iterator source and length",
    "design_ref": "DESIGN.md 3/C11",
    "level_text": "CBMC decides, for every null mask and all element values at each concrete length N, that count_valid / count_none / "
                  "vcount_value / count_value, vfirst / vlast / first / last, any / all / vany / vall, vsum / sum, vmean / mean (integers: "
                  "one f64 division of the exact sum by the count), vmin / vmax / min / max, vargmin / vargmax / argmin / argmax (first "
                  "occurrence on ties), n_vsum_filter / n_sum_filter / vmean_filter (symbolic bool mask, min_periods 0..=N+1) equal their "
                  "definitions over the non-null elements and are null exactly when too few valid elements exist; that the symmetric ones "
                  "are invariant under a symbolic transposition of the input; and that vfold / vfold2 / vfold_n / vapply / vapply_n "
                  "call f on exactly the non-null items, in order, once each, threading the accumulator, with n = their number",
    "level_note": "trusted: Kani's MIR->goto translation, CBMC, CaDiCaL; bounds: N <= 4 quick, <= 5 thorough; sums on Option<i32> with "
                  "|x| <= 1000 and on Option<i64> over the full i32 range; float moment formulas are Engine M's part",
}


def check(v, tier, opts):
    v.functions.update([
        "tea_core::AggValidBasic::{count_valid,count_none,vcount_value,vfirst,vlast,vany,vall,vsum,vmean,vmin,vmax,vargmin,vargmax}",
        "tea_core::AggBasic::{count_value,first,last,any,all,n_sum,sum,mean,min,max,argmin,argmax}",
        "tea_agg::AggValidExt::{n_vsum_filter,n_sum_filter,vmean_filter}",
        "tea_core::IterBasic::{vfold,vfold2,vfold_n,vapply,vapply_n}",
        "tea_dtype::Number::{min_with,max_with}",
        "sources: owned Vec (into_iter), Vec::titer(), OptIter (&vec.opt() and vec.opt().titer())",
    ])
    if tier == "quick":
        v.bounds.append("quick: one length per harness (CBMC cost is super-linear in harness size); every (family, source) at N = 3 "
                        "(owned vector, option view) or N = 4 (borrowed iterator), the lengths 0, 1, 2 on the borrowed iterator of each "
                        "family; permutation harnesses N in {2, 3}; fold protocols: 4 element types x owned at N = 3, titer at N = 4, "
                        "option view at N = 3 (f64, i32, Option<i32>), N in {0, 1} / {2} for Option<i32> / f64")
    else:
        v.bounds.append("thorough: every (family, element class, source) at every N in 0..=5")
    v.bounds.append("elements Option<i32> / i32 unconstrained for counting, first/last, extrema and arg-extrema; f64 from -2..=2 with a "
                    "symbolic NaN mask; |x| <= 1000 for i32 sums, full i32 range for Option<i64> / i64 sums; min_periods 0..=N+1; bool "
                    "masks as Vec<bool> and Vec<Option<bool>>; fold-protocol items: unconstrained bit patterns (f64: every non-NaN value, "
                    "any NaN payload is the null)")
    v.outside.append("lengths above the bound; float sums and all moment formulas (Engine M); element types other than i32 / i64 / f64 / "
                     "bool and their Option forms; Some(NaN) (DESIGN 5.4)")
    v.assumptions.append("canonical nulls only (NaN for f64, None for Option<_>)")
    v.assumptions.append("null-unaware min / max / argmin / argmax on floats: checked on NaN-free series in the main harnesses; series "
                         "containing NaN are the isolated c11_plain_nan_* harnesses")
    kani_engine.decide(v, "C11", tier, opts)
    only = opts.get("only")
    if not only or only.startswith("v"):
        props_m.c11_m(v, tier, opts)     # Engine M part (moment formulas in exact real arithmetic)
    return v.finish(RULE + M_RULE)


M_RULE = ("; Engine M: vmean, vmean_var, vvar, vstd, vcov, vcorr_pearson executed from the MIR of tea-core per (length, min_periods, null "
          "mask(s)) with the fold protocol unrolled; z3 asked for real inputs where null flag or value differ from the textbook definition "
          "over the (pairwise-complete) valid elements; counterexamples replayed natively")
MANIFEST["technique"] += "; MIR->SMT symbolic execution of the one-pass moment formulas decided by z3 against textbook definitions"
MANIFEST["level_text"] += ("; z3 decides for all real inputs (length <= 5 quick / 6 thorough, min_periods 0..=len+1, null masks) that mean, sample "
                           "variance, standard deviation, covariance and Pearson correlation equal their definitions and are null exactly "
                           "below max(min_periods, 2) observations (1 for the mean) or at the variance floor (correlation)")
MANIFEST["level_note"] += ("; Engine M: fold protocol (c11_fold_protocol_* harnesses), exact real arithmetic, |x|<=100; aggregation forms of "
                           "vskew / vkurt outside the claim (nlsat timeouts on their exact-zero rescaling test; rolling forms decided in C01)")
READY = True
