"""C15 — null and cast algebra is coherent across all element types. Engine K."""
import kani_engine

RULE = ("one Kani harness per element type (IsNone laws), per numeric source type (cast lattice to all implemented "
        "targets, plain and Option on either side; a second one for the time-type targets), per time source type, "
        "per comparator element type (all triples), plus the bool casts and the string sentinel; every value is "
        "kani::any() over the full bit range (floats: every NaN payload, +-inf, subnormals, -0.0); a harness is "
        "non-trivial when its null / non-null / None / Some kani::cover! witnesses are SATISFIED")

MANIFEST = {
    "engine": "K",
    "technique": "bounded model checking (Kani/CBMC, SAT) of the IsNone / Cast trait instances and sort comparators "
                 "over full-range symbolic values, one harness per element type / source type",
    "design_ref": "DESIGN.md 3/C15",
    "level_text": "CBMC decides for every bit pattern of f32, f64, i32, i64, u8, u64, usize, isize, bool, their Option forms "
                  "(canonical nulls), DateTime<ns|us|ms|s>, TimeDelta and Time that the null predicates agree, none() is null, "
                  "from_inner/unwrap and from_opt/to_opt round-trip, map/vabs/into_cast preserve nullness; that every "
                  "implemented numeric cast pair (56 numeric pairs x 4 Option compositions, identity, bool, number <-> time types) equals the "
                  "language's `as` on non-nulls and maps null to NaN / None / NaT; and that sort_cmp / sort_cmp_rev are total "
                  "preorders with nulls last over all triples of f64, Option<f64>, Option<i32>, i32; counterexamples are replayed natively",
    "level_note": "trusted: Kani's MIR->goto translation, CBMC, CaDiCaL; the oracle for a non-null numeric cast is the language's "
                  "`as` itself; String/&str casts, parsing and formatting are outside the claim",
}


def check(v, tier, opts):
    v.functions.update([
        "tea_dtype::IsNone::{is_none,not_none,to_opt,as_opt,none,from_inner,from_opt,unwrap,map,vabs} for f32,f64,i32,i64,u8,u64,"
        "usize,isize,bool,Option<_>,DateTime<_>,TimeDelta,Time",
        "tea_dtype::IntoCast::into_cast / IsNone::inner_cast",
        "tea_dtype::Cast (impl_numeric_cast! lattice, @common_impl bool and time targets, impl_time_cast!, "
        "DateTime/Time/TimeDelta -> i64 / Option<i64>, identity, T -> Option<T>)",
        "tea_dtype::IsNone::{sort_cmp,sort_cmp_rev} for f64, Option<f64>, Option<i32>, i32 (thorough: all ordered element types)",
        "tea_dtype::Number::abs for f32,f64,i32,i64,u64,usize",
        "IsNone::is_none for &str (sentinel predicate only)",
    ])
    v.bounds.append("element values: full bit range, no bound (floats incl. all NaN payloads, +-inf, subnormals, -0.0); "
                    "Option<f32/f64>: Some(NaN) excluded (canonical nulls, DESIGN 5.4)")
    v.bounds.append("comparators: all triples (a, b, c) of full-range values")
    v.bounds.append("TimeDelta as cast source: months == 0 or NaT marker; nullness of every target over |secs| <= 2^40 and every "
                    "sub-second part; values (TimeDelta -> T equals microseconds `as` T) over the table |secs| <= 100 (thorough: 4096) "
                    "x sub-second part in {0, 1, 999, 1000, 1001, 5e8, 999_999_000, 999_999_999} ns, because CBMC cannot prove "
                    "two evaluations of chrono's num_microseconds (64-bit checked multiply + 32-bit divide) equivalent symbolically "
                    "(no answer in 600 s)")
    v.bounds.append("number -> TimeDelta: nullness and months == 0 only (the duration value is tea-time's From<i64>, a 64-bit division)")
    if tier == "thorough":
        v.bounds.append("thorough adds: IsNone laws for Option<DateTime<ns|s>>, Option<Time>, Option<TimeDelta>; comparators for f32, "
                        "Option<f32>, Option<i64>, Option<u8>, i64, u64, usize, u8, isize, DateTime<ns>, Time; the wider TimeDelta table")
    v.bounds.append("&str sentinel: six fixed literals and all 4-byte ASCII strings")
    v.assumptions.append("nullness of inputs and results is judged by the harness' own definition (NaN / None / NaT encoding), "
                         "not by the library's is_none")
    v.assumptions.extend([
        "integer / bool none() panics by design: Option<T> -> integer U and Option<bool> -> integer U are exercised on Some(..) only",
        "abs(iN::MIN) overflows in the dev profile: vabs is checked for values != MIN (DESIGN 5.6)",
        "casts to bool: values 0 / 1 only (other values panic by design); Option<_> -> bool on Some(..) only",
        "number -> time type: the value whose `as i64` image is i64::MIN is the NaT encoding itself and is excluded",
        "TimeDelta -> number with months != 0 panics by design and is excluded",
    ])
    v.outside.append("String / &str casts in both directions (to_string, parse, format!, DateTime/TimeDelta text forms): text "
                     "formatting and parsing are not encodable at useful bounds (DESIGN 4); only the \"None\" sentinel predicate "
                     "of &str is kept. IsNone for String and Vec<T> (heap objects) is not covered")
    v.outside.append("DateTime<A> -> DateTime<B> unit casts are decided by C16 (into_unit); bool -> time casts panic by design")
    v.outside.append("value semantics of TimeDelta <-> i64 (nanoseconds in, microseconds out) beyond null preservation")
    _drop_stale_harness_builds(tier)
    kani_engine.decide(v, "C15", tier, opts)
    return v.finish(RULE)


def _drop_stale_harness_builds(tier):
    """`cargo kani --harness X` leaves one single-harness build dir per harness in the target dir, each newer
    than the all-harness one; kani_engine.codegen() takes the newest metadata file as the harness list, so a
    second run on unchanged sources would see one harness only. Removing the build dirs of the harness crate
    (fingerprint + output; the dependencies stay built) makes codegen regenerate the full list (~8 s)."""
    import glob
    import os
    import shutil
    base = os.path.join(kani_engine.WORK, f"kt-C15-{tier}")
    for d in glob.glob(os.path.join(base, "kani", "*", "debug", "build", "tvk", "*")):
        shutil.rmtree(d, ignore_errors=True)

READY = True
