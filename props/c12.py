"""C12 — quantiles, percentile ranks, ranks and partitions are true order statistics. Engine K."""
import kani_engine

RULE = "tbd"
MANIFEST = {"engine": "K", "technique": "tbd", "design_ref": "DESIGN.md 3/C12", "level_text": "tbd", "level_note": "tbd"}


def check(v, tier, opts):
    kani_engine.decide(v, "C12", tier, opts)
    return v.finish(RULE)
