"""C12 — quantiles, percentile ranks, ranks and partitions are true order statistics. Engine K."""
import kani_engine

RULE = ("one Kani harness per (function family, element class, length N); the null mask, all element values, the q index "
        "(grid of 7), the interpolation method, pct and the percentile method are kani::any(); k / sort / rev of the "
        "partitions are literals per call (a symbolic flag makes the boxed iterator's type symbolic). The oracle is the "
        "rank-sorted valid keys computed by plain loops in the harness. A harness is non-trivial when its kani::cover! "
        "witnesses (ties, nulls next to valid elements, fractional position, mirrored q > 1/2 branch, pads, genuine "
        "selection) are SATISFIED")

MANIFEST = {
    "engine": "K",
    "technique": "bounded model checking (Kani/CBMC, SAT) of vquantile/vmedian/vpercentile_of/vrank/vpartition/varg_partition "
                 "against order statistics of the valid elements computed in the harness",
    "design_ref": "DESIGN.md 3/C12",
    "level_text": "CBMC decides, for every null mask and all element values at each concrete length N, that vquantile (4 methods, "
                  "q on the grid {0,1/4,1/3,1/2,2/3,3/4,1} where (n-1)q is integral or >= 1/4 from an integer) and vmedian return the "
                  "element(s) at the fractional index of the sorted valid elements (Lower/Higher/MidPoint bit-exact, Linear within "
                  "1e-9 of lo+(hi-lo)*frac) and null iff nothing is valid; vpercentile_of equals the rank/weak/strict proportions; "
                  "vrank gives 2*rank == 2*before+equal+1 (pct: divided by the valid count) and null to nulls; vpartition / "
                  "varg_partition yield k+1 entries whose non-pad part is the multiset of the min(k+1, n) extreme valid elements, "
                  "in order if sorted, pads (null / -1) only when fewer exist, indices in range, distinct, never of a null",
    "level_note": "trusted: Kani's MIR->goto translation, CBMC, CaDiCaL/MiniSat; std::fmt::format stubbed; results are mem::forget-ed "
                  "instead of dropped (drop glue of TError / Box<dyn TrustedLen> is outside the claim). Bounds: N <= 3 quick (element "
                  "classes f64 from -2..=2 with NaN mask, Option<i32> from -2..=2, Option<i32> unconstrained), N <= 4 (percentile 5) "
                  "thorough; quick checks a diagonal of the (k, sort, rev, element class) matrix of the partitions at N = 3, thorough "
                  "the whole matrix for k in 0..=N+1",
}


def check(v, tier, opts):
    v.functions.update(["tea_agg::VecAggValidExt::vquantile (Linear, Lower, Higher, MidPoint)", "tea_agg::VecAggValidExt::vmedian",
                        "tea_agg::AggValidExt::vpercentile_of (Rank, Weak, Strict)", "tea_map::MapValidVec::vrank (pct x rev)",
                        "tea_map::MapValidVec::vpartition", "tea_map::MapValidVec::varg_partition",
                        "tea_dtype::IsNone::{sort_cmp, sort_cmp_rev} for f64 / Option<i32>",
                        "core::slice::{select_nth_unstable_by, sort_unstable_by} as compiled"])
    if tier == "quick":
        v.bounds.append("quick: vquantile N in {0,1,3} (f64 and Option<i32> keys -2..=2; all 7 q, 4 methods; the n == 1 slice at N = 3 in its own "
                        "harness), vmedian N in {0,3}; vpercentile_of N <= 3 (f64 small, Option<i32> unconstrained, 3 methods); vrank N in {0,1} "
                        "(f64), 2 (Option<i32>, pct x rev), 3 (f64 ascending, Option<i32> descending, pct symbolic); vpartition (Option<i32>) / "
                        "varg_partition (f64): N = 3 with (k,sort,rev) in {(1,S,asc),(0,S,desc),(0,U,asc),(1,U,desc)}, N <= 1 with k <= 1, "
                        "sorted vpartition with k+1 > len at N <= 2")
    else:
        v.bounds.append("thorough: all quick harnesses plus N = 2 and N = 4 for every family, Option<i32> unconstrained for Lower/Higher "
                        "quantiles, ranks and selections, vpercentile_of N <= 5, the complete (k in 0..=N+1, sort, rev) matrix of both "
                        "partitions for f64 and Option<i32> at N <= 3 and k <= 5 at N = 4")
    v.bounds.append("q grid: {0, 1/4, 1/3, 1/2, 2/3, 3/4, 1}; (n, q) pairs whose exact product (n-1)q is an integer that involves thirds "
                    "(n = 4 with q = 1/3, 2/3) are excluded per DESIGN 5.5 (either neighbour acceptable)")
    v.outside.append("lengths above the bound; q off the grid; element types other than f64 / Option<i32>; Some(NaN) (DESIGN 5.4); "
                     "destructors of the returned values")
    v.assumptions.append("canonical nulls only (NaN for f64, None for Option<i32>)")
    kani_engine.decide(v, "C12", tier, opts)
    return v.finish(RULE)

READY = True
