"""C04 — rolling covariance, correlation and regressions equal per-window least squares. Engine M."""
import random

import mir_engine as M
from mir_engine import family, kernels
from common import seed, log

NAMES = ["ts_vcov", "ts_vcorr", "ts_vreg", "ts_vtsf", "ts_vreg_slope", "ts_vreg_intercept", "ts_vreg_resid_mean",
         "ts_vregx_alpha", "ts_vregx_beta", "ts_vregx_all_alpha", "ts_vregx_all_beta", "ts_vregx_all_sse",
         "ts_vregx_resid_mean"]
# ts_vregx_resid_std / ts_vregx_resid_skew are registered in mir_engine.kernels but not claimed: the residual variance
# of a regression with symbolic coefficients is a rational function whose cleared form reaches megabytes of SMT text
# already at 3 observations (measured: single queries of 2.6 MB, 60-70 s each, some unknown) — outside the claim.

RULE = ("per kernel and per shape (length L, window w, min_periods, independent null masks of the two series — all concrete) "
        "the outer body and its closure(s) are executed from the MIR of the current tree with the C02 driver protocol unrolled; "
        "values are symbolic reals in |x|<=100; z3 is asked per position for values where the output differs from the "
        "normal-equation solution computed from scratch on the pairwise-complete window (for regress-on-x only where the "
        "regressor's window variance is positive); a kernel is non-trivial when all its queries were answered unsat")

MANIFEST = {
    "engine": "M",
    "technique": "symbolic execution of rustc MIR (closures of binary.rs / reg.rs, residual aggregates via tea-core's vmean/vstd/vskew MIR) "
                 "into SMT over exact reals, z3 decides equivalence with from-scratch least squares; native replay",
    "design_ref": "DESIGN.md 3/C04, 1.2",
    "level_text": "for every pair of real-valued series within the bound (length<=4 quick / 6 thorough, windows 2..=L+2, min_periods in "
                  "{omitted,0,1,2,w}, independent null masks) and with f64 read as exact reals, rolling covariance, correlation, the five "
                  "trend statistics and the regress-on-x statistics (alpha, beta, SSE, residual mean/std/skew) equal ordinary least squares "
                  "on the pairwise-complete window at every position",
    "level_note": "assumes the two-series driver protocol (C02), fold protocol of vapply_n/vfold_n (C11 harnesses), IsNone/Cast rows (C15); "
                  "real-for-float abstraction; |x|<=100; no claim where the regressor is constant in the window (division by zero)",
}
READY = True


def shapes(k, tier):
    rng = random.Random(seed() * 104729 + len(k.name))
    heavy = k.name.endswith(("all_sse", "vcorr"))
    Ls = ([0, 1, 4] if tier == "quick" else [0, 1, 2, 3, 4, 5, 6])
    if heavy:
        Ls = [0, 3, 4] if tier == "quick" else [0, 3, 4, 5]
    for L in Ls:
        for w in range(k.min_w, L + 3):
            if heavy and w > 4:
                continue
            mps = [None, 0, 1, 2, w] if tier == "quick" else [None] + list(range(0, w + 1))
            mps = [m for i, m in enumerate(mps) if m not in mps[:i] and (m is None or m <= w)]
            for mp in mps:
                masks = kernels.masks_for(L, True, tier, rng)
                if k.two:
                    # independent masks: all pairs when small, otherwise seeded pairs
                    pairs = [(a, b) for a in masks for b in masks]
                    if len(pairs) > (40 if tier == "quick" else 160):
                        pairs = [(masks[0], masks[0])] + rng.sample(pairs, 39 if tier == "quick" else 159)
                    for a, b in pairs:
                        yield (L, w, mp, a, b)
                else:
                    for a in masks:
                        yield (L, w, mp, a, None)


def check(v, tier, opts):
    E = M.Engine(["tea-rolling", "tea-core"])
    v.engines["mir2smt"] = {"rustc": "nightly -Zunpretty=mir", "solver": "z3 4.8.12 (z3 -in, push/pop)", "mir_dump_s": round(E.dump_s, 1),
                            "functions_parsed": len(E.fns)}
    import re
    names = [x for x in NAMES if not opts.get("only") or re.search(opts["only"], x)]
    try:
        vectors = {"ts_vcov": [([1.0, 5.0, 3.0, 2.0, 5.0], [2.0, 5.0, 4.0, 3.0, 6.0], 3, 2)],
                   "ts_vcorr": [([1.0, 5.0, 3.0, 2.0, 5.0], [2.0, 5.0, 4.0, 3.0, 6.0], 3, 2)]}
        n = family.validate_translator(v, E, names, vectors, nrand=8 if tier == "quick" else 25)
        log(f"[C04] translator validation: {n} concrete vectors agree between encoding and native code")
        family.run_family(v, E, "C04", NAMES, tier, shapes, opts)
    finally:
        v.solver_time += E.solver.time
        v.engines["mir2smt"].update({"queries": E.solver.queries, "answers": E.solver.stats, "exec_s": round(E.exec_s, 1),
                                     "normalised_value_queries": E.norm_stats})
        E.close()
    v.bounds.append("L in {0,1,4} quick, {0..6} thorough (corr/SSE/resid std/skew: L<=4 quick, <=5 thorough, w<=4); w in 1..=L+2; "
                    "min_periods in {omitted,0,1,2,w} quick, {omitted} U 0..=w thorough; pairs of null masks: all for small L, seeded sample above; |x|,|y|<=100")
    v.assumptions += ["driver protocol of rolling2_apply / rolling2_apply_idx / rolling_apply (C02)", "fold protocol of vapply_n / vfold_n (C11)",
                      "IsNone/Cast table rows (C15)", "f64 arithmetic read as exact real arithmetic"]
    v.outside += ["ts_vregx_resid_std, ts_vregx_resid_skew: value law not decided (query size explodes: 2.6 MB of SMT per query at 3 observations); "
                  "their length, panic-freedom and index safety are covered by C05/C10 harnesses",
                  "size of accumulated rounding error", "windows in which the regressor is constant (regress-on-x: 0/0 or x/0)",
                  "values outside |x|<=100"]
    v.samples.append({"kernel": "ts_vreg_resid_mean", "shape": {"L": 4, "w": 3, "mp": None},
                      "query": "exists y in [-100,100]^4: out[3] != SSE(OLS of (y1,y2,y3) on t=1,2,3)/3"})
    return v.finish(RULE)


def replay(path):
    E = M.Engine(["tea-rolling", "tea-core"])
    try:
        return family.replay_case_file(E, "C04", path)
    finally:
        E.close()
