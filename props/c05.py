"""C05 — rolling outputs are input-length and null exactly during warm-up. TEMPORARY Engine-K-only registration (scratch)."""
import kani_engine

RULE = ("one Kani harness per (group of rolling entry points, length N); window w in 1..=N+2, min_periods (explicit 0..=w or "
        "omitted) and the input (values, null mask) are kani::any(); asserted: output length == N and absence of panics; "
        "a harness is non-trivial when its kani::cover! witnesses are SATISFIED")

MANIFEST = {
    "engine": "K",
    "technique": "bounded model checking (Kani/CBMC) of the length law of all 36 rolling entry points",
    "design_ref": "DESIGN.md 3/C05",
    "level_text": "CBMC decides for all inputs of each concrete length N, all windows 1..=N+2 and all min_periods that every "
                  "ts_* entry point returns exactly N outputs without panicking",
    "level_note": "trusted: Kani/CBMC/CaDiCaL; bound: N <= 3 (quick) / <= 4 (thorough); |x| <= 1000; null-mask law: see C03 harnesses (K) and Engine M",
}


def check(v, tier, opts):
    v.functions.update(["all ts_* of RollingValidFeature, RollingFeature, RollingValidCmp, RollingValidNorm, RollingValidBinary, "
                        "RollingValidReg, RollingValidRegBinary (36 entry points)"])
    v.bounds.append("N in 0..=3 quick, ..=4 thorough; w in 1..=N+2; min_periods explicit 0..=w or omitted; |x| <= 1000")
    v.outside.append("ts_fdiff/ts_vfdiff (feature fdiff not in the pinned build); null-mask law of float kernels (Engine M)")
    kani_engine.decide(v, "C05", tier, opts)
    return v.finish(RULE)
