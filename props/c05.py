"""C05 — rolling outputs are input-length and null exactly during warm-up. Engine K (length / no panic on every entry point;
null mask of the exact family is asserted by the C03 oracles) + Engine M (null mask of the float kernels)."""
import kani_engine
from mir_engine import props_m

RULE = ("Engine K: one harness per (group of <= 2 rolling entry points, length N in 0..=3): window, min_periods (incl. omitted) and values "
        "are kani::any(); asserts exactly N outputs and no panic. Engine M: every float kernel executed from MIR per (L, w, min_periods in "
        "{omitted} U 0..=w, null masks); z3 asked per position whether the null flag can differ from "
        "[valid count < max(min(mp or w/2, w), k_stat) or statistic undefined]; non-trivial = covers SATISFIED / all queries unsat")

MANIFEST = {
    "engine": "K+M",
    "technique": "bounded model checking (Kani/CBMC) of output length and panic-freedom of all 36 rolling entry points; MIR->SMT symbolic "
                 "execution of the 30 float kernels with z3 deciding the null-mask law",
    "design_ref": "DESIGN.md 3/C05",
    "level_text": "for all values, windows 1..=N+2 and min_periods (incl. omitted) at lengths 0..=3 (4 thorough) every rolling entry point returns "
                  "exactly one output per input without panicking; for all real inputs at lengths <= 4 (5 thorough) and all min_periods 0..=w the "
                  "output of each float kernel is null exactly when the (pairwise-complete) valid count is below the effective threshold or the "
                  "statistic is undefined (zero spread where the definition divides by it)",
    "level_note": "trusted: Kani/CBMC, z3, driver protocol (C02); length harnesses stub f64::sqrt/powi/mul_add (and the residual aggregates of "
                  "ts_vregx_resid_*) by nondeterministic values — sound for length/no-panic only; integer outputs: the null is NaN's integer cast "
                  "(0) and cannot be told from a value, the mask law is checked on float/optional outputs",
}
READY = True


def check(v, tier, opts):
    v.functions.update(["all ts_* entry points of RollingValidFeature, RollingFeature, RollingValidCmp, RollingValidNorm, RollingValidBinary, "
                        "RollingValidReg, RollingValidRegBinary"])
    v.bounds.append("Engine K: N in 0..=3 quick, 4 thorough; w in 1..=N+2; min_periods symbolic incl. None; |x|<=1000; empty input also on the "
                    "backends without a fast path (plain view, VecDeque) for the extrema / rank / normalisation family; null-flag law of "
                    "ts_vmin / ts_vmax / ts_vargmin / ts_vargmax (both directions, N = 3) and ts_vminmaxnorm (null below min_periods, N = 4)")
    v.bounds.append("Engine M: L in {0,1,2,4} quick, 0..=5 thorough; w in 1..=L+2; min_periods in {omitted} U 0..=w; null masks (pairs sampled for two series)")
    v.stubs.update(["f64::sqrt / f64::powi / f64::mul_add -> any f64 (length harnesses only)",
                    "AggValidBasic::{vmean,vstd,vskew} -> drain + any f64 (ts_vregx_resid_* length harnesses only)"])
    v.outside.append("Polars backend; ts_fdiff/ts_vfdiff (feature off); null mask of ts_vregx_resid_std/skew (C04 outside list)")
    only = opts.get("only")
    kani_engine.decide(v, "C05", tier, opts)
    if not only or only.startswith("ts_"):
        props_m.c05_m(v, tier, opts)
    return v.finish(RULE)
