"""C09 — trusted-length iterators yield exactly as many items as they announce. Engine K."""
import kani_engine

RULE = ("TODO")

MANIFEST = {
    "engine": "K",
    "technique": "TODO",
    "design_ref": "DESIGN.md 3/C09",
    "level_text": "TODO",
    "level_note": "TODO",
}


def check(v, tier, opts):
    kani_engine.decide(v, "C09", tier, opts)
    return v.finish(RULE)
