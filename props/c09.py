"""C09 — trusted-length iterators yield exactly as many items as they announce. Engine K."""
import kani_engine

RULE = ("one Kani harness per (adaptor, observation, input length N or abstract inner iterator); three observations on "
        "every iterator handed out as TrustedLen: COLLECT (collect_trusted_to_vec under Kani's pointer checks, len == "
        "announced), TOTAL (size_hint().1 read before consumption == number of items yielded by plain iteration, and == "
        "input length for shift-like adaptors), STEPS/WALK (hint re-read after every next / next_back of a symbolic "
        "interleaving: positive while items come, drops by exactly one per item, zero exactly at exhaustion); parameters "
        "(lag over the full i32 range for vshift/vdiff/vpct_change, -len-3..=len+3 for shift, window 1..=len+2, fill values, "
        "bounds, masks, element values, null patterns) are kani::any(); a harness is non-trivial when all its kani::cover! "
        "witnesses are SATISFIED")

MANIFEST = {
    "engine": "K",
    "technique": "bounded model checking (Kani/CBMC) of every TrustedLen iterator the library hands out: hint vs. items yielded "
                 "before and during consumption, trusted collection under pointer checks; adaptors also over an abstract "
                 "contract-satisfying inner iterator (induction over pipeline depth)",
    "design_ref": "DESIGN.md 3/C09",
    "level_text": "CBMC decides, for all element values and all parameters in the stated ranges at each concrete input length "
                  "N <= 3 (and for an abstract inner iterator of symbolic length <= 3 with nondeterministic items), that the "
                  "iterators returned by titer() of Vec/[T;N]/[T]/VecDeque/Array1/ArrayView1/Arc/OptIter, shift, vshift, vdiff, "
                  "vpct_change, ffill/bfill/fill(_mask), vclip, abs/vabs, vcut, vpartition, varg_partition, rolling_custom_iter, "
                  "Vec1Create::range/linspace (Linspace) yield exactly size_hint().1 items from every point of consumption, that "
                  "collect_trusted_to_vec writes inside its allocation and returns that length, and that shift-like adaptors "
                  "announce the input length; counterexamples are replayed natively",
    "level_note": "trusted: Kani's MIR->goto translation, CBMC, CaDiCaL. Bounds: N <= 3 quick / <= 4 thorough; vpartition / "
                  "varg_partition with literal (kth, sort, rev, null pattern) grids (symbolic kth: no solver answer in 900 s), "
                  "vcut with literal flags at 1-2 values; winsorize itself is not run (median/sigma at N = 2 exhaust 12 GB; its returned "
                  "iterator is iter_cast().vclip(), which is covered with arbitrary bounds: c09_winsor_tail_n2). Pipelines of depth >= 2 are "
                  "covered by induction over the abstract inner iterator; concrete fill.vclip and ffill.vclip.vshift pipelines in the thorough "
                  "tier (vshift over vshift exhausts memory even with literal lags). Outside: "
                  "Polars backend; Scan / Repeat (unbounded) TrustedLen impls not reachable from the public adaptors; "
                  "Linspace::next_back (private type, only forward-collected); detection of uninitialised reads after an "
                  "under-yield is by the TOTAL observation, not by memory instrumentation",
}


def check(v, tier, opts):
    v.functions.update([
        "TIter::titer of Vec/[T]/[T;N]/VecDeque/Array1/ArrayView1 (contiguous, reversed, strided)/Arc<Vec>/OptIter, "
        "IntoTIter::into_titer, Vec1View::{to_opt_iter, opt_iter_cast, iter_cast}, TIter::map, &OptIter::into_iter",
        "TrustIter / ToTrustIter::to_trust", "MapBasic::{shift, abs}",
        "MapValidBasic::{vshift, vabs, ffill, ffill_mask, bfill, bfill_mask, fill, fill_mask, vclip, vcut}",
        "MapValidVec::{vdiff, vpct_change, vpartition, varg_partition}", "Vec1View::rolling_custom_iter",
        "Vec1Create::{range, linspace} / tea_core::linspace::Linspace", "CollectTrusted::collect_from_trusted for Vec, "
        "CollectTrustedToVec::collect_trusted_to_vec, Vec1Collect::collect_trusted_vec1",
        "tail of MapValidFinal::winsorize (iter_cast::<f64>().vclip(min, max))",
    ])
    v.bounds.append("input length N in 0..=3 quick (0..=4 thorough), abstract inner iterator with symbolic remaining length <= 3; "
                    "lag: full i32 range (vshift, vdiff, vpct_change), -N-3..=N+3 (shift); window 1..=N+2; kth in 0..=N+2 as literal "
                    "grid x sort x rev x null pattern; vcut: 1 value (2 thorough), 2 edges; range: start/end in -3..=3, step in "
                    "{+-1,+-2} (f64: +-1/4..+-2); linspace: 0..=4 points")
    v.assumptions.append("abs/vabs: elements != i32::MIN (abs of the type minimum is undefined in the language, DESIGN 5.6); "
                         "vdiff/vpct_change: i32 elements in -100..=100 (no overflow of the difference); integer range: the sign "
                         "of the step agrees with the direction of the span (the opposite is a C19 question)")
    v.outside.append("Polars backend; lengths above the bound; Scan/Repeat TrustedLen impls (unreachable from the public adaptors); "
                     "Linspace::next_back; symbolic kth for the partitions; the aggregate part of winsorize (quantile / median / sigma bounds)")
    kani_engine.decide(v, "C09", tier, opts)
    return v.finish(RULE)

READY = True
