"""C07 — results are independent of input backend, output container and out-buffer path. Engine K."""
import kani_engine

RULE = ("one Kani harness per (container, group of concrete lengths N) for accessor coherence and per end-to-end "
        "witness; element values, slice bounds a <= b <= N, the out-of-range index, window, min_periods and lag are "
        "kani::any(); a harness is non-trivial when its kani::cover! witnesses (try_as_slice offered / declined, "
        "inner and empty sub-slice, non-null result with a window shorter than the series, shifts inside the "
        "series) are SATISFIED")

MANIFEST = {
    "engine": "K",
    "technique": "bounded model checking (Kani/CBMC): every accessor of every container against the symbolic logical "
                 "sequence it was built from; differential end-to-end runs of the same call on two containers / "
                 "returned vs. caller-buffer output",
    "design_ref": "DESIGN.md 3/C07",
    "level_text": "CBMC decides for all i32 / Option<i32> contents at each concrete length N that len, checked get (Ok "
                  "below len, Err for every index >= len), uget, titer forward and reversed, slice(a,b) for all "
                  "0 <= a <= b <= N and try_as_slice (when Some) of Vec, [T;N], [T], VecDeque at ring offsets, "
                  "Array1, ArrayView1 with positive and negative steps, Arc<Vec> and OptIter describe the same "
                  "logical sequence; and that ts_vsum, ts_vmin, vshift, vsum, vmax give element-wise identical "
                  "results for the same sequence in different input containers and for returned vs. `_to` output "
                  "into Vec / VecDeque / Array1 buffers. Equivalence of the rolling drivers across backends is C02.",
    "level_note": "trusted: Kani/CBMC/CaDiCaL, stub std::fmt::format; bound: accessors N <= 3 (quick) / <= 4 (thorough), "
                  "end-to-end witnesses N = 2 (quick) / <= 4 (thorough), deque "
                  "offsets {0,1} quick / every offset thorough, ndarray steps {1,2,-1} quick / {3,-2} thorough; the "
                  "full function x backend matrix is covered by composition (accessor coherence here + driver "
                  "protocol C02), direct differential runs are witnesses only; Polars backend outside the claim",
}


def check(v, tier, opts):
    v.functions.update([
        "GetLen::len/is_empty", "Vec1View::get", "Vec1View::uget", "TIter::titer (+ .rev())", "Vec1View::slice",
        "Vec1View::try_as_slice",
        "impls: Vec<T>, [T; N], [T], VecDeque<T>, Array1<T>, ArrayView1<T>, Arc<Vec<T>>, OptIter<Vec<Option<i32>>>",
        "RollingValidFeature::ts_vsum / ts_vsum_to", "RollingValidCmp::ts_vmin", "MapValidBasic::vshift",
        "AggValidBasic::vsum / vmax", "Vec1View::rolling_apply (returned / Some(out))",
        "Vec1::uninit / uninit_ref_mut / UninitVec::assume_init for Vec, VecDeque, Array1",
    ])
    v.bounds.append("accessor coherence: N in {0,1,2,3} quick, + 4 thorough; i32 / Option<i32> elements unconstrained; "
                    "slice bounds 0 <= a <= b <= N symbolic; out-of-range index any usize >= N; VecDeque ring offsets "
                    "{0,1} quick, {0..N-1} thorough; ndarray view steps {1,2,-1} quick, + {3,-2} thorough")
    v.bounds.append("end-to-end witnesses: N = 2 quick, 3 (4) thorough; window 1..=N+2, min_periods None or 0..=N+2; "
                    "vshift lags -N-1..=N+1 enumerated by a concrete loop; Option<i32> values with |x| < 2^20 where an "
                    "i32 running sum is formed; quick: ts_vsum Vec vs wrapped VecDeque / reversed ndarray view, ts_vmin Vec vs wrapped VecDeque (N = 3), ts_vsum_to into a strided (step 2) Array1 view, vshift Vec "
                    "vs VecDeque, vsum+vmax over [T;N] / VecDeque / reversed view, ts_vsum returned vs ts_vsum_to into "
                    "VecDeque and Array1 buffers; thorough adds ts_vmin at N = 2, the strided out view at N = 3, rolling_apply Some(out), vshift vs Array1 (N = 2 only: N = 3 ran the SAT back end out of memory), "
                    "vsum/vmax over strided view / Arc / Array1")
    v.outside.append("Polars backend (polars-core / arrow object graph not encodable in CBMC): chunked arrays, validity bitmaps")
    v.outside.append("the full function x backend x output matrix is not enumerated: agreement follows from accessor "
                     "coherence (here) and the driver protocol (C02) because every function is generic code over "
                     "titer()/uget()/the drivers; ArrayViewMut1 / &mut [T] input views; Box<T> wrappers")
    v.outside.append("slice(a, b) with b > len or a > b (panics / backend-specific); lengths above the bound")
    kani_engine.decide(v, "C07", tier, opts)
    return v.finish(RULE)

READY = True
