"""C19 — generators and collectors build exactly the requested sequence. Engine K."""
import kani_engine

RULE = ("one Kani harness per (generator, element type, region) / (collector set, output container, source length N) / "
        "(out-buffer type, buffer length N against iterator lengths 0..=5); start/end/step, endpoints, item values, "
        "null masks and error masks are kani::any(); a harness is non-trivial when all its kani::cover! witnesses "
        "(non-divisible span, negative step, empty span, a None item, two error items, ...) are SATISFIED")

MANIFEST = {
    "engine": "K",
    "technique": "bounded model checking (Kani/CBMC) of range / linspace / full / empty, the six collectors and "
                 "write_trust_iter over the compiled code, with integer oracles written as plain loops",
    "design_ref": "DESIGN.md 3/C19",
    "level_text": "CBMC decides for all start/end/step in [-20,20] (progressions of at most 6 terms quick, 41 thorough) that "
                  "Vec1Create::range returns exactly the progression terms strictly before end for i32/i64/usize/f64 "
                  "(f64: steps of +-0.5..+-2), that linspace(n = 0..=5) has n elements start + i*step, that full/empty and "
                  "the collectors collect_vec1 / collect_trusted_vec1 / collect_vec1_with_len / collect_vec1_opt / "
                  "try_collect_vec1 / try_collect_trusted_vec1 into Vec, VecDeque and Array1 preserve order and content for "
                  "every source of length 0..=4 and return the first of any set of errors, and that write_trust_iter "
                  "writes every slot exactly once (or reports the mismatch touching nothing) for buffers 0..=4 x iterators 0..=5",
    "level_note": "trusted: Kani/CBMC/CaDiCaL; stub: std::fmt::format -> empty String; bounds: |start|,|end|,|step| <= 20, "
                  "at most 6 (thorough 41) progression terms, sources <= 4 items, buffers <= 4 slots; Polars containers outside",
}


def check(v, tier, opts):
    v.functions.update(["tea_core::linspace::{range, linspace, Linspace}", "Vec1Create::{range, linspace}",
                        "Vec1::{full, empty, collect_from_iter, collect_from_trusted, collect_with_len, collect_from_opt_iter, "
                        "try_collect_from_iter, try_collect_from_trusted} for Vec / VecDeque / Array1",
                        "Vec1Collect / Vec1OptCollect / Vec1TryCollect", "CollectTrusted for Vec (raw-pointer collectors)",
                        "UninitRefMut::write_trust_iter / WriteTrustIter::write on &mut [MaybeUninit<T>], "
                        "&mut VecDeque<MaybeUninit<T>>, ArrayViewMut1<MaybeUninit<T>> and a logging buffer"])
    v.bounds.append("range: start/end/step integers in [-20,20] (usize: [0,20]), step != 0, f64 steps k/2 for k in -4..=4 \\ {0}; "
                    "progression of at most 6 terms (quick) / 41 terms (thorough)")
    v.bounds.append("trusted collection of a to_trust(4) iterator after an item was taken from the front and / or the back: 4 symbolic elements")
    v.bounds.append("linspace: n in 0..=5 concrete, endpoints integers in [-20,20]; full: len 0..=5; collectors: sources of "
                    "0..=4 items, every error mask; write_trust_iter: buffers 0..=4 against iterators 0..=5")
    v.assumptions.append("linspace over usize is checked for start <= end only (a decreasing sequence needs a negative step "
                         "that the unsigned type cannot hold; DESIGN 5.6)")
    v.assumptions.append("integer linspace is judged against start + i*trunc((end-start)/(n-1)) — the element type's own "
                         "division, as the repository's own test expects (linspace(1,4,3) == [1,2,3] for usize)")
    v.outside.append("Polars containers; element values / lengths above the bounds; float steps other than multiples of 0.5; "
                     "collect_vec1_with_len with a length that is not the iterator's length (caller contract)")
    kani_engine.decide(v, "C19", tier, opts)
    return v.finish(RULE)

READY = True
