"""C10 — kernels never index out of bounds and initialise every output slot exactly once. Engine K."""
import kani_engine

RULE = ("one Kani harness per (entry point or kernel, input view, group of concrete lengths N). Output goes to the "
        "instrumented container `Logged` whose uninit types keep a per-slot write log; after each call the harness asserts "
        "'output index in bounds', 'slot written once', 'every output slot written before assume_init' and the output "
        "length. Inputs are Vec / [T; N] / Array1 (Kani's pointer checks see every get_unchecked / uget) and the "
        "bounds-checked thin view DefView (an index >= len handed to an unchecked accessor panics). Window values are "
        "1..=N+3 (symbolic, or enumerated by a concrete loop on the fast paths), window 0 / empty input / a shorter second "
        "series have their own harnesses; min_periods, null masks, values, pct/rev flags are kani::any(). A harness is "
        "non-trivial when its kani::cover! witnesses are SATISFIED; #[kani::should_panic] harnesses witness the regions "
        "where the tree panics cleanly (acceptable for this property) with plain Vec outputs")

MANIFEST = {
    "engine": "K",
    "technique": "bounded model checking (Kani/CBMC) of all rolling drivers with an arbitrary callback and of the "
                 "self-indexing kernels, writing into a write-logging output container and reading from pointer-checked / "
                 "bounds-checked input views",
    "design_ref": "DESIGN.md 3/C10",
    "level_text": "CBMC decides, for every series content and every window 1..=N+3 at each concrete length N, that the six "
                  "rolling drivers (returned and caller-buffer path; Vec and Array1 fast paths, default bodies) write "
                  "every output slot exactly once and in bounds and read only valid input memory; that ts_vmin/vmax/"
                  "vargmin/vargmax/ts_vrank, ts_vminmaxnorm, ts_vregx_resid_mean, vrank, varg_partition, vpartition and "
                  "vquantile do the same for every null mask, min_periods and flag; and which degenerate calls (window 0, "
                  "empty input, shorter second series) panic cleanly and which expose unwritten or out-of-bounds memory",
    "level_note": "trusted: Kani/CBMC/CaDiCaL, stub std::fmt::format; Kani has no uninitialised-read check, hence the "
                  "write log (padding / validity of MaybeUninit transmutes trusted); bound: N <= 3 quick (Array1 "
                  "drivers N = 2), N <= 4 thorough; ts_vregx_resid_std/skew only on the default-body view in the thorough "
                  "tier (float sqrt/powi do not constant-fold; fast path > 600 s) — they share their index expressions "
                  "with ts_vregx_resid_mean; partition parameters (k, sort, rev) are concrete per call; "
                  "Polars backend outside the claim",
}


def check(v, tier, opts):
    v.functions.update([
        "Vec1View::rolling_apply / rolling_apply_to", "rolling_apply_idx / _to", "rolling2_apply / _to",
        "rolling2_apply_idx / _to", "rolling_custom / rolling_custom_to", "rolling2_custom",
        "fast-path overrides of Vec<T>, [T; N], Array1<T>; default bodies through util::DefView",
        "Vec1::uninit / uninit_ref_mut, UninitVec::uset / assume_init, UninitRefMut::uset / write_trust_iter (via Logged)",
        "RollingValidCmp::ts_vmin / ts_vmax / ts_vargmin / ts_vargmax / ts_vrank", "RollingValidNorm::ts_vminmaxnorm",
        "RollingValidRegBinary::ts_vregx_resid_mean (quick) / _std / _skew (thorough, DefView only)",
        "MapValidVec::vrank / vpartition / varg_partition", "VecAggValidExt::vquantile",
    ])
    v.bounds.append("drivers: N in {0,1,2,3} on Vec, N = 2 on Array1 (slice forms thorough), N = 3 on DefView; window "
                    "1..=N+3; callback returns kani::any::<u8>() and reads every element of a slice window; i32 contents "
                    "unconstrained; thorough adds N = 4 and the remaining lengths")
    v.bounds.append("second series longer than the first by 2 (N = 1, 2; 3 thorough) with window up to N+3 on all six two-series driver "
                    "forms; partition iterators (sorted and unsorted, with padding) yield exactly their announced trusted length; a "
                    "caller-supplied non-contiguous (step 2) and reversed (step -1) ndarray out views, sentinel-filled: N = 2 (3 thorough)")
    v.bounds.append("window 0: N = 2 (every fast-path override of Vec and Array1, every *_to body; kernels on Vec), N = 0 "
                    "(fast paths); second series of length N-1 at N = 2; thorough adds N in {1,3}")
    v.bounds.append("kernels: N in {1,2,3} on [T; N] (same impl_vec1! fast path as Vec, no heap object), N = 3 on DefView, "
                    "N = 0 in c10_empty_*; Vec input and N = 4 in the thorough tier; Option<i32> data: unconstrained for the "
                    "cmp kernels, -3..=3 for minmaxnorm / vrank / partition / quantile (ties; no i32 overflow in v - min); "
                    "min_periods None or 0..=N+3; regression residuals: fixed f64 values with a symbolic (DefView) or two "
                    "concrete (fast path) NaN masks — indices never depend on values there; partition: concrete "
                    "(k, sort, rev) from {(1,F,F),(1,T,T),(3,T,F),(4,F,F)} quick; quantile q in {0,.25,.5,.75,1,1.5} x 4 methods")
    v.outside.append("Polars backend; VecDeque / ArrayView inputs of the drivers (their protocol is C02, same default or "
                     "fast-path text); ts_vregx_resid_std / _skew on the fast path (CBMC does not finish: sqrt / powi); "
                     "kernels that never index the input themselves (features, binary, most of reg) are covered through the "
                     "drivers with an arbitrary callback; reads of uninitialised memory as such (Kani cannot model them: "
                     "write log instead); lengths above the bound")
    v.assumptions.append("clean panics are acceptable (property text): default driver bodies with window 0 "
                         "(assert!(window > 0) / `window - 1` underflow), the cmp kernels on an empty DefView, ts_vrank on "
                         "empty input or window 0 (`window - 1` underflow; recorded under C05) — witnessed by should_panic "
                         "harnesses and excluded from the other harnesses by kani::assume")
    # Degenerate parameters: the property accepts "either a fully defined result or a clean panic". Since the repairs
    # 394b9ad / 13ad273 the `*_to` drivers assert `window > 0` and the two-series drivers assert the second series is long
    # enough; these documented panics are accepted in the window-0 / short-second-series harnesses, whose write-log and
    # pointer checks remain asserted on every path that returns.
    opts = dict(opts)
    opts["allowed_failures"] = [
        (r"^c10_w0_(drivers|kernels|out)_", r"window must be greater than 0"),
        (r"^c10_short2_", r"the second series is shorter than the first"),
    ]
    kani_engine.decide(v, "C10", tier, opts)
    return v.finish(RULE)


READY = True
