"""C10 — kernels never index out of bounds and initialise every output slot exactly once. Engine K."""
import kani_engine

RULE = "tbd"
MANIFEST = {"engine": "K", "technique": "tbd", "design_ref": "DESIGN.md 3/C10", "level_text": "tbd", "level_note": "tbd"}


def check(v, tier, opts):
    kani_engine.decide(v, "C10", tier, opts)
    return v.finish(RULE)
