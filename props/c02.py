"""C02 — rolling drivers call back once per position with exactly the right window. Engine K."""
import kani_engine

RULE = ("one Kani harness per (driver, input backend, length N); window w in 1..=N+3 and all element values are "
        "kani::any(); the callback is a recording closure asserting the protocol at every call; a harness is "
        "non-trivial when its warm-up and steady-state kani::cover! witnesses are SATISFIED")

MANIFEST = {
    "engine": "K",
    "technique": "bounded model checking (Kani/CBMC) of every rolling driver with a recording callback, per backend and length",
    "design_ref": "DESIGN.md 3/C02",
    "level_text": "CBMC decides for all element values and all windows 1..=N+3 at each concrete length N that the eight drivers "
                  "(returned and caller-buffer paths) on 11 input backends invoke the callback exactly once per position with "
                  "the specified new/removed elements, start index or window slice, and store result i at position i",
    "level_note": "trusted: Kani/CBMC/CaDiCaL; bound: series length N <= 4 (quick) / <= 6 (thorough); Polars backend outside the claim",
}


def check(v, tier, opts):
    v.functions.update(["Vec1View::rolling_apply(_to)", "rolling_apply_idx(_to)", "rolling2_apply(_to)", "rolling2_apply_idx(_to)",
                        "rolling_custom(_to)", "rolling2_custom", "rolling_custom_iter",
                        "fast paths of Vec/[T]/[T;N]/Array1/ArrayView1, Arc delegation, VecDeque, OptIter, default bodies"])
    v.bounds.append("N in {0,1,4} quick, {0..6} thorough; w in 1..=N+3 symbolic; i32 / Option<i32> elements unconstrained")
    v.bounds.append("caller-supplied ndarray out views not in standard layout (reversed step -1, strided step 2): N = 2, rolling_apply")
    v.outside.append("Polars backend (polars-core object graph not encodable); lengths above the bound")
    kani_engine.decide(v, "C02", tier, opts)
    return v.finish(RULE)

READY = True
