"""C20 — composite analytics terminate within range and respect their defining relations. Engine K."""
import kani_engine

RULE = "draft"

MANIFEST = {"engine": "K", "technique": "draft", "design_ref": "DESIGN.md 3/C20", "level_text": "draft", "level_note": "draft"}


def check(v, tier, opts):
    opts = dict(opts)
    opts["unwind_is_violation"] = True
    kani_engine.decide(v, "C20", tier, opts)
    return v.finish(RULE)
