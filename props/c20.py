"""C20 — composite analytics terminate within range and respect their defining relations. Engine K."""
import re

import kani_engine
from common import log

RULE = ("one Kani harness per (analytic, law, series length N); half_life: the autocorrelation table (one f64 per lag, incl. "
        "NaN/inf), min_periods and the break lag L* are kani::any(); winsorize: data, multiplier / quantile level and the "
        "recorder answers (bounds, MAD) are kani::any(); ranks: both series are kani::any() under the same-order assumption; "
        "a harness is non-trivial when all its kani::cover! witnesses (L* = 0, L* = len-1, NaN / tie after L*, values below / "
        "inside / above the interval, a null, a tie) are SATISFIED")

MANIFEST = {
    "engine": "K",
    "technique": "bounded model checking (Kani/CBMC) of half_life, winsorize and the Spearman branch of vcorr over the compiled "
                 "code, with the correlation / quantile / median / mean-variance callees replaced by recording oracle stubs",
    "design_ref": "DESIGN.md 3/C20",
    "level_text": "CBMC decides for every autocorrelation table over lags 1..N-1 (N = 0..=9, any f64 incl. NaN) that half_life "
                  "terminates within the derived loop bound, does not panic and returns a lag in 1..=N-1 (0 iff N < 2), and that for "
                  "tables above 0.5 exactly up to a lag L* it returns min(L*+1, N-1); for all data of length <= 4 (small integers or "
                  "null), all multipliers / quantile levels on a grid and symbolic bounds that winsorize (Quantile, Median, Sigma) "
                  "asks for exactly the documented bounds and clips to them (one output per input, null stays null, inside unchanged, "
                  "outside onto the nearer bound, order preserved, degenerate cases unchanged); that vrank of two Option<i32> series "
                  "(N <= 3 quick, 4 thorough) with the same order relation is identical; and that vcorr(Spearman) is Pearson of the two rank vectors",
    "level_note": "trusted: Kani/CBMC/CaDiCaL and the oracle stubs (vcorr_pearson -> table[lag]; vshift -> lag recorder in the "
                  "symbolic-table families, real vshift in the wiring family; vquantile / vmedian / vmean_var -> argument-checking "
                  "recorders); that the stubbed callees compute what their names say is C11/C12/C13; bounds: N <= 9 (half_life), "
                  "N <= 4 (winsorize), N <= 4 (ranks)",
}

STUB_HARNESS = re.compile(r"c20_(half_life_(any|first|tie|wiring)|winsorize(?!_quantile_e2e)|spearman)_")

# failing assertion of an oracle-stub harness (harness regex, assertion regex) -> native witness harness
WITNESS = [
    (r"c20_half_life_(any|first|wiring)_n\d+$", r"^attempt to subtract with overflow$", "c20_half_life_witness_ramp_n5"),
    (r"c20_half_life_tie_n\d+$", r"^half_life: a tie \(== 0\.5\) or NaN counts as not above 0\.5", "c20_half_life_witness_nan_midpoint_n9"),
]


def explained_by(why, reproduced):
    """Witness harness name when EVERY failed check of the stub harness named in `why` is covered by a witness that
    reproduced natively, else None."""
    import ast
    m = re.search(r"harness (\S+): failed checks (\[.*\]) but counterexample did not reproduce natively", why)
    if not m:
        return None
    try:
        descs = ast.literal_eval(m.group(2))
    except (ValueError, SyntaxError):
        return None
    wits = set()
    for d in descs:
        w = [wit for hpat, dpat, wit in WITNESS if re.search(hpat, m.group(1)) and re.search(dpat, d) and wit in reproduced]
        if not w:
            return None
        wits.add(w[0])
    return ", ".join(sorted(wits)) if wits else None


def check(v, tier, opts):
    opts = dict(opts)
    # termination is part of the property: a loop that exceeds the derived bound is a violation, not "bound too small"
    opts["unwind_is_violation"] = True
    v.functions.update(["tevec::agg::AggValidFinal::half_life", "tevec::agg::AggValidFinal::vcorr (Spearman branch)",
                        "tevec::map::MapValidFinal::winsorize (Quantile / Median / Sigma)", "tea_map::MapValidBasic::vclip",
                        "tea_map::MapValidBasic::vshift (wiring / witness harnesses)", "tea_map::MapValidVec::vrank"])
    v.bounds.append("half_life: N in 0..=9, table[lag] any f64 (incl. NaN, +-inf), min_periods omitted or 1..=N+1, L* in 0..=N-1")
    v.bounds.append("winsorize end to end (nothing stubbed): Quantile method at level 0.25 on [a, null, b] with the null first or in the "
                    "middle, a and b integers in -8..=8; ranks: average-rank value law on N <= 3 (4 thorough)")
    v.bounds.append("winsorize: N in {0,2,4} quick / 0..=4 thorough, data small integers in [-9,9] or NaN, multiplier k in {0,0.5,..,4} or "
                    "omitted, q in {0,0.05,..,0.5} or omitted, quantile bounds half-integers in [-10,10] or NaN (lower <= upper), "
                    "MAD half-integers in [0,6] or NaN, median in {NaN, 1.5}, (mean, variance) in {(NaN,2.25),(0.5,NaN),(0.5,0),(0.5,EPS),(0.5,2.25)}")
    v.bounds.append("ranks: Option<i32> series, N in {2,3} quick / 4 thorough, unconstrained values; Spearman wiring N in {0,2} quick / 3 thorough")
    v.stubs.update([
        "tea_core AggValidBasic::vcorr_pearson -> table[lag] oracle (half_life) / argument recorder (Spearman)",
        "tea_map MapValidBasic::vshift -> lag recorder (half_life any/first/tie families only; wiring and witness families run the real vshift)",
        "tea_agg VecAggValidExt::vquantile, ::vmedian and tea_core AggValidBasic::vmean_var -> argument-checking recorders "
        "returning the harness-chosen bounds (winsorize)",
    ])
    v.assumptions.append("half_life looks at a correlation only through `<= 0.5`, `< 0.5`, `> 0.5` and `is_nan`; the wiring family "
                         "therefore uses the concrete representatives 0.75 / 0.25, the other families symbolic values")
    v.assumptions.append("winsorize: the answers that decide WHICH boxed iterator comes back (median null or not; mean / variance "
                         "null, at the floor or above) are concrete per call, everything else symbolic (CBMC cannot exclude the "
                         "nested Box<dyn TrustedLen> recursion otherwise: out of memory even on the empty input)")
    v.assumptions.append("quantile recorder answers satisfy lower <= upper (monotonicity of quantiles in q is C12); MAD >= 0; k >= 0")
    v.outside.append("numeric value of the correlation / quantiles / median / mean / variance (C11, C12); vshift itself (C13); "
                     "q outside [0, 0.5], negative multipliers; backends other than Vec<f64> ([f64; 0] for the empty input); "
                     "native replay of oracle-stub counterexamples (Kani stubs do not exist natively: the "
                     "c20_half_life_witness_* harnesses pair concrete data with the table of their own autocorrelations instead)")
    # Oracle-stub harnesses are not replayed natively: Kani stubs do not exist in a native run, the replay could only
    # run the real callees on unrelated data (the harnesses drain the recorded values and return in that case). Skipping
    # the replay saves one Kani run plus one native test build per failing stub harness.
    orig_playback = kani_engine.playback

    def playback(prop, tier_, name, timeout_s, mem_gb):
        if STUB_HARNESS.search(name):
            return None, "counterexample did not reproduce natively: oracle-stub harness, not replayed"
        return orig_playback(prop, tier_, name, timeout_s, mem_gb)

    kani_engine.playback = playback
    try:
        kani_engine.decide(v, "C20", tier, opts)
    finally:
        kani_engine.playback = orig_playback
    # A counterexample of an oracle-stub harness cannot be replayed natively. When the witness harness for the same
    # failing assertion did reproduce natively (it is in v.violations), the stub harness failure is explained by it.
    reproduced = " ".join(k for k, _, _ in v.violations)
    keep = []
    searched = {}
    import native_search
    for why in v.inconclusive:
        hit = explained_by(why, reproduced)
        if hit:
            log("STUB-HARNESS-FAILS property=C20 " + why.split(" but ")[0] + " — decided by Kani under the oracle stubs, not "
                "replayable natively; same defect reproduced natively by " + hit)
            continue
        m = re.search(r"harness (c20::(c20_(half_life|winsorize)\w+)): failed checks (\[.*?\]) but", why)
        if m and STUB_HARNESS.search(m.group(2)):
            # the solver's verdict under the oracle stubs is confirmed by a native witness search on the real function
            fam = m.group(3)
            if fam not in searched:
                searched[fam] = native_search.search_half_life() if fam == "half_life" else native_search.search_winsorize()
            case = searched[fam]
            if case is not None:
                case.update({"property": "C20", "failed_stub_harness": m.group(2), "failed_checks": m.group(4)})
                path = native_search.save(case, "native_witness_" + fam)
                key = f"{m.group(2)}::{m.group(4)[:120]}"
                v.failure(key, path, "oracle-stub harness fails under Kani; native witness on the real function: " + case["what"])
                continue
            keep.append(why + " — native witness search (seeded, ~4000 inputs) found no concrete reproduction")
        else:
            keep.append(why)
    v.inconclusive = keep
    return v.finish(RULE)


def replay(path):
    if path.endswith(".json"):
        import native_search
        bad, got = native_search.replay_case(path)
        log(("REPRODUCED " if bad else "passes ") + f"{path}: {bad or got}")
        return 1 if bad else 0
    import importlib
    chk = importlib.import_module("check") if False else None
    feats = "c20,playback"
    res = kani_engine.run_playback_file(path, feats)
    n = 0
    for t, panicked, msg in res:
        log(f"{'REPRODUCED' if panicked else 'passes    '} {t}: {msg[:300]}")
        n += panicked
    return 1 if n else 0

READY = True
