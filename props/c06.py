"""C06 — rolling and lagging results never depend on later (or pre-window) data. Engine K (two-run relational harnesses for lags and
the exact kernels) + Engine M (window locality of the float kernels; look-ahead obligation in the executor)."""
import kani_engine
from mir_engine import props_m

RULE = ("Engine K: two symbolic runs per harness — on a prefix x[..cut] and on x, or on two histories that agree on the window — with "
        "bit-for-bit equality of the corresponding outputs (lags n in 0..=N+2, every proper cut). Engine M: every float kernel executed "
        "from MIR on histories longer than the window; per position i >= w z3 is asked for a history where the output differs from the "
        "statistic of positions i-w+1..=i alone (which does not mention the pre-window values), and every element read is checked to lie "
        "at or before the current position; non-trivial = covers SATISFIED / all queries unsat")

MANIFEST = {
    "engine": "K+M",
    "technique": "relational bounded model checking (Kani/CBMC, two runs) for shift/vshift/vdiff/vpct_change and the exact rolling kernels; "
                 "MIR->SMT symbolic execution with z3 for window locality of the float kernels",
    "design_ref": "DESIGN.md 3/C06",
    "level_text": "for all series of length 3 (2..=5 thorough), all lags 0..=N+2 and every proper prefix, shift/vshift/vdiff/vpct_change and "
                  "ts_vsum(i32)/ts_vmin/vmax/vargmin/vargmax/vrank/vminmaxnorm give bit-identical outputs on the prefix and on the whole series, "
                  "and the exact kernels are unchanged by replacing the pre-window history; for all real histories of length w+2..w+3 (w<=3; "
                  "thorough w<=4, up to w+4) each of the 30 float kernels returns at positions >= w exactly the window statistic, i.e. is "
                  "independent of the pre-window values in exact arithmetic, and never reads beyond the current position",
    "level_note": "trusted: Kani/CBMC, z3, driver protocol (C02: call i receives only x[<=i], calls in index order, hence bitwise prefix "
                  "stability of the float kernels follows from determinism); rounding-level dependence on pre-window values is outside; "
                  "MapBasic::shift restricted to n <= prefix length (its n > len behaviour is C09/C13)",
}
READY = True


def check(v, tier, opts):
    v.functions.update(["MapBasic::shift", "MapValidBasic::vshift", "MapValidVec::vdiff", "MapValidVec::vpct_change",
                        "ts_vsum, ts_vmin, ts_vmax, ts_vargmin, ts_vargmax, ts_vrank, ts_vminmaxnorm (two-run)",
                        "30 float kernels of features.rs / binary.rs / reg.rs / norm.rs (Engine M)"])
    v.bounds.append("Engine K: N=3 quick (2,4,5 thorough); lag n in 0..=N+2; cuts 1..=N-1; explicit min_periods, omitted only for prefix >= w")
    v.bounds.append("Engine M prefix runs: series length 5 (5 and 6 thorough), every proper prefix 1..L-1, windows {2, L, L+2} "
                    "(thorough {1, 2, 4, L, L+2}), min_periods omitted (prefix >= window only) or explicit in {1, L-1, L, L+1} (thorough adds 2, L+3), "
                    "all-valid plus one sampled null mask; all real element values")
    v.bounds.append("Engine M: w in 1..=3 quick (4 thorough), L = w+2..w+3 (w+1..w+4 thorough), min_periods in {0,1,w}, sampled null masks; |x|<=100")
    v.outside.append("dependence on pre-window values at the level of floating-point rounding; +-inf / NaN poisoning by expired non-finite values (DESIGN 5.2)")
    only = opts.get("only")
    kani_engine.decide(v, "C06", tier, opts)
    if not only or only.startswith("ts_"):
        props_m.c06_m(v, tier, opts)
        props_m.c06_prefix_m(v, tier, opts)
    return v.finish(RULE)
