"""C06 — rolling and lagging results never depend on later (or pre-window) data. TEMPORARY Engine-K-only registration (scratch)."""
import kani_engine

RULE = ("one Kani harness per (function, element type, length N): two symbolic runs (prefix / whole series, or two histories "
        "that agree on the window) compared bit for bit; lag, window, min_periods and contents are kani::any(); a harness is "
        "non-trivial when its kani::cover! witnesses are SATISFIED")

MANIFEST = {
    "engine": "K",
    "technique": "bounded model checking (Kani/CBMC), two-run relational harnesses",
    "design_ref": "DESIGN.md 3/C06",
    "level_text": "CBMC decides for all contents, lags 0..=N+2, windows 1..=N+2 and min_periods at each concrete length N that "
                  "prefix evaluation equals the prefix of the whole evaluation (lags, exact rolling kernels) and that the "
                  "extrema/rank kernels do not depend on pre-window history",
    "level_note": "trusted: Kani/CBMC/CaDiCaL; bound: N <= 4 (quick) / <= 5 (thorough); float kernels are Engine M's",
}


def check(v, tier, opts):
    v.functions.update(["MapBasic::shift", "MapValidBasic::vshift", "MapValidVec::vdiff", "MapValidVec::vpct_change",
                        "ts_vsum(i32)", "ts_vmin", "ts_vmax", "ts_vargmin", "ts_vargmax", "ts_vrank", "ts_vminmaxnorm"])
    v.bounds.append("lags: N in {2,4} quick, {1,3,5} thorough, n in 0..=N+2, every cut; rolling prefix: N in {2,3} quick, 4 thorough; locality: N in {3,4} quick")
    v.outside.append("shift with n > len (C09/C13); float kernels (Engine M); negative lags")
    kani_engine.decide(v, "C06", tier, opts)
    return v.finish(RULE)
