"""C16 — NaT absorbing; unit changes floor toward the past. Engine K."""
import kani_engine

RULE = ("one Kani harness per (source unit, target unit) pair and per NaT-absorption law; inputs are kani::any() "
        "over the whole i64 range; a harness is non-trivial when all its kani::cover! witnesses are SATISFIED")


def check(v, tier, opts):
    v.functions.update(["tea_time::DateTime::into_unit", "tea_time::DateTime::{is_nat,into_opt_i64,from_opt_i64}",
                        "tea_dtype::Cast<DateTime<_>> for DateTime<_>"])
    v.functions.update(["all operator impls of tea-time/src/impls/impl_ops.rs with one NaT operand (DateTime +- TimeDelta, DateTime - DateTime, "
                        "TimeDelta +- TimeDelta, -TimeDelta, TimeDelta * i32, Time +- TimeDelta)", "DateTime::{as_cr, time, year..second, duration_trunc} NaT paths",
                        "From<Option<i64>> / From<Option<NaiveDateTime>> / Default constructors"])
    v.bounds.append("NaT laws and finer-unit law: full i64 range; floor law: quotients within +-2^12 with every residue (a 64-bit divider against any "
                    "independent statement of floor does not come back from SAT); finer-then-back round trip on |v| < 2^20 (ratio 10^3) / 2^7 (10^6, 10^9)")
    v.bounds.append("NaT absorption: other operand fully symbolic (DateTime/Time any i64; TimeDelta any i32 months, |secs| <= 2^40, every nanosecond part)")
    v.outside.append("TimeDelta / TimeDelta (returns i32, panics by design on NaT); Timelike getters of Time (return u32)")
    v.outside.append("calendar field getters and round trip through chrono::DateTime (chrono calendar tables: no "
                     "solver answer in 40-55 min in the design probes); judged against chrono's documented floor contract")
    kani_engine.decide(v, "C16", tier, opts)
    return v.finish(RULE)

MANIFEST = {
    "engine": "K",
    "technique": "bounded model checking (Kani/CBMC, SAT) of into_unit / NaT guards over symbolic i64 timestamps",
    "design_ref": "DESIGN.md 3/C16",
    "level_text": "CBMC decides, for every i64 timestamp (NaT laws, finer-unit law: whole representable range; floor law: "
                  "quotients within +-2^12 with every residue), that DateTime::into_unit for all 16 unit pairs returns NaT for NaT, "
                  "exact multiples toward finer units and the floor toward coarser units; counterexamples are replayed natively",
    "level_note": "trusted: Kani's MIR->goto translation, CBMC, CaDiCaL; chrono's documented floor contract stands in for chrono itself; "
                  "calendar field getters and the chrono round trip are outside the claim",
}

READY = True
