"""C16 — NaT absorbing; unit changes floor toward the past. Engine K."""
import kani_engine

RULE = ("one Kani harness per (source unit, target unit) pair and per NaT-absorption law; inputs are kani::any() "
        "over the whole i64 range; a harness is non-trivial when all its kani::cover! witnesses are SATISFIED")


def check(v, tier, opts):
    v.functions.update(["tea_time::DateTime::into_unit", "tea_time::DateTime::{is_nat,into_opt_i64,from_opt_i64}",
                        "tea_dtype::Cast<DateTime<_>> for DateTime<_>"])
    v.bounds.append("timestamps: full i64 range (no bound); finer-then-back round trip additionally on |v| < 2^20")
    v.outside.append("calendar field getters and round trip through chrono::DateTime (chrono calendar tables: no "
                     "solver answer in 40-55 min in the design probes); judged against chrono's documented floor contract")
    kani_engine.decide(v, "C16", tier, opts)
    return v.finish(RULE)

MANIFEST = {
    "engine": "K",
    "technique": "bounded model checking (Kani/CBMC, SAT) of into_unit / NaT guards over symbolic i64 timestamps",
    "design_ref": "DESIGN.md 3/C16",
    "level_text": "CBMC decides, for every i64 timestamp (NaT laws, finer-unit law: whole representable range; floor law: "
                  "quotients within +-2^12 with every residue), that DateTime::into_unit for all 16 unit pairs returns NaT for NaT, "
                  "exact multiples toward finer units and the floor toward coarser units; counterexamples are replayed natively",
    "level_note": "trusted: Kani's MIR->goto translation, CBMC, CaDiCaL; chrono's documented floor contract stands in for chrono itself; "
                  "calendar field getters and the chrono round trip are outside the claim",
}

READY = True
