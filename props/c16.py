"""C16 — NaT absorbing; unit changes floor toward the past. Engine K."""
import kani_engine

RULE = ("one Kani harness per (source unit, target unit) pair and per NaT-absorption law; inputs are kani::any() "
        "over the whole i64 range; a harness is non-trivial when all its kani::cover! witnesses are SATISFIED")


def check(v, tier, opts):
    v.functions.update(["tea_time::DateTime::into_unit", "tea_time::DateTime::{is_nat,into_opt_i64,from_opt_i64}",
                        "tea_dtype::Cast<DateTime<_>> for DateTime<_>"])
    v.functions.update(["all operator impls of tea-time/src/impls/impl_ops.rs with one NaT operand (DateTime +- TimeDelta, DateTime - DateTime, "
                        "TimeDelta +- TimeDelta, -TimeDelta, TimeDelta * i32, Time +- TimeDelta)", "DateTime::{as_cr, time, year..second, duration_trunc} NaT paths",
                        "From<Option<i64>> / From<Option<NaiveDateTime>> / Default constructors"])
    v.bounds.append("NaT laws and finer-unit law: full i64 range; floor law: quotients within +-2^12 with every residue (a 64-bit divider against any "
                    "independent statement of floor does not come back from SAT); finer-then-back round trip on |v| < 2^20 (ratio 10^3) / 2^7 (10^6, 10^9)")
    v.bounds.append("NaT absorption: other operand fully symbolic (DateTime/Time any i64; TimeDelta any i32 months, |secs| <= 2^40, every nanosecond part)")
    v.outside.append("TimeDelta / TimeDelta (returns i32, panics by design on NaT); Timelike getters of Time (return u32)")
    v.outside.append("chrono's own calendar tables (no solver answer in 40-55 min in the design probes): the field getters and the round trip "
                     "through chrono::DateTime are decided in Engine M against chrono's documented calendar contract, which is compared with "
                     "the real chrono on concrete timestamps each run")
    kani_engine.decide(v, "C16", tier, opts)
    if not opts.get("only") or "mir" in opts.get("only"):
        m_part(v)
    return v.finish(RULE + M_RULE)


M_RULE = ("; Engine M: DateTime::into_unit executed from its MIR for each of the 16 unit pairs with the timestamp an SMT Int over the "
          "whole i64 range; z3 (LIA) asked for a timestamp violating the NaT law, the exact-multiple law, the floor law or reaching a panic")


def m_part(v):
    """Full-range cross-check on mathematical integers (the 64-bit divider stalls the SAT back end)."""
    import json, os
    import mir_engine as M
    from mir_engine import time_units as T, replay as rp
    from mir_engine.mirparse import MirError
    from common import REPLAYS, ensure_dir, log
    short = {"Second": "s", "Millisecond": "ms", "Microsecond": "us", "Nanosecond": "ns"}
    E = M.Engine(["tea-time"])
    try:
        fn = T.find_into_unit(E)
        v.functions.add("tea_time::DateTime::into_unit (MIR " + fn.name + ")")
        bad_pairs = 0
        for a in T.UNITS:
            for b in T.UNITS:
                q, fails, unk = T.check_pair(E, fn, a, b)
                v.evaluations += q
                for u in unk:
                    v.inconcl(f"into_unit {a}->{b}: solver unknown ({u})")
                for msg, model in fails[:1]:
                    bad_pairs += 1
                    key = f"into_unit_mir_{short[a]}_{short[b]}::{msg}"
                    if v.is_known(key):
                        v.note_known(key)
                        continue
                    ts = int(model.get("ts", 0)) if model else 0
                    p = rp._get()
                    p.stdin.write(f"into_unit {short[a]} {short[b]} {ts}\n")
                    p.stdin.flush()
                    got = p.stdout.readline().strip()
                    pf, pt = T.UNITS[a][1], T.UNITS[b][1]
                    want = ts if a == b else (T.I64_MIN if ts == T.I64_MIN else (ts * (pt // pf) if pt >= pf else ts // (pf // pt)))
                    d = ensure_dir(os.path.join(REPLAYS, "C16"))
                    path = os.path.join(d, f"into_unit_{short[a]}_{short[b]}.json")
                    json.dump({"property": "C16", "from": a, "to": b, "timestamp": ts, "native": got, "expected": want,
                               "solver_message": msg}, open(path, "w"), indent=1)
                    if got != f"R {want}":
                        v.failure(key, path, f"DateTime::<{a}>::new({ts}).into_unit::<{b}>() natively gives '{got}', expected {want}")
                    else:
                        v.inconcl(f"into_unit {a}->{b}: solver counterexample ts={ts} does not reproduce natively; case {path}")
                if not fails and not unk:
                    v.nontrivial += 1
        log(f"  [M] into_unit: 16 unit pairs over the full i64 range, {E.solver.queries} queries, {bad_pairs} failing pairs")
        calendar_part(v, E)
        v.bounds.append("Engine M: timestamps over the whole i64 range (SMT Int with range constraint), all 16 pairs")
    except (M.ExecError, MirError) as e:
        v.inconcl(f"cannot encode DateTime::into_unit: {e}")
    finally:
        v.solver_time += E.solver.time
        v.engines["mir2smt"] = {"solver": "z3 4.8.12 (LIA)", "queries": E.solver.queries, "answers": E.solver.stats}
        E.close()

def calendar_part(v, E):
    """calendar field getters and the round trip through the calendar type, chrono replaced by its calendar contract"""
    import json, os, random
    from mir_engine import time_ops as T
    from common import REPLAYS, ensure_dir, log, seed
    G = T.find_getters(E)
    v.functions.update("MIR " + G[g].name for g in T.GETTERS + ("as_cr",))
    rng = random.Random(1616 + seed())
    rt = T.calendar_roundtrip()
    if rt:
        v.inconcl("calendar model: " + rt)
    nval = nbad = 0
    for unit in T.UNITS:
        n, bad = T.validate_getters(unit, rng)
        nval += n
        v.evaluations += n
        for b in bad[:2]:
            v.inconcl("calendar model disagrees with chrono on a concrete instant: " + b)
        for name, mk in (("getters", T.check_getters), ("calendar_roundtrip", T.check_cr_roundtrip)):
            hname = f"mir_{name}_{T.SHORT[unit]}"
            dom, run, qs, V, wit = mk(E, G, unit)
            nq, fails, unk = T.ask_all(E, dom, run, qs, wit)
            v.evaluations += nq
            for u in unk[:2]:
                v.inconcl(f"{hname}: {u}")
            for msg, model in fails[:1]:
                key = f"{hname}::{msg}"
                if v.is_known(key):
                    v.note_known(key)
                    continue
                nbad += 1
                ts = T.model_ts(unit, model) if name == "getters" else int(model.get("ts", 0))
                got, want = T.native_getters(unit, ts), T.law_getters(unit, ts)
                path = os.path.join(ensure_dir(os.path.join(REPLAYS, "C16")), hname + ".json")
                json.dump({"property": "C16", "kind": "dtget", "unit": unit, "timestamp": ts, "native": got, "law": want, "solver_message": msg},
                          open(path, "w"), indent=1)
                if got != want:
                    v.failure(key, path, f"DateTime<{unit}>({ts}): year/month/day/hour/minute/second/time/round trip natively '{got}', calendar law '{want}'")
                else:
                    v.inconcl(f"{hname}: solver counterexample ts={ts} does not reproduce natively; case {path}")
            if not fails and not unk:
                v.nontrivial += 1
    log(f"  [M] calendar getters / round trip: 8 encodings, {nval} concrete timestamps compared with the real chrono, {nbad} with a new counterexample")
    v.bounds.append("Engine M calendar part: getters on every date-time of 1678..2262 at each unit (symbolic year, month, day, hour, minute, second, "
                    "fraction digits); DateTime<U> -> chrono::DateTime<Utc> -> DateTime<U> for every timestamp the calendar type can hold")
    v.assumptions.append("chrono's calendar replaced by the proleptic Gregorian day-number contract (lib/mir_engine/time_ops.py), compared with "
                         f"the real chrono getters on {nval} concrete timestamps per run")


def replay(path):
    from common import log
    if path.endswith(".json"):
        import json
        from mir_engine import time_ops as T, replay as rp
        c = json.load(open(path))
        if c.get("kind") == "dtget":
            got, want = T.native_getters(c["unit"], c["timestamp"]), T.law_getters(c["unit"], c["timestamp"])
            log(("REPRODUCED " if got != want else "passes ") + f"{path}: native '{got}', calendar law '{want}'")
            return 1 if got != want else 0
        p = rp._get()
        sh = {"Second": "s", "Millisecond": "ms", "Microsecond": "us", "Nanosecond": "ns"}
        p.stdin.write(f"into_unit {sh[c['from']]} {sh[c['to']]} {c['timestamp']}\n"); p.stdin.flush()
        got = p.stdout.readline().strip()
        bad = got != f"R {c['expected']}"
        log(("REPRODUCED " if bad else "passes ") + f"{path}: into_unit natively '{got}', expected {c['expected']}")
        return 1 if bad else 0
    res = kani_engine.run_playback_file(path, "c16,playback")
    n = 0
    for t, panicked, msg in res:
        log(f"{'REPRODUCED' if panicked else 'passes    '} {t}: {msg[:300]}")
        n += panicked
    return 1 if n else 0


MANIFEST = {
    "engine": "K+M",
    "technique": "bounded model checking (Kani/CBMC, SAT) of into_unit / NaT guards over symbolic i64 timestamps; MIR->SMT symbolic "
                 "execution of into_unit over mathematical integers (z3 LIA) for the full-range floor law, and of the calendar field getters / "
                 "the DateTime <-> chrono::DateTime round trip under chrono's calendar contract",
    "design_ref": "DESIGN.md 3/C16",
    "level_text": "CBMC decides, for every i64 timestamp (NaT laws, finer-unit law: whole representable range; floor law under CBMC: "
                  "quotients within +-2^12 with every residue; under z3 on the MIR: whole i64 range), that DateTime::into_unit for all 16 unit pairs returns NaT for NaT, "
                  "exact multiples toward finer units and the floor toward coarser units; z3 decides on the MIR that year/month/day/hour/minute/second/"
                  "time of every valid date-time of 1678..2262 are the calendar fields of its instant and that DateTime<U> -> calendar type -> "
                  "DateTime<U> is the identity wherever the calendar type can hold the instant; counterexamples are replayed natively",
    "level_note": "trusted: Kani's MIR->goto translation, CBMC, CaDiCaL; chrono's documented floor and calendar contract stands in for chrono itself "
                  "(compared with the real chrono on concrete timestamps every run)",
}

READY = True
