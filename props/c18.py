"""C18 — parsers are total and round-trip with their formatters. Engine M with the string value domain:
TimeDelta::parse is executed from its MIR on ASCII strings of concrete length with symbolic bytes."""
import itertools
import json
import os
import re
import time

import mir_engine as M
from mir_engine import smt, natives, natives_str
from mir_engine import replay as rp
from mir_engine.exec import Executor, _DIVERGE
from mir_engine.values import *
from mir_engine.mirparse import MirError
from common import log, seed, ensure_dir, REPLAYS

RULE = ("TimeDelta::parse is executed symbolically from the MIR of the current tree on every ASCII string of each concrete "
        "length B (bytes are symbolic integers 0..127; loops unroll over the concrete length, the character-class tests fork): "
        "(1) totality — every panic site reached (unwrap of a failed integer parse, slice range, arithmetic overflow, chrono range "
        "checks) yields a satisfiability query on its path condition; (2) value law — for each well-formed template (concrete "
        "signs and unit tokens, symbolic digits) z3 is asked for digits where the result is an error or months / nanoseconds "
        "differ from the sum of the terms; models are turned into strings and replayed natively")

MANIFEST = {
    "engine": "M",
    "technique": "symbolic execution of rustc MIR of TimeDelta::parse over a string domain (concrete length, symbolic ASCII bytes), "
                 "z3 (LIA) decides every panic path condition and the sum-of-terms law; symbolic execution of DateTime::strftime / "
                 "DateTime::parse from MIR over shape-concrete digit strings with chrono's format interpreter replaced by a validated contract "
                 "model, z3 decides the round-trip and no-panic queries; native replay with catch_unwind",
    "design_ref": "DESIGN.md 3/C18",
    "level_text": "for every ASCII string of length <= 4 (quick) / 6 (thorough) TimeDelta::parse returns a value or an error (no path to a "
                  "panic is satisfiable), and for every well-formed duration string built from <= 2 (quick) / 3 (thorough) terms with "
                  "1-2 digit numbers, optional sign and the ten units it returns exactly the sum of its terms; for every date-time of 1678..2262 "
                  "at the four units the text written by strftime with the default format (and with each listed format, for date-times whose "
                  "unprinted fields are zero) is accepted by DateTime::parse and yields the same timestamp, and DateTime::parse reaches no "
                  "panic on any digit string of the shape of a listed format",
    "level_note": "assumes one-line specifications of 15 std string functions (char_indices, is_ascii_digit/alphabetic, String push/clear/"
                  "as_str/is_empty, str == literal, str[a..b], str::parse::<i64>, Result::unwrap) and chrono::Duration as an exact nanosecond "
                  "count with its documented range; ASCII only (multi-byte characters outside the bound); chrono's format interpreter and calendar are "
                  "replaced by a contract model checked against the real chrono on ~2000 concrete runs per check; DateTime::parse on text not "
                  "shaped like a listed format and Time::parse are outside the claim",
}
READY = True

PARSE_FN = "timedelta::<impl at tea-time/src/timedelta.rs"
UNITS = {"ns": ("ns", 1), "us": ("ns", 1000), "ms": ("ns", 10 ** 6), "s": ("ns", 10 ** 9), "m": ("ns", 60 * 10 ** 9),
         "h": ("ns", 3600 * 10 ** 9), "d": ("ns", 86400 * 10 ** 9), "w": ("ns", 604800 * 10 ** 9), "mo": ("mo", 1), "y": ("mo", 12)}


def find_parse(E):
    c = [f for n, f in E.fns.items() if n.startswith(PARSE_FN) and n.endswith("::parse") and f.args and f.args[0][1] == "&str"
         and "TimeDelta" in f.ret]
    if len(c) != 1:
        raise ExecError(f"cannot locate TimeDelta::parse in the MIR dump ({len(c)} candidates)")
    return c[0]


def run_parse(E, fn, bytes_, bounds=None):
    ex = Executor(E.fns, E.solver, E.consts, natives_str.STR_NATIVES + natives.NATIVES, "f64")
    ex.normalizer = None
    ret = ex.exec_fn(fn, [VStr(bytes_, bounds)])
    return ex, ret


def shapes(B):
    """every way to cut B bytes into characters of UTF-8 width 1..4 (width 1: a symbolic ASCII byte; wider: the representative
    character of that width)"""
    if B == 0:
        return [[]]
    out = []
    for w in (1, 2, 3, 4):
        if w <= B:
            out += [[w] + rest for rest in shapes(B - w)]
    return out


def native_parse(txt):
    p = rp._get()
    p.stdin.write("td_parse " + txt.encode("utf-8").hex() + "\n")
    p.stdin.flush()
    return p.stdout.readline().strip()


def model_string(model, B):
    return "".join(chr(int(model.get(f"b{j}", 32))) for j in range(B))


def save(name, case):
    d = ensure_dir(os.path.join(REPLAYS, "C18"))
    path = os.path.join(d, name + ".json")
    json.dump(case, open(path, "w"), indent=1)
    return path


def totality(v, E, fn, Bmax):
    for B in range(0, Bmax + 1):
        t0 = time.time()
        q = nsites = 0
        reported = set()
        shp = shapes(B)
        for shape in shp:
            bs, dom, bounds, off, chars = [], [], {0}, 0, []
            for w in shape:
                if w == 1:
                    b = smt.var(f"b{off}", smt.INT)
                    bs.append(b)
                    dom.append(smt.and_(smt.le(smt.I0, b), smt.le(b, smt.const(127))))
                    chars.append(("a", off))
                else:
                    bs += [smt.const(x) for x in natives_str.utf8_bytes(w)]
                    chars.append(("m", w))
                off += w
                bounds.add(off)
            try:
                ex, ret = run_parse(E, fn, bs, None if all(w == 1 for w in shape) else bounds)
            except (ExecError, MirError) as e:
                v.inconcl(f"TimeDelta::parse: cannot encode at length {B} (character widths {shape}): {e}")
                return
            nsites += len(ex.obligations)
            for ob in ex.obligations:
                st, model = E.ask(dom + ex.assumptions + [ob.cond])
                q += 1
                if st == "unknown":
                    v.inconcl(f"totality: solver unknown for panic site '{ob.msg}' at length {B}")
                    continue
                if st != "sat":
                    continue
                key = f"td_parse_total::{ob.msg}"
                if key in reported:
                    continue
                reported.add(key)
                if v.is_known(key):
                    v.note_known(key)
                    continue
                txt = "".join(chr(int((model or {}).get(f"b{c[1]}", 32))) if c[0] == "a" else chr(natives_str.MULTI[c[1]]) for c in chars)
                got = native_parse(txt)
                path = save(f"total_B{B}_{len(reported)}", {"property": "C18", "kind": "totality", "input": txt,
                                                          "input_hex": txt.encode().hex(), "solver_message": ob.msg, "native": got})
                if got.startswith("PANIC"):
                    v.failure(key, path, f"TimeDelta::parse({txt!r}) panics natively: {got[6:150]}")
                else:
                    v.inconcl(f"totality: solver path to '{ob.msg}' with input {txt!r} does not panic natively ({got}); case {path}")
        v.evaluations += q
        if not reported:
            v.nontrivial += 1
        v.harness_table.append({"check": "totality", "length": B, "character_width_shapes": len(shp), "panic_sites_reached": nsites, "queries": q,
                                "wall_s": round(time.time() - t0, 2)})
        log(f"  [M] totality B={B}: {len(shp)} character-width shapes, {nsites} panic-site path conditions, {q} queries, {time.time() - t0:.1f}s"
            + (" FAIL" if reported else ""))


def templates(tier):
    """well-formed strings: 1..k terms, each [sign] D{1,2} unit — digits symbolic."""
    units = list(UNITS)
    signs = ["", "-", "+"]
    one = [(s, nd, u) for s in signs for nd in (1, 2) for u in units]
    out = [[t] for t in one]
    import random
    rng = random.Random(77 + seed())
    pairs = [[a, b] for a in one for b in one]
    out += rng.sample(pairs, 120 if tier == "quick" else 600)
    if tier == "thorough":
        triples = [[rng.choice(one), rng.choice(one), rng.choice(one)] for _ in range(300)]
        out += triples
    return out


def value_law(v, E, fn, tier):
    t0 = time.time()
    q = nt = 0
    reported = False
    for tpl in templates(tier):
        if reported:
            break
        bs, dom, terms = [], [], []
        k = 0
        for (sg, nd, u) in tpl:
            for ch in sg:
                bs.append(smt.const(ord(ch)))
            ds = []
            for _ in range(nd):
                d = smt.var(f"b{k}", smt.INT)
                k += 1
                dom.append(smt.and_(smt.le(smt.const(48), d), smt.le(d, smt.const(57))))
                bs.append(d)
                ds.append(d)
            for ch in u:
                bs.append(smt.const(ord(ch)))
            mag = smt.I0
            for d in ds:
                mag = smt.add(smt.mul(mag, smt.const(10)), smt.sub(d, smt.const(48)))
            if sg == "-":
                mag = smt.neg(mag)
            terms.append((u, mag))
        want_mo = smt.I0
        want_ns = smt.I0
        for u, mag in terms:
            kind, f = UNITS[u]
            if kind == "mo":
                want_mo = smt.add(want_mo, smt.mul(mag, smt.const(f)))
            else:
                want_ns = smt.add(want_ns, smt.mul(mag, smt.const(f)))
        try:
            ex, ret = run_parse(E, fn, bs)
        except (ExecError, MirError) as e:
            v.inconcl(f"TimeDelta::parse: cannot encode template {tpl}: {e}")
            return
        nt += 1
        checks = []
        for ob in ex.obligations:
            checks.append((ob.cond, "well-formed duration string makes the parser panic: " + ob.msg))
        if ret is _DIVERGE or not isinstance(ret, VRes):
            checks.append((smt.TRUE, "well-formed duration string: no path returns a value"))
        else:
            checks.append((smt.not_(ret.ok), "well-formed duration string is rejected"))
            if ret.val is not None:
                mo = ret.val.items[0].t
                ns = ret.val.items[1].items[0].t
                checks.append((smt.and_(ret.ok, smt.ne(mo, want_mo)), "months differ from the sum of the mo/y terms"))
                checks.append((smt.and_(ret.ok, smt.ne(ns, want_ns)), "fixed part differs from the sum of the ns..w terms"))
        for bad, msg in checks:
            st, model = E.ask(dom + ex.assumptions + [bad])
            q += 1
            if st == "unknown":
                v.inconcl(f"value law: solver unknown for template {tpl}")
                continue
            if st != "sat":
                continue
            key = f"td_parse_value::{msg}"
            if v.is_known(key):
                v.note_known(key)
                continue
            txt = "".join(chr(int(b.val)) if b.is_const else chr(int(model.get(b.val, 48))) for b in bs)
            got = native_parse(txt)
            emo = smt.evaluate(want_mo, {kk: int(vv) for kk, vv in (model or {}).items()} | {f"b{j}": int((model or {}).get(f"b{j}", 48)) for j in range(k)})
            ens = smt.evaluate(want_ns, {f"b{j}": int((model or {}).get(f"b{j}", 48)) for j in range(k)})
            path = save(f"value_{nt}", {"property": "C18", "kind": "value", "input": txt, "input_hex": txt.encode().hex(),
                                        "expected_months": int(emo), "expected_ns": int(ens), "native": got, "solver_message": msg})
            if got != f"OK {int(emo)} {int(ens)}":
                v.failure(key, path, f"TimeDelta::parse({txt!r}) natively gives '{got[:100]}', sum of terms is months={int(emo)} ns={int(ens)}")
            else:
                v.inconcl(f"value law: solver counterexample {txt!r} does not reproduce natively; case {path}")
            reported = True
            break
    v.evaluations += q
    if q and not reported:
        v.nontrivial += 1
    v.harness_table.append({"check": "value law", "templates": nt, "queries": q, "wall_s": round(time.time() - t0, 2)})
    log(f"  [M] value law: {nt} templates, {q} queries, {time.time() - t0:.1f}s" + (" FAIL" if reported else ""))


def validate_translator(v, E, fn):
    """repository test strings + a few malformed ones through both the encoding (constant bytes) and the native code."""
    cases = ["1y2mo3d4h5m6s", "2y1mo-3d5h-2m3s", "3d", "15ms", "7w", "100ns", "", "5", "1x", "1d2", "-4h", "+2us", "12mo1y", "3s4",
             "\u00e9", "1d\u00e9", "\u20ac3h", "1\u00e9", "2w\U0001f600", "1d\u00e92h", "\u00e9\u00e9", "5m\u20ac"]
    n = 0
    for txt in cases:
        try:
            bounds, off = {0}, 0
            for ch in txt:
                off += len(ch.encode())
                bounds.add(off)
            ex, ret = run_parse(E, fn, [smt.const(b) for b in txt.encode()], None if txt.isascii() else bounds)
        except (ExecError, MirError) as e:
            v.inconcl(f"translator validation: cannot execute parse({txt!r}): {e}")
            return n
        got = native_parse(txt)
        panics = any(ob.cond.is_const and ob.cond.val for ob in ex.obligations)
        if got.startswith("PANIC"):
            enc = "PANIC"
        elif panics:
            enc = "PANIC"
        elif ret is _DIVERGE:
            enc = "PANIC"
        elif ret.ok.is_const and not ret.ok.val:
            enc = "ERR"
        else:
            enc = f"OK {ret.val.items[0].t.val} {ret.val.items[1].items[0].t.val}"
        if enc != (got if not got.startswith("PANIC") else "PANIC"):
            v.inconcl(f"translator validation: encoding says {enc!r}, native says {got!r} for input {txt!r}")
            return n
        n += 1
    return n


def check(v, tier, opts):
    E = M.Engine(["tea-time"])
    v.engines["mir2smt"] = {"rustc": "nightly -Zunpretty=mir", "solver": "z3 4.8.12", "mir_dump_s": round(E.dump_s, 1)}
    try:
        fn = find_parse(E)
        v.functions.add("tea_time::TimeDelta::parse (MIR " + fn.name + ")")
        n = validate_translator(v, E, fn)
        log(f"[C18] translator validation: {n} concrete strings agree between encoding and native code")
        totality(v, E, fn, 4 if tier == "quick" else 6)
        value_law(v, E, fn, tier)
    except (ExecError, MirError) as e:
        v.inconcl(f"cannot encode TimeDelta::parse: {e}")
    try:
        if not opts.get("only") or "datetime" in opts.get("only"):
            datetime_text(v, E, tier)
    except (ExecError, MirError) as e:
        v.inconcl(f"cannot encode DateTime::strftime / DateTime::parse: {e}")
    finally:
        v.solver_time += E.solver.time
        v.engines["mir2smt"].update({"queries": E.solver.queries, "answers": E.solver.stats})
        E.close()
    v.bounds += ["totality: every string of 0..=4 (quick) / 0..=6 (thorough) bytes made of ASCII bytes (0..127, symbolic) and multi-byte "
                 "characters in every arrangement of UTF-8 widths, one representative character per width (U+00E9, U+20AC, U+1F600)",
                 "value law: 60 one-term templates + 120 (quick) / 600 (thorough) seeded two-term + 300 three-term (thorough) templates; "
                 "numbers of 1-2 symbolic digits, sign in {none,-,+}, all ten units"]
    v.assumptions += ["std string function specifications (15 one-liners in lib/mir_engine/natives_str.py)",
                      "chrono::Duration == exact nanosecond count within +-i64::MAX milliseconds; seconds()/nanoseconds()/+ per chrono docs"]
    v.outside += ["chrono's own parsers and format interpreter (panic-freedom of chrono itself on arbitrary bytes is assumed; its behaviour is "
                  "the contract model of chrono_fmt.py for format-shaped text and an arbitrary result otherwise)",
                  "multi-byte characters other than the three representatives (the parser only tests ASCII classes)", "strings longer than the bound; numbers with more than 18 digits"]
    v.samples.append({"check": "totality", "length": 2, "query": "exists b0,b1 in 0..127: path condition of `unwrap` on Err of str::parse::<i64>(s[0..1])"})
    return v.finish(RULE + DT_RULE)


DT_RULE = ("; DateTime<U>::strftime and DateTime<U>::parse are executed from their MIR for each of the four units with chrono's format "
           "interpreter replaced by a contract model (format items, scan::number, Parsed range checks, proleptic Gregorian calendar): (3) "
           "round trip — z3 is asked for a date-time of 1678..2262 (symbolic year, month, day, hour, minute, second and fraction digits) "
           "whose default-format text, or whose text in a listed format that prints all its non-zero fields, is rejected or parses to "
           "another instant; (4) totality on templates — every digit string of the shape of each listed format, parsed under the rule "
           "list and under that format: no satisfiable path to a panic; (5) any string: chrono's parsers abstracted to an arbitrary result, "
           "no panic in tevec's code after them (DateTime::parse, Time::parse); the model is first compared with the real chrono on concrete texts")


def datetime_text(v, E, tier):
    import random
    from mir_engine import time_ops as T
    tf = T.find_text_fns(E)
    rules = T.rule_list(E)
    v.functions.update(["tea_time::DateTime::strftime (MIR " + tf["strftime"].name + ")", "tea_time::DateTime::parse (MIR " + tf["parse"].name + ")",
                        "tea_time TIME_RULE_VEC (read from the MIR), From<NaiveDateTime> / From<NaiveDate> / From<chrono::DateTime<Utc>> for DateTime<U>"])
    rng = random.Random(1818 + seed())
    nval = 0
    for unit in T.UNITS:
        n, bad = T.validate_text(E, tf, unit, rules, rng)
        nval += n
        v.evaluations += n
        for b in bad[:3]:
            v.inconcl("format model disagrees with the real code + real chrono on a concrete text: " + b)
    log(f"  [M] format-model validation: {nval} concrete format / parse runs compared with the real chrono")
    CL = {"Second": ["zero"], "Millisecond": ["zero", "milli"], "Microsecond": ["zero", "milli", "micro"],
          "Nanosecond": ["zero", "milli", "micro", "nano"]}
    t0 = time.time()
    nrt = nbad = 0
    for unit in T.UNITS:
        fmts = [None] + (rules if (tier == "thorough" or unit == "Millisecond") else [])
        for fmt in fmts:
            classes = CL[unit] if (fmt is None or "nano" in T.printed_fields(fmt)) else ["zero"]
            if tier == "quick" and fmt is not None:
                classes = classes[-1:]
            for cls in classes:
                hname = f"dt_roundtrip_{T.SHORT[unit]}_{'default' if fmt is None else rules.index(fmt)}_{cls}"
                try:
                    dom, run, qs, V, wit, n, gaps = T.check_text_roundtrip(E, tf, unit, cls, fmt)
                except ExecError as e:
                    v.inconcl(f"{hname}: cannot encode ({e})")
                    continue
                nq, fails, unk = T.ask_all(E, dom, run, qs, wit)
                for c, w in gaps:
                    nq += 1
                    if E.ask(dom + run.ex.assumptions + [c])[0] != "unsat":
                        unk.append("outside the format model but reachable: " + w)
                v.evaluations += nq
                nrt += 1
                for u in unk[:2]:
                    v.inconcl(f"{hname}: {u}")
                for msg, model in fails[:1]:
                    key = f"{hname}::{msg}"
                    if v.is_known(key):
                        v.note_known(key)
                        continue
                    nbad += 1
                    ts = T.model_ts(unit, model)
                    txt, got = T.native_text(unit, ts, fmt)
                    path = save(hname, {"property": "C18", "kind": "dt_roundtrip", "unit": unit, "timestamp": ts, "format": fmt,
                                        "native_text": txt, "native_parse": got, "solver_message": msg})
                    if got != f"R {ts}":
                        v.failure(key, path, f"DateTime<{unit}>({ts}).strftime({fmt!r}) = {txt!r} parses back to '{got[:80]}'")
                    else:
                        v.inconcl(f"{hname}: solver counterexample ts={ts} does not reproduce natively; case {path}")
                if not fails and not unk:
                    v.nontrivial += 1
    log(f"  [M] date-time text round trip: {nrt} (unit, format, fraction class) encodings, {nbad} with a new counterexample, {time.time() - t0:.1f}s")
    t0 = time.time()
    ntot = nbad = 0
    for unit in T.UNITS:
        for i, fmt in enumerate(rules):
            for wl in (True, False):
                if tier == "quick" and not wl and unit not in ("Nanosecond",):
                    continue
                hname = f"dt_parse_total_{T.SHORT[unit]}_{i}_{'rules' if wl else 'own'}"
                try:
                    dom, run, qs, dv, bs = T.check_parse_total(E, tf, unit, fmt, wl)
                except ExecError as e:
                    v.inconcl(f"{hname}: cannot encode ({e})")
                    continue
                nq, fails, unk = T.ask_all(E, dom, run, qs)
                v.evaluations += nq + 1
                ntot += 1
                for u in unk[:2]:
                    v.inconcl(f"{hname}: {u}")
                for msg, model in fails[:1]:
                    key = f"{hname}::{msg}"
                    if v.is_known(key):
                        v.note_known(key)
                        continue
                    nbad += 1
                    txt = T.template_text(bs, model)
                    got = T.native_parse(unit, None if wl else fmt, txt)
                    path = save(hname, {"property": "C18", "kind": "dt_parse", "unit": unit, "format": None if wl else fmt, "input": txt,
                                        "native": got, "solver_message": msg})
                    if got.startswith("PANIC"):
                        v.failure(key, path, f"DateTime::<{unit}>::parse({txt!r}, {None if wl else fmt!r}) panics: {got[6:120]}")
                    else:
                        v.inconcl(f"{hname}: solver path to a panic with input {txt!r} does not panic natively ({got}); case {path}")
                if not fails and not unk:
                    v.nontrivial += 1
    log(f"  [M] DateTime::parse totality on format-shaped digit strings: {ntot} (unit, format, mode) encodings, {nbad} with a new counterexample, {time.time() - t0:.1f}s")
    # (5) whatever chrono's parsers return: no panic in tevec's own code after them (any string, any format)
    t0 = time.time()
    nabs = nbad = 0
    for unit in T.UNITS:
        for wf in (False, True):
            hname = f"dt_parse_any_{T.SHORT[unit]}_{'fmt' if wf else 'rules'}"
            try:
                dom, run, qs, res, wit = T.check_parse_abstract(E, tf, unit, wf)
            except ExecError as e:
                v.inconcl(f"{hname}: cannot encode ({e})")
                continue
            nq, fails, unk = T.ask_all(E, dom, run, qs, wit)
            v.evaluations += nq
            nabs += 1
            for u in unk[:2]:
                v.inconcl(f"{hname}: {u}")
            for msg, model in fails[:1]:
                key = f"{hname}::{msg}"
                if v.is_known(key):
                    v.note_known(key)
                    continue
                nbad += 1
                from fractions import Fraction
                txt = None
                for k in range(1, 40):
                    if model and model.get(f"p{k}_ok") in (True, "true") and f"p{k}_y" in model:
                        y_, m_, d_ = (int(Fraction(model[f"p{k}_{n}"])) for n in ("y", "m", "d"))
                        tod = int(Fraction(model.get(f"p{k}_tod", 0)))
                        if 0 <= y_ <= 9999:
                            txt = f"{y_:04d}-{m_:02d}-{d_:02d}" + (f" {tod // 3600_000_000_000 % 24:02d}:{tod // 60_000_000_000 % 60:02d}:{tod // 10**9 % 60:02d}" if f"p{k}_tod" in model else "")
                        break
                got = T.native_parse(unit, "%Y-%m-%d %H:%M:%S" if (wf and txt and " " in txt) else ("%Y-%m-%d" if wf else None), txt) if txt else "no text for the model"
                path = save(hname, {"property": "C18", "kind": "dt_parse", "unit": unit, "format": ("%Y-%m-%d %H:%M:%S" if (wf and txt and " " in txt) else ("%Y-%m-%d" if wf else None)),
                                    "input": txt or "", "native": got, "solver_message": msg})
                if got.startswith("PANIC"):
                    v.failure(key, path, f"DateTime::<{unit}>::parse({txt!r}) panics: {got[6:120]}")
                else:
                    v.inconcl(f"{hname}: abstract counterexample ({msg}) not reproduced natively with text {txt!r} ({got}); case {path}")
            if not fails and not unk:
                v.nontrivial += 1
    try:
        tfn = T.find_time_parse(E)
        v.functions.add("tea_time::Time::parse (MIR " + tfn.name + ")")
        for wf in (False, True):
            hname = f"time_parse_any_{'fmt' if wf else 'default'}"
            dom, run, qs, res, wit = T.check_time_parse_abstract(E, tfn, wf)
            nq, fails, unk = T.ask_all(E, dom, run, qs, wit)
            v.evaluations += nq
            nabs += 1
            for u in unk[:2]:
                v.inconcl(f"{hname}: {u}")
            for msg, model in fails[:1]:
                key = f"{hname}::{msg}"
                if v.is_known(key):
                    v.note_known(key)
                else:
                    nbad += 1
                    v.inconcl(f"{hname}: {msg} (abstract counterexample {model}; no native replay for abstract NaiveTime values)")
            if not fails and not unk:
                v.nontrivial += 1
    except ExecError as e:
        v.inconcl(f"Time::parse: cannot encode ({e})")
    log(f"  [M] parse totality with chrono's parsers abstracted (any string, any format): {nabs} encodings, {nbad} with a counterexample, {time.time() - t0:.1f}s")
    v.bounds.append("DateTime::<U>::parse (4 units, rule list and explicit format) and Time::parse on ANY string: chrono's parse_from_str / "
                    "FromStr abstracted to `Err or Ok(any value of the type's range)` with fresh symbols per call — no panic in tevec's code "
                    "after the call, and Time::parse's result stays within a day (plus a leap second)")
    v.bounds += ["date-time round trip: every date-time of 1678-01-01 .. 2262-01-01 at each unit; default format: every fraction class of the unit; "
                 "listed formats: date-times whose fields the format does not print are zero; quick: all listed formats for the ms unit "
                 "(largest fraction class), thorough: all units and classes",
                 "DateTime::parse totality: every digit string of the shape of each of the listed formats (field widths as printed), seconds "
                 "field below 60; quick: under the rule list for all units, under the format itself for ns; thorough: both for all units"]
    v.assumptions += ["chrono's strftime / parse_from_str replaced by the contract model lib/mir_engine/chrono_fmt.py (specifiers %Y %y %m %d %H %M %S %f "
                      "%.f %.3f %.6f %.9f %3f %6f %9f %T %F %D %R, literals, whitespace; scan::number greedy up to the field width; Parsed range "
                      f"checks; second 60 excluded), compared with the real chrono on {nval} concrete format / parse runs per check run"]


def replay_file(path):
    c = json.load(open(path))
    if c["kind"] in ("dt_roundtrip", "dt_parse"):
        from mir_engine import time_ops as T
        if c["kind"] == "dt_roundtrip":
            txt, got = T.native_text(c["unit"], c["timestamp"], c["format"])
            bad = got != f"R {c['timestamp']}"
            log(("REPRODUCED " if bad else "passes ") + f"{path}: DateTime<{c['unit']}>({c['timestamp']}) -> {txt!r} -> {got}")
        else:
            got = T.native_parse(c["unit"], c["format"], c["input"])
            bad = got.startswith("PANIC")
            log(("REPRODUCED " if bad else "passes ") + f"{path}: DateTime::<{c['unit']}>::parse({c['input']!r}, {c['format']!r}) -> {got}")
        return 1 if bad else 0
    got = native_parse(c["input"])
    if c["kind"] == "totality":
        bad = got.startswith("PANIC")
    else:
        bad = got != f"OK {c['expected_months']} {c['expected_ns']}"
    log(("REPRODUCED " if bad else "passes ") + f"{path}: parse({c['input']!r}) -> {got}")
    return 1 if bad else 0


def replay(path):
    return replay_file(path)
