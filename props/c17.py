"""C17 — date-time, duration and time-of-day arithmetic obeys its inverse laws. Engine K (the part Kani can reach)."""
import kani_engine

RULE = ("one Kani harness per law (and per block of seconds of the day for the Time <-> calendar laws); operands are "
        "kani::any() over the stated ranges; a harness is non-trivial when all its kani::cover! witnesses are SATISFIED")

MANIFEST = {
    "engine": "K+M",
    "technique": "bounded model checking (Kani/CBMC, SAT) of tea-time's Time constructors/getters, Time +- TimeDelta and the "
                 "TimeDelta operators with chrono::Duration's (secs, nanos) arithmetic executed for real; month dispatch with "
                 "chrono's checked_add_months/checked_sub_months replaced by recorders; MIR->SMT symbolic execution of DateTime +- TimeDelta, "
                 "DateTime - DateTime and DateTime::duration_trunc over mathematical integers with chrono replaced by its documented instant / "
                 "calendar contract (validated against the real chrono each run), decided by z3 (LIA)",
    "design_ref": "DESIGN.md 3/C17",
    "level_text": "CBMC decides: (1) TimeDelta +, -, unary -, * i32 satisfy a+b-b=a, a-b+b=a, a-b=a+(-b), a+(-a)=0, -(-a)=a, a+0=a, "
                  "associativity and commutativity for all |months|<=1200, |secs|<=2^40 (2^50 thorough) and every sub-second part; "
                  "their results are the exact normal-form values (sum/difference/negation with carry, a*k for |k|<=8 and |secs|<=2^40 "
                  "as secs*k + floor(nanos*k/1e9), (nanos*k) mod 1e9); direct distributivity (a+b)*k=a*k+b*k for |k|<=8 on |secs|<=64 "
                  "with sub-second part 0 or 0.5 s (thorough: whole seconds up to 2^20); "
                  "(2) all five Time constructors build (h*3600+m*60+s)*1e9+sub for every in-range component; a time built from "
                  "(h,m,s,nano) reports exactly these through hour()/minute()/second()/nanosecond() and NaiveTime->Time->NaiveTime is "
                  "the identity for every nanosecond of the first, the middle (around noon) and the last 2048 seconds of the day (thorough: the whole day in "
                  "twelve 2-hour blocks); Time->NaiveTime->Time is the identity for every nanosecond of the whole day; "
                  "(3) Time +- month-free TimeDelta is exact i64 nanosecond arithmetic for every time of day, |duration| <= 86400 s "
                  "(every sub-second part, both signs) whenever the result is inside the day, and (t+d)-d = t, (t-d)+d = t; "
                  "(4) DateTime<U> +- TimeDelta with months != 0 makes exactly one chrono Months call, forward shifts add and backward "
                  "shifts subtract |months|, for every non-zero valid i32 month count (one concrete instant per unit); "
                  "(5) z3 decides on the MIR, for every date-time of 1678..2262 at the four units: t +- d is the floor of the exact instant for every "
                  "month-free d, (t + d) - d = t and (t - d) + d = t for d a whole number of units, a - b exact and (a - b) + b = a, truncation to "
                  "7 (13 thorough) month-free spans is the greatest multiple not after t, t +- n months is the calendar shift with end-of-month "
                  "clamping for every n in -1200..1200, truncation to 1/2/3/4/6/12 months is the first instant of the period, no panic; "
                  "counterexamples are replayed natively",
    "level_note": "trusted: Kani's MIR->goto translation, CBMC, CaDiCaL / Kissat (selected per harness); chrono::Duration's documented meaning (secs*1e9+nanos, "
                  "0<=nanos<1e9); for (5) chrono's documented contract (instants and durations as integers of nanoseconds, floor "
                  "conversions, proleptic Gregorian calendar, Months clamping, DurationRound) stands in for chrono and is compared with the real chrono "
                  "on ~1900 concrete operand sets per run; symbolic truncation spans and durations with both month and sub-month parts are outside",
}


def check(v, tier, opts):
    v.functions.update([
        "tea_time::Time::{from_hms,from_hms_milli,from_hms_micro,from_hms_nano,from_num_seconds_from_midnight,as_cr,from_cr}",
        "<tea_time::Time as chrono::Timelike>::{hour,minute,second,nanosecond}",
        "<Time as Add<TimeDelta>>::add, <Time as Sub<TimeDelta>>::sub",
        "<TimeDelta as Add>::add, <TimeDelta as Sub>::sub, <TimeDelta as Neg>::neg, <TimeDelta as Mul<i32>>::mul",
        "month dispatch branch of <DateTime<U> as Add<TimeDelta>>::add / <DateTime<U> as Sub<TimeDelta>>::sub (4 units)",
        "chrono::TimeDelta::{new,checked_add,checked_sub,checked_mul,neg,num_seconds,subsec_nanos,num_nanoseconds} (executed, not stubbed)",
    ])
    v.bounds.append("TimeDelta group laws: |months| <= 1200, |secs| <= 2^40 quick / 2^50 thorough, 0 <= nanos < 1e9 (all)")
    v.bounds.append("TimeDelta * k: |k| <= 8, |secs| <= 2^40 (value law); direct distributivity |secs| <= 64 with sub-second "
                    "part in {0, 0.5 s} (quick), plus whole seconds |secs| <= 2^20 (thorough)")
    v.bounds.append("Time constructors: every h<24, m<60, s<60 and every in-range milli/micro/nano part (value laws, whole day)")
    v.bounds.append("Time -> NaiveTime -> Time: every nanosecond of the whole day (twelve 2-hour blocks); Time getters and NaiveTime -> "
                    "Time -> NaiveTime: every nanosecond of seconds-of-day 0..2048, 42176..44224 and 84352..86400 (quick), whole day in twelve "
                    "2-hour blocks (thorough) — SAT cost of the division by 1e9 grows with the number of seconds")
    v.bounds.append("Time +- TimeDelta: every time of day 0..86400 s (every ns), month-free durations with |secs| <= 86400 and every "
                    "sub-second part, asserted when the exact result lies inside the day")
    v.bounds.append("month dispatch: months any i32 except 0 and i32::MIN (NaT); instant concrete (one per unit, two of them before "
                    "1970), sub-month part zero")
    v.assumptions.append("oracle shape: a duration's length is written with one multiplication by 1e9 of the same shape chrono uses "
                         "((secs+1)*1e9 - (1e9-nanos) for negative fractional durations = secs*1e9 + nanos); SAT cannot prove the "
                         "constant multiplier distributive (pure lemma: no answer in 300 s)")
    v.assumptions.append("a*k value law + a+b value law + uniqueness of the normal form (0 <= nanos < 1e9) imply distributivity for the "
                         "wide operand range; only the small-domain direct form is decided by the solver")
    v.stubs.add("chrono::DateTime::checked_add_months / checked_sub_months -> recorders returning the date-time unchanged "
                "(c17_month_dispatch_* only)")
    v.outside.append("chrono's own implementation of Months arithmetic, DurationRound and the timestamp conversions: replaced by their "
                     "documented contract in Engine M (validated against the real chrono on concrete operands each run), executed "
                     "for real only in the Kani part (Duration arithmetic, NaiveTime)")
    v.outside.append("TimeDelta / TimeDelta -> i32 (not in the statement; panics by design on NaT or mismatching month/time quotients)")
    v.outside.append("Time values outside 0..86400 s: Time +- TimeDelta neither wraps nor saturates nor yields NaT (plain i64 "
                     "addition); as_cr() of such a value is None and the Timelike getters panic — witnessed, no law asserted")
    v.outside.append("durations with every combination of the ten textual units: TimeDelta::parse belongs to C18; operands here are "
                     "built from (months, secs, nanos) directly")
    kani_engine.decide(v, "C17", tier, opts)
    if not opts.get("only") or "mir" in opts.get("only"):
        m_part(v, tier)
    return v.finish(RULE + M_RULE)


M_RULE = ("; Engine M: DateTime<U> + TimeDelta, DateTime<U> - TimeDelta, DateTime<U> - DateTime<U> and DateTime<U>::duration_trunc "
          "(month-free) executed from their MIR for each of the four units with chrono replaced by its documented contract on "
          "integer instants; z3 (LIA) asked for operands in 1678..2262 that violate the value law, the inverse law or reach a panic; "
          "every (operator, unit) needs its vacuity witnesses satisfiable; the encoding (MIR + contract) is first run on concrete "
          "operands against the real code linked with the real chrono")


def _model_int(model, name):
    from fractions import Fraction
    x = (model or {}).get(name, 0)
    return int(Fraction(x)) if not isinstance(x, int) else x


def m_part(v, tier):
    import json, os, random
    import mir_engine as M
    from mir_engine import time_ops as T
    from mir_engine.mirparse import MirError
    from common import REPLAYS, ensure_dir, log, seed
    E = M.Engine(["tea-time"])
    try:
        ops = T.find_ops(E)
        v.functions.update("MIR " + f.name for f in ops.values())
        v.functions.add("MIR tea-time impl_datetime.rs TryFrom<DateTime<U>> for chrono::DateTime<Utc> / From<chrono::DateTime<Utc>> "
                        "for DateTime<U> (4 units each), DateTime::{is_nat,is_not_nat,nat,new,as_cr}, TimeDelta::{is_not_nat,nat}")
        rng = random.Random(1717 + seed())
        rt = T.calendar_roundtrip()
        v.evaluations += 1
        if rt:
            v.inconcl("calendar model: " + rt)
        nval, agree = 0, True
        for unit in T.UNITS:
            n, bad = T.validate(E, ops, unit, rng)
            nval += n
            v.evaluations += n
            for b in bad[:3]:
                agree = False
                v.inconcl("encoding (MIR + chrono contract) disagrees with the real code on concrete operands: " + b)
        log(f"  [M] contract validation: {nval} concrete operand sets agree with the real code + real chrono: {agree}")
        spans = T.SPANS if tier == "thorough" else [s for s in T.SPANS if s[0] in ("250ns", "1us", "7ms", "1s", "15m", "1d", "1w")]
        jobs = []
        for unit in T.UNITS:
            jobs += [(unit, f"{first}_then_{'sub' if first == 'add' else 'add'}", (lambda u=unit, f=first: T.check_add_sub(E, ops, u, f)))
                     for first in ("add", "sub")]
            jobs.append((unit, "diff_then_add", (lambda u=unit: T.check_diff(E, ops, u))))
            jobs += [(unit, "trunc_" + nm, (lambda u=unit, sp=sp: T.check_trunc(E, ops, u, sp))) for nm, sp in spans]
            jobs += [(unit, f"months_{op}", (lambda u=unit, op=op: T.check_month_shift(E, ops, u, op))) for op in ("add", "sub")]
            jobs += [(unit, f"mtrunc_{dm}mo", (lambda u=unit, dm=dm: T.check_month_trunc(E, ops, u, dm))) for dm in (1, 2, 3, 4, 6, 12)]
        nbad = 0
        for unit, name, mk in jobs:
            hname = f"mir_{name}_{T.SHORT[unit]}"
            dom, run, qs, vs, wit = mk()
            n, fails, unk = T.ask_all(E, dom, run, qs, wit)
            v.evaluations += n
            for u in unk:
                v.inconcl(f"{hname}: {u}")
            reported = 0
            for msg, model in fails:
                key = f"{hname}::{msg}"
                if v.is_known(key):
                    v.note_known(key)
                    continue
                if reported >= 1:
                    continue
                reported += 1
                nbad += 1
                u = T.UNITS[unit][1]
                if name.startswith(("add_", "sub_")):
                    t = _model_int(model, "t"); d = _model_int(model, "k") * u + _model_int(model, "r")
                    first = name[:3]
                    calls = [(first, (t, 0, d)), (first + ("sub" if first == "add" else "add"), (t, 0, d))]
                elif name.startswith(("months_", "mtrunc_")):
                    y_, m_, d_, w_ = (_model_int(model, k) for k in "ymdw")
                    t = T._days_from_civil(y_, m_, d_) * (T.NS_DAY // u) + w_
                    if name.startswith("months_"):
                        calls = [(name[7:], (t, _model_int(model, "n"), 0))]
                    else:
                        calls = [("trunc", (t, int(name[7:-2]), 0))]
                elif name.startswith("diff"):
                    a, b = _model_int(model, "a"), _model_int(model, "b")
                    calls = [("diff", (a, b)), ("diffadd", (a, b))]
                else:
                    sp = dict(T.SPANS)[name[6:]]
                    calls = [("trunc", (_model_int(model, "t"), 0, sp))]
                rec = {"property": "C17", "kind": "dtop", "unit": unit, "solver_message": msg, "calls": []}
                deviates = None
                for op, nums in calls:
                    got, want = T.native_dtop(op, unit, *nums), T.law_value(op, unit, *nums)
                    rec["calls"].append({"op": op, "operands": list(nums), "native": got, "law": want})
                    if want is not None and got != "R " + want and deviates is None:
                        deviates = f"DateTime<{unit}> {op} {nums} natively gives '{got[:100]}', the law gives {want}"
                d_ = ensure_dir(os.path.join(REPLAYS, "C17"))
                path = os.path.join(d_, hname + ".json")
                json.dump(rec, open(path, "w"), indent=1)
                if deviates:
                    v.failure(key, path, deviates)
                else:
                    v.inconcl(f"{hname}: solver counterexample ({msg}) does not reproduce natively; case {path}")
            if not fails and not unk:
                v.nontrivial += 1
        log(f"  [M] date-time operators under the chrono contract: {len(jobs)} (operator, unit) encodings, {nbad} with a new counterexample")
        v.bounds.append("Engine M: every timestamp whose instant lies in 1678-01-01 .. 2262-01-01 (the property's range) at each of the "
                        "four units; month-free durations of any size and sign keeping the shifted instant in that range (value law: every "
                        "duration; inverse law: durations that are a whole number of the date-time's unit); differences of any two instants "
                        "of the range; truncation to the listed month-free spans (quick: 250ns 1us 7ms 1s 15m 1d 1w; thorough adds 1ns 1ms "
                        "90s 1m 1h 36500d) with the truncated instant itself inside the range; month shifts: every date-time of the "
                        "range (given by symbolic year, month, day and within-day part), every month count -1200..1200 except 0, no "
                        "sub-month part, result inside the range; month truncation: every date-time of the range, period lengths "
                        "1, 2, 3, 4, 6 and 12 months, no sub-month part")
        v.assumptions.append("chrono's documented contract stands in for chrono (instants/durations as integers of nanoseconds; from_timestamp* "
                             "Some inside chrono's range; timestamp*() floor; DateTime +- TimeDelta exact, panicking outside chrono's range; "
                             "DurationRound::duration_trunc = t - (t mod span) with Err for span <= 0 or values beyond i64 ns); validated on "
                             f"{nval} concrete operand sets per run against the real chrono linked into /verif/replay")
        v.outside.append("(t + d) - d for a duration that is not a whole number of the date-time's unit: DateTime<Second>(100) + 500ms is "
                         "floored to 100 and - 500ms then gives 99 — no resolution-limited type can return the original instant there; the "
                         "value law (floor of the exact instant) is what is decided for such durations")
        v.assumptions.append("calendar contract: chrono's dates are the proleptic Gregorian calendar (days-from-civil / civil-from-days with "
                             "floor divisions), `DateTime +- Months` moves whole calendar months and clamps the day to the length of the "
                             "target month, year_ce/year/month/month0/day/with_day/with_time/with_month/with_year as documented; "
                             "the day-number bijection is checked for every day of 1677..2263 in plain integers on every run, and the "
                             "encoding is compared with the real chrono on end-of-month and leap-day operands")
        v.outside.append("truncation spans other than the listed constants (a symbolic span makes `t mod span` non-linear); durations "
                         "carrying both a month part and a sub-month part (the statement has no law for them); month truncation by "
                         "period lengths that do not divide 12")
    except (M.ExecError, MirError) as e:
        v.inconcl(f"cannot encode the date-time operators: {e}")
    finally:
        v.solver_time += E.solver.time
        v.engines["mir2smt"] = {"solver": "z3 4.8.12 (LIA)", "queries": E.solver.queries, "answers": E.solver.stats}
        E.close()


def replay(path):
    from common import log
    if path.endswith(".json"):
        import json
        from mir_engine import time_ops as T
        rec = json.load(open(path))
        bad = 0
        for c in rec["calls"]:
            got, want = T.native_dtop(c["op"], rec["unit"], *c["operands"]), c["law"]
            dev = want is not None and got != "R " + want
            log(f"{'REPRODUCED' if dev else 'passes    '} DateTime<{rec['unit']}> {c['op']} {c['operands']}: native '{got[:120]}', law {want}")
            bad += dev
        return 1 if bad else 0
    res = kani_engine.run_playback_file(path, "c17,playback")
    n = 0
    for t, panicked, msg in res:
        log(f"{'REPRODUCED' if panicked else 'passes    '} {t}: {msg[:300]}")
        n += panicked
    return 1 if n else 0

READY = True
