"""C17 — date-time, duration and time-of-day arithmetic obeys its inverse laws. Engine K (the part Kani can reach)."""
import kani_engine

RULE = ("one Kani harness per law (and per block of seconds of the day for the Time <-> calendar laws); operands are "
        "kani::any() over the stated ranges; a harness is non-trivial when all its kani::cover! witnesses are SATISFIED")

MANIFEST = {
    "engine": "K",
    "technique": "bounded model checking (Kani/CBMC, SAT) of tea-time's Time constructors/getters, Time +- TimeDelta and the "
                 "TimeDelta operators with chrono::Duration's (secs, nanos) arithmetic executed for real; month dispatch with "
                 "chrono's checked_add_months/checked_sub_months replaced by recorders",
    "design_ref": "DESIGN.md 3/C17",
    "level_text": "CBMC decides: (1) TimeDelta +, -, unary -, * i32 satisfy a+b-b=a, a-b+b=a, a-b=a+(-b), a+(-a)=0, -(-a)=a, a+0=a, "
                  "associativity and commutativity for all |months|<=1200, |secs|<=2^40 (2^50 thorough) and every sub-second part; "
                  "their results are the exact normal-form values (sum/difference/negation with carry, a*k for |k|<=8 and |secs|<=2^40 "
                  "as secs*k + floor(nanos*k/1e9), (nanos*k) mod 1e9); direct distributivity (a+b)*k=a*k+b*k for |k|<=8 on |secs|<=64 "
                  "with sub-second part 0 or 0.5 s (thorough: whole seconds up to 2^20); "
                  "(2) all five Time constructors build (h*3600+m*60+s)*1e9+sub for every in-range component; a time built from "
                  "(h,m,s,nano) reports exactly these through hour()/minute()/second()/nanosecond() and NaiveTime->Time->NaiveTime is "
                  "the identity for every nanosecond of the first, the middle (around noon) and the last 2048 seconds of the day (thorough: the whole day in "
                  "twelve 2-hour blocks); Time->NaiveTime->Time is the identity for every nanosecond of the whole day; "
                  "(3) Time +- month-free TimeDelta is exact i64 nanosecond arithmetic for every time of day, |duration| <= 86400 s "
                  "(every sub-second part, both signs) whenever the result is inside the day, and (t+d)-d = t, (t-d)+d = t; "
                  "(4) DateTime<U> +- TimeDelta with months != 0 makes exactly one chrono Months call, forward shifts add and backward "
                  "shifts subtract |months|, for every non-zero valid i32 month count (one concrete instant per unit); "
                  "counterexamples are replayed natively",
    "level_note": "trusted: Kani's MIR->goto translation, CBMC, CaDiCaL / Kissat (selected per harness); chrono::Duration's documented meaning (secs*1e9+nanos, "
                  "0<=nanos<1e9). DateTime +- TimeDelta, DateTime - DateTime with valid operands, month clamping and duration_trunc "
                  "go through chrono's calendar conversion and are outside this engine's claim",
}


def check(v, tier, opts):
    v.functions.update([
        "tea_time::Time::{from_hms,from_hms_milli,from_hms_micro,from_hms_nano,from_num_seconds_from_midnight,as_cr,from_cr}",
        "<tea_time::Time as chrono::Timelike>::{hour,minute,second,nanosecond}",
        "<Time as Add<TimeDelta>>::add, <Time as Sub<TimeDelta>>::sub",
        "<TimeDelta as Add>::add, <TimeDelta as Sub>::sub, <TimeDelta as Neg>::neg, <TimeDelta as Mul<i32>>::mul",
        "month dispatch branch of <DateTime<U> as Add<TimeDelta>>::add / <DateTime<U> as Sub<TimeDelta>>::sub (4 units)",
        "chrono::TimeDelta::{new,checked_add,checked_sub,checked_mul,neg,num_seconds,subsec_nanos,num_nanoseconds} (executed, not stubbed)",
    ])
    v.bounds.append("TimeDelta group laws: |months| <= 1200, |secs| <= 2^40 quick / 2^50 thorough, 0 <= nanos < 1e9 (all)")
    v.bounds.append("TimeDelta * k: |k| <= 8, |secs| <= 2^40 (value law); direct distributivity |secs| <= 64 with sub-second "
                    "part in {0, 0.5 s} (quick), plus whole seconds |secs| <= 2^20 (thorough)")
    v.bounds.append("Time constructors: every h<24, m<60, s<60 and every in-range milli/micro/nano part (value laws, whole day)")
    v.bounds.append("Time -> NaiveTime -> Time: every nanosecond of the whole day (twelve 2-hour blocks); Time getters and NaiveTime -> "
                    "Time -> NaiveTime: every nanosecond of seconds-of-day 0..2048, 42176..44224 and 84352..86400 (quick), whole day in twelve "
                    "2-hour blocks (thorough) — SAT cost of the division by 1e9 grows with the number of seconds")
    v.bounds.append("Time +- TimeDelta: every time of day 0..86400 s (every ns), month-free durations with |secs| <= 86400 and every "
                    "sub-second part, asserted when the exact result lies inside the day")
    v.bounds.append("month dispatch: months any i32 except 0 and i32::MIN (NaT); instant concrete (one per unit, two of them before "
                    "1970), sub-month part zero")
    v.assumptions.append("oracle shape: a duration's length is written with one multiplication by 1e9 of the same shape chrono uses "
                         "((secs+1)*1e9 - (1e9-nanos) for negative fractional durations = secs*1e9 + nanos); SAT cannot prove the "
                         "constant multiplier distributive (pure lemma: no answer in 300 s)")
    v.assumptions.append("a*k value law + a+b value law + uniqueness of the normal form (0 <= nanos < 1e9) imply distributivity for the "
                         "wide operand range; only the small-domain direct form is decided by the solver")
    v.stubs.add("chrono::DateTime::checked_add_months / checked_sub_months -> recorders returning the date-time unchanged "
                "(c17_month_dispatch_* only)")
    v.outside.append("DateTime<U> + TimeDelta, DateTime<U> - TimeDelta (t + d - d == t) and DateTime<U> - DateTime<U> ((a - b) + b == a) "
                     "with valid operands, all four units, month-free or not: impl_ops.rs lines 9-86 convert through "
                     "chrono::DateTime<Utc> (self.as_cr() -> TryFrom -> from_timestamp*/from_timestamp_nanos, `+ Months`, "
                     "`+ Duration`, `dt1 - dt2`, `.into()` -> timestamp*()) — chrono's calendar conversion gave no solver answer "
                     "in 40-55 min (DESIGN 1.1); no unit has a pure-i64 implementation. Only their NaT paths (C16 c16_natop_*) "
                     "and the month-sign dispatch are decided here")
    v.outside.append("adding calendar months agrees with the calendar library (end-of-month clamping): chrono's Months arithmetic itself")
    v.outside.append("DateTime::duration_trunc (month arithmetic + chrono::DurationRound) — only its NaT path is decided (C16)")
    v.outside.append("TimeDelta / TimeDelta -> i32 (not in the statement; panics by design on NaT or mismatching month/time quotients)")
    v.outside.append("Time values outside 0..86400 s: Time +- TimeDelta neither wraps nor saturates nor yields NaT (plain i64 "
                     "addition); as_cr() of such a value is None and the Timelike getters panic — witnessed, no law asserted")
    v.outside.append("durations with every combination of the ten textual units: TimeDelta::parse belongs to C18; operands here are "
                     "built from (months, secs, nanos) directly")
    kani_engine.decide(v, "C17", tier, opts)
    return v.finish(RULE)

READY = True
