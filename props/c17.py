"""C17 — date-time, duration and time-of-day arithmetic obeys its inverse laws. Engine K (reachable part)."""
import kani_engine

RULE = ("one Kani harness per law; operands are kani::any() over the stated ranges; a harness is non-trivial when all "
        "its kani::cover! witnesses are SATISFIED")


def check(v, tier, opts):
    kani_engine.decide(v, "C17", tier, opts)
    return v.finish(RULE)

MANIFEST = {}
