"""C03 — rolling extrema, arg-extrema, rank and normalisation are exact per window. Engine K (exact kernels) + Engine M (z-score)."""
import kani_engine
from mir_engine import props_m

RULE = ("Engine K: one Kani harness per (kernel, element-type variant, length N); window w in 1..=N+2, min_periods (explicit 0..=w, "
        "omitted for N >= w) and all element values are kani::any(); every output is compared exactly with a from-scratch scan of "
        "its window; non-trivial = all kani::cover! witnesses SATISFIED. Engine M: ts_vzscore executed from MIR per (L, w, min_periods, "
        "null mask), z3 asked per position for real inputs where the output differs from (x-mean)/sample-std (null when the spread is "
        "zero or x is null); non-trivial = all queries unsat")

MANIFEST = {
    "engine": "K+M",
    "technique": "bounded model checking (Kani/CBMC) of ts_vmin/vmax/vargmin/vargmax/vrank/vminmaxnorm against a from-scratch window scan; "
                 "MIR->SMT symbolic execution of ts_vzscore decided by z3 over exact reals",
    "design_ref": "DESIGN.md 3/C03",
    "level_text": "CBMC decides for all element values (small alphabets with ties and unconstrained i32, Option<i32>, f64-from-integers with "
                  "NaN), null masks, windows 1..=N+2 and min_periods at each concrete length N <= 4 (quick) / 6 (thorough) that every output of "
                  "the five extrema/rank kernels and of min-max normalisation equals the from-scratch window statistic exactly (most recent "
                  "position on ties, average ranks, null rules); z3 decides the z-score law for series of length <= 5 (6 thorough)",
    "level_note": "trusted: Kani/CBMC/CaDiCaL; z3; driver protocol (C02); z-score in exact real arithmetic, |x|<=100; omitted min_periods for the "
                  "extrema/rank family only where len >= w (DESIGN 5.3); min-max normalisation with unconstrained values uses a shared offset plus small spread",
}
READY = True


def check(v, tier, opts):
    v.functions.update(["ts_vmin", "ts_vmax", "ts_vargmin", "ts_vargmax", "ts_vrank", "ts_vminmaxnorm (tea-rolling/src/cmp.rs, norm.rs)"])
    v.bounds.append("Engine K: N in 1..=4 quick, ..=6 thorough; w in 1..=N+2; min_periods explicit 0..=w, omitted for N >= w; "
                    "min-max normalisation over unconstrained Option<i32> keys: N <= 2 quick, N <= 3 thorough (N = 4, 5 gave no SAT answer in 2400 s; "
                    "small-alphabet keys reach N = 6)")
    v.bounds.append("Engine M (ts_vzscore): L in {1,4,5} quick, 1..=6 thorough; w<=5; all null masks for L<=4; |x|<=100")
    v.outside.append("lengths above the bound; rounding error of the z-score; minmaxnorm on f64 inputs (float subtraction inside the kernel)")
    kani_engine.decide(v, "C03", tier, opts)
    if not opts.get("only") or "zscore" in (opts.get("only") or ""):
        props_m.c03_m(v, tier, opts)
    return v.finish(RULE)
