"""C03 — rolling extrema, arg-extrema, rank and normalisation are exact per window. TEMPORARY Engine-K-only
registration (scratch; the final props/c03.py combines Engine K with Engine M for ts_vzscore)."""
import kani_engine

RULE = ("one Kani harness per (kernel, element-type variant, length N); window w in 1..=N+2, min_periods (explicit 0..=w, "
        "omitted for N >= w) and all element values are kani::any(); every output is compared with a from-scratch scan "
        "of its window; a harness is non-trivial when all its kani::cover! witnesses are SATISFIED")

MANIFEST = {
    "engine": "K",
    "technique": "bounded model checking (Kani/CBMC) of ts_vmin/vmax/vargmin/vargmax/vrank/vminmaxnorm against a from-scratch window scan",
    "design_ref": "DESIGN.md 3/C03",
    "level_text": "CBMC decides for all element values, null masks, windows 1..=N+2 and min_periods at each concrete length N that "
                  "every output equals the from-scratch window statistic exactly",
    "level_note": "trusted: Kani/CBMC/CaDiCaL; bound: N <= 4 (quick) / <= 5 (thorough); ts_vzscore is Engine M's",
}


def check(v, tier, opts):
    v.functions.update(["ts_vmin", "ts_vmax", "ts_vargmin", "ts_vargmax", "ts_vrank", "ts_vminmaxnorm"])
    v.bounds.append("N in 1..=4 quick, ..=5 thorough; w in 1..=N+2; min_periods explicit 0..=w, omitted for N >= w")
    v.outside.append("ts_vzscore (Engine M); lengths above the bound")
    kani_engine.decide(v, "C03", tier, opts)
    return v.finish(RULE)
