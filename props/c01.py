"""C01 — rolling moments and weighted averages equal from-scratch window evaluation. Engine M (+K cross-checks)."""
import random

import mir_engine as M
from mir_engine import family, kernels
from common import seed, log

NAMES = [p + s for p in ("ts_v", "ts_") for s in ("sum", "mean", "ewm", "wma", "std", "var", "skew", "kurt")]

RULE = ("per kernel and per shape (length L, window w, min_periods, null mask — all concrete) the outer *_to body and its "
        "closure are executed from the MIR of the current tree with the C02 driver protocol unrolled; element values are "
        "symbolic reals in |x|<=100; z3 is asked, per output position, for values where the output (null flag or value) "
        "differs from the statistic evaluated from scratch on the window; a kernel is non-trivial when all its queries were "
        "answered unsat and none unknown")

MANIFEST = {
    "engine": "M",
    "technique": "symbolic execution of rustc MIR (closures of features.rs) into SMT (NRA, exact reals + NaN flag), z3 decides "
                 "per-position equivalence with the textbook statistic; counterexamples replayed natively",
    "design_ref": "DESIGN.md 3/C01, 1.2",
    "level_text": "for every real-valued series within the bound (length<=5 quick / 7 thorough, all windows 1..=L+2, min_periods "
                  "in {omitted} U 0..=w, null masks) and with every f64 operation read as its exact real counterpart, each of the "
                  "16 rolling moment kernels returns the from-scratch statistic of its window at every position (null exactly when "
                  "the count is below the threshold); because the state after k add/remove steps is symbolic in the whole "
                  "history, a wrong removal term or expiry index shows up as dependence on an expired element",
    "level_note": "assumes the driver protocol (proved by C02 harnesses at N<=6), the IsNone/Cast rows (C15), real-for-float "
                  "abstraction (no claim on rounding error), values in |x|<=100; ts_fdiff/ts_vfdiff (feature off, C++ FFI) outside",
}

VECTORS = {
    # repository test vectors (test_ts_sum / test_ts_mean)
    "ts_vsum": [([1.0, 2.0, 3.0, 4.0, 5.0], None, 2, Nonee) for Nonee in (None, 1)] +
               [([1.0, None, 3.0, 4.0, 5.0], None, 3, 2)],
    "ts_vmean": [([1.0, 2.0, 3.0, 4.0, 5.0], None, 3, 1), ([1.0, None, 3.0, 4.0, 5.0], None, 2, None)],
    "ts_sum": [([1.0, 2.0, 3.0, 4.0, 5.0], None, 3, None)],
    "ts_mean": [([1.0, 2.0, 3.0, 4.0, 5.0], None, 5, 1)],
}


def shapes(k, tier):
    rng = random.Random(seed() * 7919 + len(k.name))
    heavy = k.name.endswith(("skew", "kurt"))
    if tier == "quick":
        Ls = [0, 1, 2, 3, 5] if not heavy else [0, 3, 4, 5]
    else:
        Ls = [0, 1, 2, 3, 4, 5, 6, 7] if not heavy else [0, 3, 4, 5, 6]
    for L in Ls:
        for w in range(1, L + 3):
            if heavy and w > (4 if tier == "quick" else 5):
                continue            # polynomial normal form of the 4th-moment identity grows fast with the window
            mps = [None] + list(range(0, w + 1))
            mps = [m for i, m in enumerate(mps) if m not in mps[:i] and (m is None or m <= w)]
            for mp in mps:
                for mask in kernels.masks_for(L, k.null_aware, tier, rng):
                    yield (L, w, mp, mask, None)


def check(v, tier, opts):
    E = M.Engine(["tea-rolling"])
    v.engines["mir2smt"] = {"rustc": "nightly -Zunpretty=mir", "solver": "z3 4.8.12 (z3 -in, push/pop)", "mir_dump_s": round(E.dump_s, 1),
                            "functions_parsed": len(E.fns)}
    try:
        n = family.validate_translator(v, E, [x for x in NAMES if not opts.get("only") or __import__("re").search(opts["only"], x)], VECTORS,
                                       nrand=10 if tier == "quick" else 30)
        log(f"[C01] translator validation: {n} concrete vectors agree between encoding and native code")
        family.run_family(v, E, "C01", NAMES, tier, shapes, opts)
        family.elem_type_pass(v, E, "C01", NAMES, opts)
    finally:
        v.solver_time += E.solver.time
        v.engines["mir2smt"].update({"queries": E.solver.queries, "answers": E.solver.stats, "exec_s": round(E.exec_s, 1),
                                     "normalised_value_queries": E.norm_stats, "translator_vectors": locals().get("n", 0)})
        E.close()
    v.bounds.append("L in {0,1,2,3,5} quick ({0,3,4,5} for skew/kurt), {0..7} thorough; w in 1..=L+2 (skew/kurt: w<=4 quick, <=5 thorough); "
                    "min_periods in {omitted} U 0..=w; all 2^L null masks for L<=4, structured + seeded masks above; |x|<=100")
    v.assumptions += ["driver protocol of rolling_apply (C02)", "IsNone/Cast table rows for f64/Option<f64>/i32 (C15)",
                      "f64 arithmetic read as exact real arithmetic; sqrt as the non-negative real root"]
    v.bounds.append("element types: every operation is read over the reals, exact for f64 input; for integer element types the execution "
                    "records every operation performed in the element type before the cast to f64 (none on the current tree) and z3 "
                    "looks for i32 inputs that overflow it (L = 3, w = 2)")
    v.outside += ["f32 inputs (rounding of operations performed in f32 before the cast)", "size of accumulated rounding error", "values outside |x|<=100 (overflow to inf)",
                  "ts_fdiff / ts_vfdiff: feature `fdiff` not in the pinned build; coefficients come from a C++ gamma function behind cxx FFI",
                  "f32 outputs (one extra rounding; the cast itself is C15)"]
    v.samples.append({"kernel": "ts_vstd", "shape": {"L": 5, "w": 3, "mp": None, "mask": "11111"},
                      "query": "exists x in [-100,100]^5: out[4] != sqrt(sample_var(x2,x3,x4)) (answer: unsat)"})
    return v.finish(RULE)


def replay(path):
    E = M.Engine(["tea-rolling"])
    try:
        return family.replay_case_file(E, "C01", path)
    finally:
        E.close()

READY = True
