"""C08 — NaN and None are the same null, and nulls are transparent to valid aggregations. Engine K part
(order statistics, extrema, counts, exact sums; encoding independence of the exact functions)."""
import kani_engine
from mir_engine import props_m

RULE = ("one Kani harness per (law, function family, length N); null transparency: series s of length N and s' = s with one "
        "null inserted at a symbolic position (length N+1) are run through the same function and must agree exactly "
        "(arg-extrema: the index shifts by one iff the null was inserted at or before it); encoding independence: the same "
        "key array encoded as Vec<f64> (NaN) and Vec<Option<f64>> (None), and f64 versus Option<f64> output of ts_vmin / ts_vsum; "
        "all element values, null masks, positions, scores, windows and min_periods are kani::any(); a harness is non-trivial "
        "when its kani::cover! witnesses are SATISFIED")

MANIFEST = {
    "engine": "K+M",
    "technique": "bounded model checking (Kani/CBMC, SAT) of relational laws between two runs of the same aggregation: null insertion "
                 "at a symbolic position, NaN versus None input encoding, f64 versus Option<f64> output encoding",
    "design_ref": "DESIGN.md 3/C08",
    "level_text": "CBMC decides, for every series of length N, every insertion position and all element values, that vmin, vmax, "
                  "vargmin, vargmax (index shifted past the inserted null), count_valid, vsum, vfirst, vlast, vquantile (Lower, Higher, "
                  "MidPoint; q in {0, 1/2, 1}), vmedian, vpercentile_of (3 methods) and the ranks assigned by vrank (plain and as a fraction of the valid "
                  "count, both directions; N <= 3) are unchanged by inserting one null; that the "
                  "NaN and None encodings of one series give the same vmin / vmax / vargmin / vargmax / count_valid / vfirst / vlast / "
                  "vquantile(Lower); and that ts_vmin / ts_vsum return the same values as Vec<f64> and as Vec<Option<f64>>",
    "level_note": "trusted: Kani's MIR->goto translation, CBMC, CaDiCaL/MiniSat; std::fmt::format stubbed; bounds: N <= 3 quick "
                  "(quantiles N <= 2, i.e. 3 slots after insertion), N <= 4 thorough (quantiles 3); a single insertion generates every "
                  "insertion pattern by induction; moments / covariance / correlation are Engine M's part",
}


def check(v, tier, opts):
    v.functions.update([
        "tea_core::AggValidBasic::{vmin,vmax,vargmin,vargmax,count_valid,vsum,vfirst,vlast}",
        "tea_agg::VecAggValidExt::{vquantile (Lower, Higher, MidPoint), vmedian}", "tea_map::MapValidVec::vrank (pct / plain, rev)", "tea_agg::AggValidExt::vpercentile_of (Rank, Weak, Strict)",
        "tea_rolling::RollingValidCmp::ts_vmin, tea_rolling::RollingValidFeature::ts_vsum (f64 vs Option<f64> output)",
    ])
    if tier == "quick":
        v.bounds.append("quick: base series N in 0..=3 (padded series N+1 slots) for extrema, arg-extrema, counts, first/last, sums, "
                        "percentile ranks and the NaN/None input encodings; vquantile / vmedian N in 0..=2 (std select_nth on 3 slots); "
                        "ts_vmin / ts_vsum output encodings N in 0..=2 with window 1..=N+1 and min_periods None / 0..=N+1")
    else:
        v.bounds.append("thorough: N <= 4 (quantiles, medians and rolling output encodings N <= 3 / 4; ts_vmin / ts_vmax on NaN- versus "
                        "None-encoded float input N <= 2)")
    v.bounds.append("q in {0, 0.5, 1} (DESIGN 5.5) x {Lower, Higher, MidPoint}, vmedian = Linear at 0.5; elements Option<i32> unconstrained "
                    "(extrema, percentile ranks) or -2..=2 (quantiles), f64 from -2..=2 with NaN; sums |x| <= 1000; the slice "
                    "'exactly one valid element' of the quantile laws is decided by its own harnesses (c08_*_single_valid_*)")
    v.outside.append("lengths above the bound; moments, covariance, correlation (Engine M); Some(NaN) (DESIGN 5.4)")
    v.assumptions.append("canonical nulls only (NaN for f64, None for Option<_>)")
    kani_engine.decide(v, "C08", tier, opts)
    only = opts.get("only")
    if not only or only.startswith("v"):
        props_m.c08_m(v, tier, opts)     # Engine M part (moment formulas in exact real arithmetic)
    return v.finish(RULE + M_RULE)


M_RULE = ("; Engine M: for vmean, vmean_var, vvar, vstd, vcov, vcorr_pearson the real code is executed twice from its MIR — on a series "
          "and on the series with one null inserted at each position — and z3 is asked for real inputs where null flag or value differ")
MANIFEST["technique"] += "; MIR->SMT symbolic execution of the moment aggregations, two runs related by a null insertion, decided by z3"
MANIFEST["level_text"] += ("; z3 decides for all real inputs (length <= 4 quick / 5 thorough, every insertion position, every null mask) that "
                           "mean, variance, standard deviation, covariance and Pearson correlation are unchanged by inserting a null; "
                           "NaN/None encoding independence of the float kernels follows from their being one generic MIR body over the "
                           "IsNone/Cast rows proved in C15")
MANIFEST["level_note"] += "; Engine M: fold protocol (c11_fold_protocol_*), exact real arithmetic, |x|<=100; vskew/vkurt aggregation forms outside"
READY = True
