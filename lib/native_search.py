"""Native witness search for C20.

The half_life / winsorize harnesses run under oracle stubs (Kani replaces the correlation / quantile / median /
mean-variance callees), so a solver counterexample cannot be replayed natively as such. When such a harness fails,
the verdict of the solver is confirmed by looking for a concrete input on which the *real, unstubbed* function
violates the same law against a from-scratch reference; only then is a VIOLATION reported (otherwise exit 2).
The search is seeded and small (a few thousand native calls, < 2 s)."""
import json
import math
import os
import random

from common import seed, REPLAYS, ensure_dir
from mir_engine import replay as rp

EPS = 1e-14


def _call(line):
    p = rp._get()
    p.stdin.write(line + "\n")
    p.stdin.flush()
    return p.stdout.readline().strip()


def _fmt(x):
    return ",".join("nan" if v is None else repr(float(v)) for v in x) if x else "-"


# ---- half_life ---------------------------------------------------------------------------------
def pearson_lag(x, lag, mp):
    pairs = [(x[i], x[i - lag]) for i in range(lag, len(x)) if x[i] is not None and x[i - lag] is not None]
    n = len(pairs)
    if n < max(mp, 2):
        return float("nan")
    ma = sum(a for a, _ in pairs) / n
    mb = sum(b for _, b in pairs) / n
    va = sum(a * a for a, _ in pairs) / n - ma * ma
    vb = sum(b * b for _, b in pairs) / n - mb * mb
    if not (va > EPS and vb > EPS):
        return float("nan")
    cov = sum(a * b for a, b in pairs) / n - ma * mb
    return cov / math.sqrt(va * vb)


def half_life_expect(x, mp):
    """(range ok predicate, expected lag or None when the table is not of the 'above 0.5 exactly up to a lag' shape)."""
    N = len(x)
    if N < 2:
        return 0
    mpv = mp if mp is not None else N // 2
    tab = [pearson_lag(x, l, mpv) for l in range(1, N)]
    if any((not math.isnan(t)) and abs(t - 0.5) < 1e-9 for t in tab):
        return None
    above = [(not math.isnan(t)) and t > 0.5 for t in tab]
    L = 0
    while L < len(above) and above[L]:
        L += 1
    if any(above[L:]):
        return None
    return min(L + 1, N - 1)


def check_half_life(x, mp):
    got = _call(f"half_life {'-' if mp is None else mp} {_fmt(x)}")
    N = len(x)
    if got.startswith("PANIC"):
        return f"half_life({x}, {mp}) panics: {got[6:120]}", got
    r = int(got.split()[1])
    if (N < 2 and r != 0) or (N >= 2 and not (1 <= r <= N - 1)):
        return f"half_life({x}, {mp}) = {r} is outside 1..=len-1", got
    exp = half_life_expect(x, mp)
    if exp is not None and r != exp:
        return f"half_life({x}, {mp}) = {r}, first lag not above 0.5 (capped) is {exp}", got
    return None, got


def search_half_life(n_cases=4000):
    rng = random.Random(2020 + seed())
    fixed = [[1, 2, 3, 4, 5], [4, 2, 6, 6, 7, 7, 8, 7, 9], list(range(1, 11)), [1, 2, 3, 4, 5, 6, 7, 8, 9, 10, 11, 12, 13, 14, 15, 16]]
    for i in range(n_cases):
        if i < len(fixed):
            x = [float(v) for v in fixed[i]]
        else:
            N = rng.randint(0, 17)
            kind = rng.random()
            x, cur = [], float(rng.randint(-3, 3))
            for _ in range(N):
                if kind < 0.5:       # persistent path (trend / random walk): high autocorrelation
                    cur += rng.choice([0, 1, 1, 2, -1]) if kind < 0.3 else rng.uniform(-1, 2)
                else:
                    cur = float(rng.randint(-4, 6))
                x.append(None if rng.random() < 0.08 else cur)
        for mp in (None, 1, 2, 3, max(1, len(x) // 2), len(x)):
            bad, got = check_half_life(x, mp)
            if bad:
                return {"kind": "half_life", "x": x, "min_periods": mp, "native": got, "what": bad}
    return None


# ---- winsorize ---------------------------------------------------------------------------------
def _quantile_linear(vals, q):
    s = sorted(vals)
    n = len(s)
    if n == 0:
        return float("nan")
    pos = (n - 1) * q
    lo = math.floor(pos)
    hi = min(lo + 1, n - 1)
    return s[lo] + (s[hi] - s[lo]) * (pos - lo)


def winsorize_expect(method, param, x):
    vals = [v for v in x if v is not None]
    lo = hi = None
    if method == "q":
        q = 0.01 if param is None else param
        if vals:
            lo, hi = _quantile_linear(vals, q), _quantile_linear(vals, 1 - q)
    elif method == "m":
        k = 3.0 if param is None else param
        if vals:
            med = _quantile_linear(vals, 0.5)
            mad = _quantile_linear([abs(v - med) for v in vals], 0.5)
            lo, hi = med - k * mad, med + k * mad
    else:
        k = 3.0 if param is None else param
        n = len(vals)
        if n >= 2:
            mean = sum(vals) / n
            pv = sum(v * v for v in vals) / n - mean * mean
            if pv > EPS * (1 + 1e-6):
                sd = math.sqrt(pv * n / (n - 1))
                lo, hi = mean - k * sd, mean + k * sd
            elif pv > EPS * (1 - 1e-6):
                return None          # at the variance floor: either branch acceptable
    out = []
    for v in x:
        if v is None:
            out.append(float("nan"))
        elif lo is None:
            out.append(v)
        else:
            out.append(lo if v < lo else hi if v > hi else v)
    return out


def check_winsorize(method, param, x):
    got = _call(f"winsorize {method} {'-' if param is None else repr(float(param))} {_fmt(x)}")
    if got.startswith("PANIC"):
        return f"winsorize({method}, {param}) on {x} panics: {got[6:120]}", got
    if got == "ERR":
        return None, got
    vals = [float("nan") if t == "nan" else float(t) for t in got.split()] if got else []
    exp = winsorize_expect(method, param, x)
    if exp is None:
        return None, got
    if len(vals) != len(x):
        return f"winsorize({method}, {param}) on {x} returns {len(vals)} values for {len(x)} inputs", got
    for i, (a, b) in enumerate(zip(vals, exp)):
        if not rp.close(a, b, 1e-9):
            return f"winsorize({method}, {param}) on {x}: position {i} is {a}, clipping to the documented bounds gives {b}", got
    return None, got


def search_winsorize(n_cases=4000):
    rng = random.Random(7070 + seed())
    alpha = [-50.0, -3.0, 1.0, 1.0, 2.0, 2.0, 2.0, 7.0, 100.0]
    for _ in range(n_cases):
        N = rng.randint(0, 9)
        x = [None if rng.random() < 0.1 else rng.choice(alpha) for _ in range(N)]
        for method, params in (("q", [None, 0.0, 0.1, 0.25, 0.5]), ("m", [None, 0.0, 1.0, 3.0]), ("s", [None, 0.0, 0.5, 1.0, 3.0])):
            for prm in params:
                bad, got = check_winsorize(method, prm, x)
                if bad:
                    return {"kind": "winsorize", "method": method, "param": prm, "x": x, "native": got, "what": bad}
    return None


def save(case, name):
    d = ensure_dir(os.path.join(REPLAYS, "C20"))
    path = os.path.join(d, name + ".json")
    json.dump(case, open(path, "w"), indent=1)
    return path


def replay_case(path):
    c = json.load(open(path))
    if c["kind"] == "half_life":
        bad, got = check_half_life(c["x"], c["min_periods"])
    else:
        bad, got = check_winsorize(c["method"], c["param"], c["x"])
    return bad, got
