"""Shared plumbing for the /verif checks: paths, evidence, known findings, verdict protocol.

Exit protocol (MANIFEST contract):
  0  property held on everything explored (KNOWN-FINDING lines allowed)
  1  violation, with a line `VIOLATION property=<id> replay=<path>`
  2  inconclusive / machinery error (timeout, OOM, unsupported construct, vacuous harness,
     counterexample that does not reproduce natively). Never printed as VIOLATION.
"""
import json
import os
import re
import shutil
import subprocess
import sys
import time

ROOT = os.path.dirname(os.path.dirname(os.path.abspath(__file__)))
REPO = os.environ.get("VERIF_REPO", "/repo")
ALT = REPO != "/repo"          # development aid: run the checks against another checkout (seeded-mutation trials)
WORK = os.path.join(ROOT, ".work") if not ALT else os.path.join(ROOT, ".work", "alt-" + os.path.basename(REPO.rstrip("/")))
EVID = os.path.join(ROOT, "evidence") if not ALT else os.path.join(WORK, "evidence")
REPLAYS = os.path.join(ROOT, "replays") if not ALT else os.path.join(WORK, "replays")
KNOWN = os.path.join(ROOT, "known_findings.json")

OFFLINE_ENV = {
    "CARGO_NET_OFFLINE": "true",
    "GOPROXY": "off",
    "PIP_NO_INDEX": "1",
}


def env(extra=None):
    e = dict(os.environ)
    e.update(OFFLINE_ENV)
    if extra:
        e.update(extra)
    return e


def seed():
    try:
        return int(os.environ.get("VERIF_SEED", "0"))
    except ValueError:
        return 0


def log(msg):
    print(msg, flush=True)


def ensure_dir(p):
    os.makedirs(p, exist_ok=True)
    return p


def rmtree(p):
    shutil.rmtree(p, ignore_errors=True)


class Known:
    """known_findings.json — committed, never written at run time.

    findings: [{"property", "key", "what"}]   key is a regex matched against the *failure key*
              "<harness-or-query>::<failed check description>" produced by the engines.
    fixed:    [{"property", "commit", "what"}] — informational, suppresses nothing.
    """

    def __init__(self):
        self.findings = []
        self.fixed = []
        if os.path.exists(KNOWN):
            d = json.load(open(KNOWN))
            self.findings = d.get("findings", [])
            self.fixed = d.get("fixed", [])

    def match(self, prop, key):
        for f in self.findings:
            if f["property"] == prop and re.search(f["key"], key):
                return f
        return None


class Verdict:
    """Collects results of all engines for one property run and writes the evidence file."""

    def __init__(self, prop, tier):
        self.prop = prop
        self.tier = tier
        self.t0 = time.time()
        self.known = Known()
        self.violations = []       # (key, replay_path, detail)
        self.known_hits = {}       # what -> key
        self.inconclusive = []     # strings
        self.evaluations = 0       # solver-decided obligations (CBMC checks + SMT queries)
        self.nontrivial = 0        # harnesses / query groups whose vacuity witnesses were all reached
        self.samples = []
        self.functions = set()
        self.bounds = []
        self.stubs = set()
        self.assumptions = []
        self.outside = []
        self.solver_time = 0.0
        self.engines = {}
        self.harness_table = []

    # ---- results
    def failure(self, key, replay_path, detail=""):
        """A reproduced failure with failure key `key`; filtered through the known-findings file."""
        k = self.known.match(self.prop, key)
        if k is not None:
            self.known_hits.setdefault(k["what"], key)
            return False
        self.violations.append((key, replay_path, detail))
        return True

    def is_known(self, key):
        return self.known.match(self.prop, key) is not None

    def note_known(self, key):
        k = self.known.match(self.prop, key)
        if k is not None:
            self.known_hits.setdefault(k["what"], key)

    def inconcl(self, why):
        self.inconclusive.append(why)

    # ---- output
    def finish(self, rule, level="model_checking", extra=None):
        wall = time.time() - self.t0
        if self.evaluations == 0 and not self.violations and not self.inconclusive:
            self.inconclusive.append("no obligation was discharged (empty selection?) — a vacuous run is never a pass")
        for what, key in sorted(self.known_hits.items()):
            log(f"KNOWN-FINDING: property={self.prop} {what} [{key}]")
        for key, replay, detail in self.violations:
            log(f"VIOLATION property={self.prop} replay={replay}")
            log(f"  failing obligation: {key} {detail}")
        for why in self.inconclusive:
            log(f"INCONCLUSIVE property={self.prop}: {why}")
        cov = {
            "evaluations": int(self.evaluations),
            "distinct_nontrivial": int(self.nontrivial),
            "rule": rule,
            "samples": self.samples[:40] if self.samples else ["<none>"],
            "exhaustive": False,
            "functions_encoded": sorted(self.functions),
            "bounds": self.bounds,
            "stubs": sorted(self.stubs),
            "outside_claim": self.outside,
            "solver_time_s": round(self.solver_time, 2),
            "engines": self.engines,
            "obligation_table": self.harness_table,
            "known_findings_hit": sorted(self.known_hits.values()),
            "inconclusive": self.inconclusive,
        }
        if extra:
            cov.update(extra)
        ev = {
            "property_id": self.prop,
            "tier": self.tier,
            "seed": seed(),
            "level": level,
            "coverage": cov,
            "assumptions": self.assumptions,
            "wall_s": round(wall, 2),
            "violations": len(self.violations),
        }
        import common as _c
        evid = _c.EVID
        ensure_dir(evid)
        tmp = os.path.join(evid, f"{self.prop}.json.tmp")
        with open(tmp, "w") as f:
            json.dump(ev, f, indent=1, sort_keys=False)
        os.replace(tmp, os.path.join(evid, f"{self.prop}.json"))
        if self.violations:
            code = 1
        elif self.inconclusive:
            code = 2
        else:
            code = 0
        log(f"[{self.prop}] tier={self.tier} obligations={self.evaluations} nontrivial={self.nontrivial} "
            f"violations={len(self.violations)} known={len(self.known_hits)} inconclusive={len(self.inconclusive)} "
            f"solver_time={self.solver_time:.1f}s wall={wall:.1f}s -> exit {code}")
        return code


def run(cmd, cwd=None, timeout=None, extra_env=None, log_path=None, mem_kb=None):
    """Run a command; returns (returncode or None on timeout, output text)."""
    pre = None
    if mem_kb:
        import resource

        def pre():
            resource.setrlimit(resource.RLIMIT_AS, (mem_kb * 1024, mem_kb * 1024))
            os.setsid()
    else:
        pre = os.setsid
    p = subprocess.Popen(cmd, cwd=cwd, env=env(extra_env), stdout=subprocess.PIPE, stderr=subprocess.STDOUT,
                         preexec_fn=pre, text=True, errors="replace")
    try:
        out, _ = p.communicate(timeout=timeout)
        rc = p.returncode
    except subprocess.TimeoutExpired:
        import signal
        try:
            os.killpg(p.pid, signal.SIGKILL)
        except ProcessLookupError:
            pass
        out, _ = p.communicate()
        rc = None
    if log_path:
        with open(log_path, "w") as f:
            f.write(out)
    return rc, out
