"""From-scratch definitions (textbook formulas) of the statistics, in the same real-fraction domain.

Every oracle takes the list of *valid* window values (oldest first) and returns either a VF, or
None for "null required". `Q` is a thin operator wrapper around VF so the formulas read like maths.
Variance-floor handling (DESIGN 5.1) lives in the callers: oracles expose `pop_var`.
"""
from fractions import Fraction

from . import smt
from .smt import R0, R1, TRUE, FALSE
from .values import VF, f_add, f_sub, f_mul, ExecError


class Q:
    __slots__ = ("f",)

    def __init__(self, f):
        if isinstance(f, Q):
            f = f.f
        elif isinstance(f, (int, Fraction)):
            f = VF.const(f)
        self.f = f

    def __add__(self, o):
        return Q(f_add(self.f, Q(o).f))

    __radd__ = __add__

    def __sub__(self, o):
        return Q(f_sub(self.f, Q(o).f))

    def __rsub__(self, o):
        return Q(f_sub(Q(o).f, self.f))

    def __mul__(self, o):
        return Q(f_mul(self.f, Q(o).f))

    __rmul__ = __mul__

    def __truediv__(self, o):
        o = Q(o).f
        # the divisor is non-zero by the oracle's own case analysis (n, n-1, variance > floor ...)
        return Q(VF(smt.mul(self.f.num, o.den), smt.mul(self.f.den, o.num),
                    smt.or_(self.f.nan, o.nan), smt.or_(self.f.inf, o.inf)))

    def __rtruediv__(self, o):
        return Q(o) / self

    def __neg__(self):
        return Q(0) - self

    def __pow__(self, k):
        r = Q(1)
        for _ in range(k):
            r = r * self
        return r


def qsum(xs):
    r = Q(0)
    for x in xs:
        r = r + Q(x)
    return r


def mean(xs):
    return qsum(xs) / len(xs)


def central(xs, k):
    m = mean(xs)
    return qsum([(Q(x) - m) ** k for x in xs]) / len(xs)


def pop_var(xs):
    return central(xs, 2)


def o_sum(xs, **kw):
    return qsum(xs).f


def o_mean(xs, **kw):
    if not xs:
        return None            # 0/0
    return mean(xs).f


def o_ewm(xs, window=None, **kw):
    n = len(xs)
    if n == 0:
        return None
    alpha = Fraction(2, window)
    oma = 1 - alpha
    num = qsum([Q(x) * (oma ** (n - 1 - j)) for j, x in enumerate(xs)])
    den = sum(oma ** k for k in range(n))
    if den == 0:
        return "undefined"
    return (num / den).f


def o_wma(xs, **kw):
    n = len(xs)
    if n == 0:
        return None
    num = qsum([Q(x) * (j + 1) for j, x in enumerate(xs)])
    return (num / Fraction(n * (n + 1), 2)).f


def o_var(xs, **kw):
    n = len(xs)
    return (central(xs, 2) * n / (n - 1)).f


def o_std(xs, sqrt=None, **kw):
    return sqrt(o_var(xs))


def o_skew(xs, sqrt=None, **kw):
    # adjusted Fisher-Pearson: sqrt(n(n-1))/(n-2) * m3 / m2^(3/2)
    n = len(xs)
    m2, m3 = central(xs, 2), central(xs, 3)
    s = Q(sqrt(m2.f))
    adj = Q(sqrt(VF.const(n * (n - 1)))) / (n - 2)
    return (adj * m3 / (s ** 3)).f


def o_kurt(xs, **kw):
    # excess kurtosis, bias corrected: (n-1)/((n-2)(n-3)) * ((n+1)*(m4/m2^2 - 3) + 6)
    n = len(xs)
    m2, m4 = central(xs, 2), central(xs, 4)
    g2 = m4 / (m2 * m2) - 3
    return (Q(Fraction(n - 1, (n - 2) * (n - 3))) * ((n + 1) * g2 + 6)).f


# ---- two-series --------------------------------------------------------------------------
def cov_pop(xs, ys):
    mx, my = mean(xs), mean(ys)
    return qsum([(Q(x) - mx) * (Q(y) - my) for x, y in zip(xs, ys)]) / len(xs)


def o_cov(xs, ys, **kw):
    n = len(xs)
    return (cov_pop(xs, ys) * n / (n - 1)).f


def o_corr(xs, ys, sqrt=None, **kw):
    vx, vy = pop_var(xs), pop_var(ys)
    return (cov_pop(xs, ys) / Q(sqrt((vx * vy).f))).f


def ols(xs, ys):
    """least squares of y on x: (alpha, beta)"""
    beta = cov_pop(xs, ys) / pop_var(xs)
    alpha = mean(ys) - beta * mean(xs)
    return alpha, beta


def trend(ys):
    n = len(ys)
    ts = [VF.const(k) for k in range(1, n + 1)]
    return ols(ts, ys), ts
