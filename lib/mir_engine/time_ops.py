"""C17 on mathematical integers: DateTime<U> +- TimeDelta, DateTime<U> - DateTime<U> and DateTime<U>::duration_trunc
(month-free) executed from their MIR for each of the four units, with **chrono replaced by its documented contract**:

  * a `chrono::DateTime<Utc>` is an instant = an integer number of nanoseconds since the epoch inside chrono's range
    (-262143-01-01 .. +262142-12-31); `from_timestamp*(n)` is `Some(n * unit)` inside that range and `None` outside;
    `timestamp()/_millis()/_micros()` are the floor of the instant at that unit, `timestamp_nanos_opt()` is `Some` iff the
    instant fits an i64;
  * a `chrono::TimeDelta` is an integer number of nanoseconds, |d| <= i64::MAX ms; `num_nanoseconds()` is `Some` iff it fits i64;
  * `DateTime + TimeDelta`, `DateTime - TimeDelta` are instant +- d (panic outside chrono's range), `DateTime - DateTime` is the
    difference of the instants;
  * `DurationRound::duration_trunc(t, span)`: Err when span <= 0 or span/t do not fit i64 nanoseconds, else
    `Ok(t - (t mod span))` with the non-negative remainder (chrono 0.4 round.rs).

tevec's own code on top of that contract (NaT guards, `as_cr`, the four TryFrom/From conversions, the month dispatch guard,
`.into()`, `expect`) is executed from the MIR of the current tree; timestamps are SMT Ints, so there is no bit-blasting.
Calendar (`Months`, `year_ce`, `month`) calls are outside this vocabulary: operands here have months == 0."""
import re

from . import smt, natives, chrono_fmt
from .natives import N, _deref
from .exec import Executor, _DIVERGE, ExecError
from .values import *

I64_MIN, I64_MAX = -2 ** 63, 2 ** 63 - 1
I32_MIN = -2 ** 31
UNITS = {"Second": (5, 10 ** 9), "Millisecond": (6, 10 ** 6), "Microsecond": (7, 10 ** 3), "Nanosecond": (8, 1)}   # (discriminant, ns per tick); discriminants re-read below
# discriminants of tea_time::TimeUnit in declaration order (Year, Month, Day, Hour, Minute, Second, Millisecond, Microsecond, Nanosecond)
def _timeunit_order():
    import os
    from common import REPO
    try:
        src = open(os.path.join(REPO, "tea-time", "src", "timeunit.rs")).read()
        m = re.search(r"define_timeunit!\(([^)]*)\)", src)
        names = [x.strip() for x in m.group(1).split(",") if x.strip()]
        if names:
            return names
    except Exception:
        pass
    return ["Year", "Month", "Day", "Hour", "Minute", "Second", "Millisecond", "Microsecond", "Nanosecond"]


TIMEUNIT_DISC = {n: i for i, n in enumerate(_timeunit_order())}
UNITS = {k: (TIMEUNIT_DISC.get(k, v[0]), v[1]) for k, v in UNITS.items()}
SHORT = {"Second": "s", "Millisecond": "ms", "Microsecond": "us", "Nanosecond": "ns"}


def _days_from_civil(y, m, d):
    y -= m <= 2
    era = (y if y >= 0 else y - 399) // 400
    yoe = y - era * 400
    doy = (153 * (m + (-3 if m > 2 else 9)) + 2) // 5 + d - 1
    doe = yoe * 365 + yoe // 4 - yoe // 100 + doy
    return era * 146097 + doe - 719468


NS_DAY = 86400 * 10 ** 9
CR_MIN = _days_from_civil(-262143, 1, 1) * NS_DAY
CR_MAX = (_days_from_civil(262142, 12, 31) + 1) * NS_DAY - 1
DUR_MAX = I64_MAX * 10 ** 6          # chrono::TimeDelta::MAX = i64::MAX milliseconds
# the property's quantifier: date-times across 1678..2262
DOM_LO = _days_from_civil(1678, 1, 1) * NS_DAY
DOM_HI = _days_from_civil(2262, 1, 1) * NS_DAY

C = smt.const


def cr(t):
    return VStruct("chrono::DateTime<Utc>", [VInt(t)])


def dur(t):
    return VStruct("chrono::TimeDelta", [VInt(t)])


def timedelta(months, ns):
    return VStruct("timedelta::TimeDelta", [VInt(months), dur(ns)])


def datetime(ts):
    return VStruct("DateTime", [VInt(ts), VStruct("PhantomData", [])])


def in_cr(t):
    return smt.and_(smt.le(C(CR_MIN), t), smt.le(t, C(CR_MAX)))


def fits_i64(t):
    return smt.and_(smt.le(C(I64_MIN), t), smt.le(t, C(I64_MAX)))


def _unit_of_type(ty):
    m = re.search(r"datetime::DateTime(?:<timeunit::(\w+)>)?", ty)
    if not m:
        return None
    return m.group(1) or "Nanosecond"


def _deref_any(ex, v):
    return _deref(ex, v) if isinstance(v, VRef) else v


_tod_memo = {}


def time_fields(tod):
    """ns of day -> (hour, minute, second, ns of second)"""
    hit = _tod_memo.get(tod)
    if hit is None:
        hit = (smt.idiv(tod, C(3600 * 10 ** 9)), smt.imod(smt.idiv(tod, C(60 * 10 ** 9)), C(60)),
               smt.imod(smt.idiv(tod, C(10 ** 9)), C(60)), smt.imod(tod, C(10 ** 9)))
        _tod_memo[tod] = hit
    return hit


def make_natives(E, unit):
    disc, uns = UNITS[unit]
    fns = E.fns
    ex_holder = [None]

    def by_module(mod, name):
        c = [f for n, f in fns.items() if re.fullmatch(re.escape(mod) + r"::<impl at [^>]*>::" + re.escape(name), n)]
        if not c:
            raise ExecError(f"no MIR body for {mod}::…::{name}")
        return c[0]

    def conv(kind, u):
        """the unit-specific TryFrom<DateTime<u>> for chrono / From<chrono> for DateTime<u> / From<i64> impl bodies"""
        for n, f in fns.items():
            if not n.startswith("impl_datetime::<impl at "):
                continue
            if kind == "try_from" and n.endswith("::try_from") and len(f.args) == 1 and _unit_of_type(f.args[0][1]) == u \
                    and "chrono::DateTime<Utc>" in f.ret:
                return f
            if kind == "from_cr" and n.endswith("::from") and len(f.args) == 1 and f.args[0][1].strip() == "chrono::DateTime<Utc>" \
                    and _unit_of_type(f.ret) == u and "<U>" not in f.ret:
                return f
            if kind == "from_i64" and n.endswith("::from") and len(f.args) == 1 and f.args[0][1].strip() == "i64":
                return f
        raise ExecError(f"no MIR body for the {kind} conversion of DateTime<{u}>")

    def own(mod):
        def f(ex, callee, args, m):
            return ex.exec_fn(by_module(mod, m.group(1)), args)
        return f

    def n_unit(ex, callee, args, m):
        tgt = getattr(ex, "target_unit", None)
        if callee.startswith("<T ") and tgt is not None:
            return VEnum(TIMEUNIT_DISC[tgt])           # inside into_unit::<tgt>: T is the target unit
        return VEnum(disc)

    def n_into_unit(ex, callee, args, m):
        """DateTime<U>::into_unit::<Target>() called with a concrete target: the generic MIR body with T bound to it"""
        c = [f for n, f in fns.items() if n.endswith("::into_unit") and "convert" in n]
        if len(c) != 1:
            raise ExecError("cannot locate DateTime::into_unit in the MIR dump")
        saved = getattr(ex, "target_unit", None)
        ex.target_unit = m.group(1)
        try:
            return ex.exec_fn(c[0], args)
        finally:
            ex.target_unit = saved

    def _disc(v):
        if isinstance(v, VEnum):
            return v.disc
        if isinstance(v, VStruct) and not v.items:          # a unit variant written as a path: timeunit::TimeUnit::Nanosecond
            name = v.name.split("::")[-1]
            if name in TIMEUNIT_DISC:
                return TIMEUNIT_DISC[name]
        raise ExecError(f"TimeUnit value {v!r}")

    def n_enum_eq(ex, callee, args, m):
        return VBool(_disc(_deref(ex, args[0])) == _disc(_deref(ex, args[1])))

    def n_try_into(ex, callee, args, m):
        return ex.exec_fn(conv("try_from", unit), args)

    def n_into_dt(ex, callee, args, m):
        return ex.exec_fn(conv("from_cr", unit), args)

    def n_i64_into(ex, callee, args, m):
        return ex.exec_fn(conv("from_i64", unit), args)

    def from_ts(mult):
        def f(ex, callee, args, m):
            t = smt.mul(args[0].t, C(mult))
            if len(args) > 1:      # from_timestamp(secs, nsecs)
                ns = args[1].t
                ok = smt.and_(in_cr(smt.add(t, ns)), smt.lt(ns, C(2 * 10 ** 9)))
                return VOpt(ok, cr(smt.add(t, ns)))
            return VOpt(in_cr(t), cr(t))
        return f

    def n_from_ts_nanos(ex, callee, args, m):
        return cr(args[0].t)

    def ts_floor(div):
        def f(ex, callee, args, m):
            t = _deref(ex, args[0]).items[0].t
            ex.cr_seen.append((ex.pc, t))
            return VInt(smt.idiv(t, C(div)) if div != 1 else t)
        return f

    def n_ts_nanos_opt(ex, callee, args, m):
        t = _deref(ex, args[0]).items[0].t
        ex.cr_seen.append((ex.pc, t))
        return VOpt(fits_i64(t), VInt(t))

    def n_ok_or_else(ex, callee, args, m):
        o = args[0]
        return VRes(o.some, o.val, VOpaque("TError"))

    def n_res_ok(ex, callee, args, m):
        r = args[0]
        return VOpt(r.ok, r.val)

    def n_expect(ex, callee, args, m):
        o = args[0]
        if isinstance(o, VOpt):
            ex.oblige(smt.not_(o.some), "Option::expect on None", callee)
            return o.val if o.val is not None else _DIVERGE
        ex.oblige(smt.not_(o.ok), "Result::expect on Err", callee)
        return o.val if o.val is not None else _DIVERGE

    def n_cr_add(sign):
        def f(ex, callee, args, m):
            t, d = args[0].items[0].t, args[1].items[0].t
            r = smt.add(t, d) if sign > 0 else smt.sub(t, d)
            ex.oblige(smt.not_(in_cr(r)), "chrono: `DateTime +- TimeDelta` overflowed", callee)
            return cr(r)
        return f

    def n_cr_checked(sign):
        def f(ex, callee, args, m):
            t, d = _deref(ex, args[0]).items[0].t, args[1].items[0].t
            r = smt.add(t, d) if sign > 0 else smt.sub(t, d)
            return VOpt(in_cr(r), cr(r))
        return f

    def n_cr_sub_cr(ex, callee, args, m):
        a, b = _deref(ex, args[0]), _deref(ex, args[1])
        return dur(smt.sub(a.items[0].t, b.items[0].t))

    def n_trunc(ex, callee, args, m):
        t, span = args[0].items[0].t, args[1].items[0].t
        ok = smt.and_(fits_i64(span), smt.gt(span, C(0)), fits_i64(t))
        if not span.is_const:
            raise ExecError("duration_trunc by a symbolic span (outside the linear vocabulary)")
        if span.val <= 0 or span.val > I64_MAX:
            return VRes(smt.FALSE, None, VOpaque("RoundingError"))
        return VRes(ok, cr(smt.sub(t, smt.imod(t, C(span.val)))), VOpaque("RoundingError"))

    def n_num_ns(ex, callee, args, m):
        d = _deref(ex, args[0]).items[0].t
        return VOpt(fits_i64(d), VInt(d))

    def num_floor_to_zero(div):
        def f(ex, callee, args, m):
            d = _deref(ex, args[0]).items[0].t
            if div == 1:
                return VInt(d)
            q = smt.idiv(d, C(div))               # floor; chrono's num_* truncate toward zero
            exact = smt.eq(smt.imod(d, C(div)), C(0))
            return VInt(smt.ite(smt.or_(smt.ge(d, C(0)), exact), q, smt.add(q, C(1))))
        return f

    def dur_ctor(mult, lim):
        def f(ex, callee, args, m):
            n = args[0].t
            if lim is not None:
                ex.oblige(smt.or_(smt.lt(n, C(-lim)), smt.gt(n, C(lim))), "chrono: TimeDelta constructor out of bounds", callee)
            return dur(smt.mul(n, C(mult)))
        return f

    def n_dur_op(op):
        def f(ex, callee, args, m):
            a = args[0].items[0].t
            if op == "neg":
                return dur(smt.neg(a))
            b = args[1].items[0].t
            r = smt.add(a, b) if op == "add" else smt.sub(a, b)
            ex.oblige(smt.or_(smt.lt(r, C(-DUR_MAX)), smt.gt(r, C(DUR_MAX))), "chrono: `TimeDelta +- TimeDelta` overflowed", callee)
            return dur(r)
        return f

    def n_outside(ex, callee, args, m):
        raise ExecError(f"calendar call outside the chrono contract vocabulary: {callee}")

    def inst(ex, a):
        return _deref(ex, a).items[0].t

    def n_months_new(ex, callee, args, m):
        return VStruct("Months", [VInt(args[0].t)])

    def n_cr_months(sign):
        def f(ex, callee, args, m):
            n = args[1].items[0].t
            r = shift_months(args[0].items[0].t, n if sign > 0 else smt.neg(n))
            ex.oblige(smt.not_(in_cr(r)), "chrono: `DateTime +- Months` out of range", callee)
            return cr(r)
        return f

    def n_cr_checked_months(sign):
        def f(ex, callee, args, m):
            n = args[1].items[0].t
            r = shift_months(inst(ex, args[0]), n if sign > 0 else smt.neg(n))
            return VOpt(in_cr(r), cr(r))
        return f

    def n_year_ce(ex, callee, args, m):
        y = civil(inst(ex, args[0]))[0]
        ce = smt.ge(y, C(1))
        return VTuple([VBool(ce), VInt(smt.ite(ce, y, smt.sub(C(1), y)))])

    def datelike(idx, off=0):
        def f(ex, callee, args, m):
            x = civil(inst(ex, args[0]))[idx]
            return VInt(smt.add(x, C(off)) if off else x)
        return f

    def n_with_day(ex, callee, args, m):
        y, mo, d, tod = civil(inst(ex, args[0]))
        nd = args[1].t
        ok = smt.and_(smt.le(C(1), nd), smt.le(nd, days_in_month(y, mo)))
        return VOpt(ok, cr(instant_of(y, mo, nd, tod)))

    def n_with_day0(ex, callee, args, m):
        y, mo, d, tod = civil(inst(ex, args[0]))
        nd = smt.add(args[1].t, C(1))
        ok = smt.and_(smt.le(C(1), nd), smt.le(nd, days_in_month(y, mo)))
        return VOpt(ok, cr(instant_of(y, mo, nd, tod)))

    def n_with_month(off):
        def f(ex, callee, args, m):
            y, mo, d, tod = civil(inst(ex, args[0]))
            nm = smt.add(args[1].t, C(off)) if off else args[1].t
            ok = smt.and_(smt.le(C(1), nm), smt.le(nm, C(12)), smt.le(d, days_in_month(y, nm)))
            return VOpt(ok, cr(instant_of(y, nm, d, tod)))
        return f

    def n_with_year(ex, callee, args, m):
        y, mo, d, tod = civil(inst(ex, args[0]))
        ny = args[1].t
        ok = smt.and_(smt.le(d, days_in_month(ny, mo)), smt.le(C(-262143), ny), smt.le(ny, C(262142)))
        return VOpt(ok, cr(instant_of(ny, mo, d, tod)))

    def tod_part(kind):
        def f(ex, callee, args, m):
            h, mi, sec, ns = time_fields(civil(inst(ex, args[0]))[3])
            return VInt({"hour": h, "minute": mi, "second": sec}.get(kind, ns))
        return f

    def n_with_time_part(kind):
        def f(ex, callee, args, m):
            y_, mo_, d_, tod = civil(inst(ex, args[0]))
            v_ = args[1].t
            h, mi, sec, ns = time_fields(tod)
            lim = {"hour": 24, "minute": 60, "second": 60, "nanosecond": 2 * 10 ** 9}[kind]
            if kind == "hour":
                h = v_
            elif kind == "minute":
                mi = v_
            elif kind == "second":
                sec = v_
            else:
                ns = v_
            ntod = smt.add(smt.add(smt.mul(h, C(3600 * 10 ** 9)), smt.mul(mi, C(60 * 10 ** 9))), smt.add(smt.mul(sec, C(10 ** 9)), ns))
            return VOpt(smt.lt(v_, C(lim)), cr(instant_of(y_, mo_, d_, ntod)))
        return f

    # NaiveDate / NaiveDateTime / NaiveTime as plain records (year, month, day) / instant / ns of day
    def n_from_ymd_opt(ex, callee, args, m):
        y, mo, d = args[0].t, args[1].t, args[2].t
        ok = smt.and_(smt.le(C(1), mo), smt.le(mo, C(12)), smt.le(C(1), d), smt.le(d, days_in_month(y, mo)),
                      smt.le(C(-262143), y), smt.le(y, C(262142)))
        return VOpt(ok, VStruct("NaiveDate", [VInt(y), VInt(mo), VInt(d)]))

    def n_and_hms_opt(ex, callee, args, m):
        dte = _deref(ex, args[0])
        h, mi, sec = args[1].t, args[2].t, args[3].t
        ok = smt.and_(smt.lt(h, C(24)), smt.lt(mi, C(60)), smt.lt(sec, C(60)))
        tod = smt.mul(smt.add(smt.add(smt.mul(h, C(3600)), smt.mul(mi, C(60))), sec), C(10 ** 9))
        return VOpt(ok, VStruct("NaiveDateTime", [VInt(instant_of(dte.items[0].t, dte.items[1].t, dte.items[2].t, tod))]))

    def n_and_time(ex, callee, args, m):
        dte = _deref(ex, args[0])
        return VStruct("NaiveDateTime", [VInt(instant_of(dte.items[0].t, dte.items[1].t, dte.items[2].t, args[1].items[0].t))])

    def n_and_utc(ex, callee, args, m):
        return cr(_deref(ex, args[0]).items[0].t)

    def n_with_time(ex, callee, args, m):
        y, mo, d, tod = civil(inst(ex, args[0]))
        return cr(instant_of(y, mo, d, args[1].items[0].t))          # LocalResult::Single for Utc

    def n_naive_time_hms(ex, callee, args, m):
        h, mi, sec = args[0].t, args[1].t, args[2].t
        ok = smt.and_(smt.lt(h, C(24)), smt.lt(mi, C(60)), smt.lt(sec, C(60)))
        return VOpt(ok, VStruct("NaiveTime", [VInt(smt.mul(smt.add(smt.add(smt.mul(h, C(3600)), smt.mul(mi, C(60))), sec), C(10 ** 9)))]))

    # ---- text: chrono's strftime / parse_from_str under the format contract of chrono_fmt.py --------------------------
    def _pystr(v):
        v = _deref_any(ex_holder[0], v)
        if not all(b.is_const for b in v.bytes):
            raise ExecError("symbolic format string")
        return bytes(int(b.val) for b in v.bytes).decode("ascii")

    def n_unwrap_or(ex, callee, args, m):
        o = args[0]
        if not o.some.is_const:
            raise ExecError("Option::<&str>::unwrap_or on a symbolic option")
        return o.val if o.some.val else args[1]

    def n_cr_format(ex, callee, args, m):
        return VStruct("DelayedFormat", [_deref(ex, args[0]), args[1]])

    def n_df_to_string(ex, callee, args, m):
        ex_holder[0] = ex
        df = _deref(ex, args[0])
        t = df.items[0].items[0].t
        y, mo, d, tod = civil(t)
        h, mi, sec, ns = time_fields(tod)
        cls = getattr(ex, "frac_class", None)
        if cls is None:
            raise ExecError("formatting without a stated fraction class")
        ex.oblige(smt.or_(smt.lt(y, C(1000)), smt.gt(y, C(9999))), "year outside the four-digit range of the format model", callee)
        fields = {"year": y, "month": mo, "day": d, "hour": h, "minute": mi, "second": sec, "nano": ns}
        return VString(chrono_fmt.format_bytes(fields, _pystr(df.items[1]), cls))

    def n_str_to_string(ex, callee, args, m):
        return VString(list(_deref(ex, args[0]).bytes))

    def _fresh_naive(ex, date_only):
        """abstract parse result: Ok or Err (fresh Bool) with an arbitrary value of chrono's range (fresh Ints)"""
        ex.abs_n = getattr(ex, "abs_n", 0) + 1
        k = ex.abs_n
        ok = smt.var(f"p{k}_ok", smt.BOOL)
        y, mo, d = (smt.var(f"p{k}_{n}", smt.INT) for n in ("y", "m", "d"))
        ex.assumptions += [smt.le(C(-262143), y), smt.le(y, C(262142)), smt.le(C(1), mo), smt.le(mo, C(12)), smt.le(C(1), d),
                           smt.le(d, days_in_month(y, mo))]
        if date_only:
            return VRes(ok, VStruct("NaiveDate", [VInt(y), VInt(mo), VInt(d)]), VOpaque("ParseError"))
        tod = smt.var(f"p{k}_tod", smt.INT)
        ex.assumptions += [smt.le(C(0), tod), smt.lt(tod, C(NS_DAY + 10 ** 9))]          # incl. a leap second
        return VRes(ok, VStruct("NaiveDateTime", [VInt(instant_of(y, mo, d, tod))]), VOpaque("ParseError"))

    def n_parse_dt(ex, callee, args, m):
        ex_holder[0] = ex
        if getattr(ex, "abstract_parse", False):
            return _fresh_naive(ex, False)
        bs, fmt = list(_deref(ex, args[0]).bytes), _pystr(args[1])
        matched, conds, fields = chrono_fmt.parse_fields(bs, fmt)
        if not matched:
            return VRes(smt.FALSE, None, VOpaque("ParseError"))
        pd, okd, ymd = chrono_fmt.resolve_date(fields, days_in_month)
        pt, okt, tod, gap = chrono_fmt.resolve_time(fields)
        if not (pd and pt):
            return VRes(smt.FALSE, None, VOpaque("ParseError"))
        if not (gap.is_const and not gap.val):
            ex.model_gaps.append((smt.and_(ex.pc, smt.and_(*(conds + [okd, okt])), gap), "a second field of 60 (leap-second text)"))
        return VRes(smt.and_(*(conds + [okd, okt])), VStruct("NaiveDateTime", [VInt(instant_of(ymd[0], ymd[1], ymd[2], tod))]), VOpaque("ParseError"))

    def n_parse_date(ex, callee, args, m):
        ex_holder[0] = ex
        if getattr(ex, "abstract_parse", False):
            return _fresh_naive(ex, True)
        bs, fmt = list(_deref(ex, args[0]).bytes), _pystr(args[1])
        matched, conds, fields = chrono_fmt.parse_fields(bs, fmt)
        if not matched:
            return VRes(smt.FALSE, None, VOpaque("ParseError"))
        pd, okd, ymd = chrono_fmt.resolve_date(fields, days_in_month)
        if not pd:
            return VRes(smt.FALSE, None, VOpaque("ParseError"))
        return VRes(smt.and_(*(conds + [okd])), VStruct("NaiveDate", [VInt(ymd[0]), VInt(ymd[1]), VInt(ymd[2])]), VOpaque("ParseError"))

    def n_parse_time(ex, callee, args, m):
        """NaiveTime::parse_from_str / str::parse::<NaiveTime>: abstractly Ok(any time of day, possibly a leap second) or Err"""
        ex.abs_n = getattr(ex, "abs_n", 0) + 1
        k = ex.abs_n
        ok, tod = smt.var(f"p{k}_ok", smt.BOOL), smt.var(f"p{k}_tod", smt.INT)
        ex.assumptions += [smt.le(C(0), tod), smt.lt(tod, C(NS_DAY + 10 ** 9))]
        return VRes(ok, VStruct("NaiveTime", [VInt(tod)]), VOpaque("ParseError"))

    def n_time_secs(ex, callee, args, m):
        tod = _deref(ex, args[0]).items[0].t
        return VInt(smt.ite(smt.ge(tod, C(NS_DAY)), C(86399), smt.idiv(tod, C(10 ** 9))))

    def n_time_nanos(ex, callee, args, m):
        tod = _deref(ex, args[0]).items[0].t
        return VInt(smt.ite(smt.ge(tod, C(NS_DAY)), smt.sub(tod, C(86399 * 10 ** 9)), smt.imod(tod, C(10 ** 9))))

    def n_from_naive(ex, callee, args, m):
        return cr(args[0].items[0].t)

    def n_ndt_into(ex, callee, args, m):
        return ex.exec_fn(conv_from("NaiveDateTime"), args)

    def n_nd_into(ex, callee, args, m):
        return ex.exec_fn(conv_from("NaiveDate"), args)

    def conv_from(ty):
        for n, f in fns.items():
            if n.startswith("impl_datetime::<impl at ") and n.endswith("::from") and len(f.args) == 1 and f.args[0][1].strip() == ty \
                    and "datetime::DateTime<U>" in f.ret:
                return f
        raise ExecError(f"no MIR body for From<{ty}> for DateTime<U>")

    def n_slice_iter(ex, callee, args, m):
        arr = _deref(ex, args[0])
        return VStruct("slice::Iter", [arr, VInt(0)])

    def n_slice_next(ex, callee, args, m):
        ref = args[0]
        it = ex.read_at(ref.cell, ref.path)
        arr, pos = it.items[0], it.items[1].conc()
        if pos >= len(arr.items):
            return VOpt(False, None)
        ex.write_at(ref.cell, ref.path, VStruct("slice::Iter", [arr, VInt(pos + 1)]))
        from .exec import Cell
        return VOpt(True, VRef(Cell(arr.items[pos]), ()))

    def n_opt_map(ex, callee, args, m):
        o, clos = args[0], args[1]
        if o.val is None:
            return VOpt(False, None)
        r = ex.call_closure(clos, [o.val])
        return VOpt(o.some, r)

    def n_cr_time(ex, callee, args, m):
        return VStruct("NaiveTime", [VInt(civil(inst(ex, args[0]))[3])])

    def naive_field(kind):
        def f(ex, callee, args, m):
            v_ = _deref(ex, args[0])
            if v_.name == "NaiveDate":
                y, mo, d = (x.t for x in v_.items)
                tod = C(0)
            else:
                y, mo, d, tod = civil(v_.items[0].t)
            h, mi, sec, ns = time_fields(tod)
            return VInt({"year": y, "month": mo, "month0": smt.sub(mo, C(1)), "day": d, "day0": smt.sub(d, C(1)), "hour": h, "minute": mi,
                         "second": sec, "nanosecond": ns}[kind])
        return f

    def n_ndt_date(ex, callee, args, m):
        y, mo, d, tod = civil(_deref(ex, args[0]).items[0].t)
        return VStruct("NaiveDate", [VInt(y), VInt(mo), VInt(d)])

    def n_ndt_time(ex, callee, args, m):
        return VStruct("NaiveTime", [VInt(civil(_deref(ex, args[0]).items[0].t)[3])])

    def n_ndt_ts(div):
        def f(ex, callee, args, m):
            t = _deref(ex, args[0]).items[0].t
            return VInt(smt.idiv(t, C(div)) if div != 1 else t)
        return f

    def n_date_naive(ex, callee, args, m):
        y, mo, d, tod = civil(inst(ex, args[0]))
        return VStruct("NaiveDate", [VInt(y), VInt(mo), VInt(d)])

    S, MS = I64_MAX // 1000, I64_MAX
    return [
        (N(r"^<[UT] as timeunit::TimeUnitTrait>::unit$"), n_unit),
        (N(r"^<timeunit::TimeUnit as PartialEq>::eq$"), n_enum_eq),
        (N(r"^convert::<impl datetime::DateTime<U>>::into_unit::<timeunit::(\w+)>$"), n_into_unit),
        (N(r"^core::num::<impl i64>::div_euclid$"), lambda ex, c, a, m: VInt(_euclid(ex, a, "div"))),
        (N(r"^datetime::DateTime::<[UT]>::(\w+)$"), own("datetime")),
        (N(r"^timedelta::TimeDelta::(is_nat|is_not_nat|nat)$"), own("timedelta")),
        (N(r"^<datetime::DateTime<[UT]> as TryInto<chrono::DateTime<Utc>>>::try_into$"), n_try_into),
        (N(r"^<chrono::DateTime<Utc> as Into<datetime::DateTime<[UT]>>>::into$"), n_into_dt),
        (N(r"^<datetime::DateTime<[UT]> as From<chrono::DateTime<Utc>>>::from$"), n_into_dt),
        (N(r"^<i64 as Into<datetime::DateTime(?:<[\w:]+>)?>>::into$"), n_i64_into),
        (N(r"^chrono::DateTime::<Utc>::from_timestamp$"), from_ts(10 ** 9)),
        (N(r"^chrono::DateTime::<Utc>::from_timestamp_millis$"), from_ts(10 ** 6)),
        (N(r"^chrono::DateTime::<Utc>::from_timestamp_micros$"), from_ts(10 ** 3)),
        (N(r"^chrono::DateTime::<Utc>::from_timestamp_nanos$"), n_from_ts_nanos),
        (N(r"^chrono::DateTime::<Utc>::timestamp$"), ts_floor(10 ** 9)),
        (N(r"^chrono::DateTime::<Utc>::timestamp_millis$"), ts_floor(10 ** 6)),
        (N(r"^chrono::DateTime::<Utc>::timestamp_micros$"), ts_floor(10 ** 3)),
        (N(r"^chrono::DateTime::<Utc>::timestamp_nanos_opt$"), n_ts_nanos_opt),
        (N(r"^Option::<chrono::DateTime<Utc>>::ok_or_else::<"), n_ok_or_else),
        (N(r"^Result::<chrono::DateTime<Utc>, .*>::ok$"), n_res_ok),
        (N(r"^(?:Option::<i64>|Result::<chrono::DateTime<Utc>, RoundingError>)::expect$"), n_expect),
        (N(r"^<chrono::DateTime<Utc> as Add<chrono::TimeDelta>>::add$"), n_cr_add(+1)),
        (N(r"^<chrono::DateTime<Utc> as Sub<chrono::TimeDelta>>::sub$"), n_cr_add(-1)),
        (N(r"^chrono::DateTime::<Utc>::checked_add_signed$"), n_cr_checked(+1)),
        (N(r"^chrono::DateTime::<Utc>::checked_sub_signed$"), n_cr_checked(-1)),
        (N(r"^<chrono::DateTime<Utc> as Sub>::sub$"), n_cr_sub_cr),
        (N(r"^chrono::DateTime::<Utc>::signed_duration_since::<Utc>$"), n_cr_sub_cr),
        (N(r"^<chrono::DateTime<Utc> as DurationRound>::duration_trunc$"), n_trunc),
        (N(r"^chrono::TimeDelta::num_nanoseconds$"), n_num_ns),
        (N(r"^chrono::TimeDelta::num_microseconds$"), lambda ex, c, a, m: VOpt(fits_i64(smt.idiv(_deref(ex, a[0]).items[0].t, C(1000))),
                                                                             num_floor_to_zero(1000)(ex, c, a, m))),
        (N(r"^chrono::TimeDelta::num_milliseconds$"), num_floor_to_zero(10 ** 6)),
        (N(r"^chrono::TimeDelta::num_seconds$"), num_floor_to_zero(10 ** 9)),
        (N(r"^chrono::TimeDelta::nanoseconds$"), dur_ctor(1, None)),
        (N(r"^chrono::TimeDelta::microseconds$"), dur_ctor(10 ** 3, None)),
        (N(r"^chrono::TimeDelta::milliseconds$"), dur_ctor(10 ** 6, MS)),
        (N(r"^chrono::TimeDelta::seconds$"), dur_ctor(10 ** 9, S)),
        (N(r"^chrono::TimeDelta::minutes$"), dur_ctor(60 * 10 ** 9, S // 60)),
        (N(r"^chrono::TimeDelta::hours$"), dur_ctor(3600 * 10 ** 9, S // 3600)),
        (N(r"^chrono::TimeDelta::days$"), dur_ctor(86400 * 10 ** 9, S // 86400)),
        (N(r"^chrono::TimeDelta::weeks$"), dur_ctor(7 * 86400 * 10 ** 9, S // (7 * 86400))),
        (N(r"^chrono::TimeDelta::zero$"), lambda ex, c, a, m: dur(C(0))),
        (N(r"^<chrono::TimeDelta as Add>::add$"), n_dur_op("add")),
        (N(r"^<chrono::TimeDelta as Sub>::sub$"), n_dur_op("sub")),
        (N(r"^<chrono::TimeDelta as Neg>::neg$"), n_dur_op("neg")),
        (N(r"^Months::new$"), n_months_new),
        (N(r"^<chrono::DateTime<Utc> as Add<Months>>::add$"), n_cr_months(+1)),
        (N(r"^<chrono::DateTime<Utc> as Sub<Months>>::sub$"), n_cr_months(-1)),
        (N(r"^chrono::DateTime::<Utc>::checked_add_months$"), n_cr_checked_months(+1)),
        (N(r"^chrono::DateTime::<Utc>::checked_sub_months$"), n_cr_checked_months(-1)),
        (N(r"^<chrono::DateTime<Utc> as Datelike>::year_ce$"), n_year_ce),
        (N(r"^<chrono::DateTime<Utc> as Datelike>::year$"), datelike(0)),
        (N(r"^<chrono::DateTime<Utc> as Datelike>::month$"), datelike(1)),
        (N(r"^<chrono::DateTime<Utc> as Datelike>::month0$"), datelike(1, -1)),
        (N(r"^<chrono::DateTime<Utc> as Datelike>::day$"), datelike(2)),
        (N(r"^<chrono::DateTime<Utc> as Datelike>::day0$"), datelike(2, -1)),
        (N(r"^<chrono::DateTime<Utc> as Datelike>::with_day$"), n_with_day),
        (N(r"^<chrono::DateTime<Utc> as Datelike>::with_day0$"), n_with_day0),
        (N(r"^<chrono::DateTime<Utc> as Datelike>::with_month$"), n_with_month(0)),
        (N(r"^<chrono::DateTime<Utc> as Datelike>::with_month0$"), n_with_month(1)),
        (N(r"^<chrono::DateTime<Utc> as Datelike>::with_year$"), n_with_year),
        (N(r"^<chrono::DateTime<Utc> as Timelike>::(hour|minute|second|nanosecond)$"), lambda ex, c, a, m: tod_part(m.group(1))(ex, c, a, m)),
        (N(r"^<chrono::DateTime<Utc> as Timelike>::with_(hour|minute|second|nanosecond)$"),
         lambda ex, c, a, m: n_with_time_part(m.group(1))(ex, c, a, m)),
        (N(r"^chrono::DateTime::<Utc>::with_time$"), n_with_time),
        (N(r"^(?:chrono::offset::)?LocalResult::<chrono::DateTime<Utc>>::unwrap$"), lambda ex, c, a, m: a[0]),
        (N(r"^MappedLocalTime::<chrono::DateTime<Utc>>::unwrap$"), lambda ex, c, a, m: a[0]),
        (N(r"^NaiveTime::from_hms_opt$"), n_naive_time_hms),
        (N(r"^Option::<NaiveTime>::(?:unwrap|expect)$"), n_expect),
        (N(r"^Option::<(?:chrono::DateTime<Utc>|i64|NaiveDateTime|NaiveTime)>::map::<"), n_opt_map),
        (N(r"^chrono::DateTime::<Utc>::time$"), n_cr_time),
        (N(r"^<(?:NaiveDateTime|NaiveDate) as Datelike>::(year|month|month0|day|day0)$"), lambda ex, c, a, m: naive_field(m.group(1))(ex, c, a, m)),
        (N(r"^<NaiveDateTime as Timelike>::(hour|minute|second|nanosecond)$"), lambda ex, c, a, m: naive_field(m.group(1))(ex, c, a, m)),
        (N(r"^NaiveDateTime::date$"), n_ndt_date),
        (N(r"^NaiveDateTime::time$"), n_ndt_time),
        (N(r"^chrono::DateTime::<Utc>::naive_utc$"), lambda ex, c, a, m: VStruct("NaiveDateTime", [VInt(inst(ex, a[0]))])),
        (N(r"^std::ops::RangeInclusive::<i(?:32|64)>::new$"), lambda ex, c, a, m: VStruct("RangeInclusive", [a[0], a[1]])),
        (N(r"^std::ops::RangeInclusive::<i(?:32|64)>::contains::<i(?:32|64)>$"),
         lambda ex, c, a, m: VBool(smt.and_(smt.le(_deref(ex, a[0]).items[0].t, _deref(ex, a[1]).t), smt.le(_deref(ex, a[1]).t, _deref(ex, a[0]).items[1].t)))),
        (N(r"^std::ops::Range::<i(?:32|64)>::contains::<i(?:32|64)>$"),
         lambda ex, c, a, m: VBool(smt.and_(smt.le(_deref(ex, a[0]).items[0].t, _deref(ex, a[1]).t), smt.lt(_deref(ex, a[1]).t, _deref(ex, a[0]).items[1].t)))),
        (N(r"^Option::<i64>::is_none$"), lambda ex, c, a, m: VBool(smt.not_(_deref(ex, a[0]).some))),
        (N(r"^Option::<i64>::is_some$"), lambda ex, c, a, m: VBool(_deref(ex, a[0]).some)),
        (N(r"^Option::<&str>::unwrap_or$"), n_unwrap_or),
        (N(r"^chrono::DateTime::<Utc>::format$"), n_cr_format),
        (N(r"^<DelayedFormat<StrftimeItems<'_>> as ToString>::to_string$"), n_df_to_string),
        (N(r"^<str as ToString>::to_string$"), n_str_to_string),
        (N(r"^NaiveDateTime::parse_from_str$"), n_parse_dt),
        (N(r"^NaiveDate::parse_from_str$"), n_parse_date),
        (N(r"^NaiveTime::parse_from_str$|^core::str::<impl str>::parse::<NaiveTime>$"), n_parse_time),
        (N(r"^<NaiveTime as Timelike>::num_seconds_from_midnight$"), n_time_secs),
        (N(r"^<NaiveTime as Timelike>::nanosecond$"), n_time_nanos),
        (N(r"^Result::<NaiveTime, chrono::ParseError>::map_err::<"), lambda ex, c, a, m: VRes(a[0].ok, a[0].val, VOpaque("TError"))),
        (N(r"^<Result<NaiveTime, tea_error::TError> as Try>::branch$"), lambda ex, c, a, m: VRes(a[0].ok, a[0].val, VRes(False, None, a[0].err))),
        (N(r"^<Result<Time, tea_error::TError> as FromResidual<Result<Infallible, tea_error::TError>>>::from_residual$"),
         lambda ex, c, a, m: VRes(False, None, VOpaque("TError"))),
        (N(r"^chrono::DateTime::<Utc>::from_naive_utc_and_offset$"), n_from_naive),
        (N(r"^<NaiveDateTime as Into<datetime::DateTime<[UT]>>>::into$"), n_ndt_into),
        (N(r"^<NaiveDate as Into<datetime::DateTime<[UT]>>>::into$"), n_nd_into),
        (N(r"^core::slice::<impl \[&str\]>::iter$"), n_slice_iter),
        (N(r"^<std::slice::Iter<'_, &str> as IntoIterator>::into_iter$"), lambda ex, c, a, m: a[0]),
        (N(r"^<std::slice::Iter<'_, &str> as Iterator>::next$"), n_slice_next),
        (N(r"^Arguments::<'_>::|^std::fmt::format$|^must_use::<String>$|^<String as Into<ErrInfo>>::into$|"
           r"^core::fmt::rt::Argument::<'_>::|^tea_error::__private::must_use$"), lambda ex, c, a, m: VOpaque(c.split("::")[-1])),
        (N(r"^NaiveDate::from_ymd_opt$"), n_from_ymd_opt),
        (N(r"^NaiveDate::and_hms_opt$"), n_and_hms_opt),
        (N(r"^NaiveDate::and_time$"), n_and_time),
        (N(r"^NaiveDateTime::and_utc$"), n_and_utc),
        (N(r"^chrono::DateTime::<Utc>::date_naive$"), n_date_naive),
        (N(r"^Option::<(?:NaiveDate|NaiveDateTime|chrono::DateTime<Utc>)>::(?:unwrap|expect)$"), n_expect),
        (N(r"^core::num::<impl i32>::abs$"), lambda ex, c, a, m: VInt(smt.ite(smt.lt(a[0].t, C(0)), smt.neg(a[0].t), a[0].t))),
        (N(r"^core::num::<impl i(?:32|64)>::rem_euclid$"), lambda ex, c, a, m: VInt(_euclid(ex, a, "rem"))),
        (N(r"^core::num::<impl i(?:32|64)>::div_euclid$"), lambda ex, c, a, m: VInt(_euclid(ex, a, "div"))),
        (N(r"^<i32 as Ord>::cmp$"), n_i32_cmp),
        (N(r"Months|Datelike|NaiveDate|NaiveTime|with_month|with_year|with_day"), n_outside),
    ] + natives.NATIVES


# ---------------------------------------------------------------------------------------------------------------------
# calendar contract: chrono's dates are the proleptic Gregorian calendar; (year, month, day) <-> day number by the standard
# civil-from-days / days-from-civil arithmetic (floor divisions by constants only, so everything stays linear)
_civil_memo = {}


def civil(t):
    """instant (ns, Int term) -> (year, month 1..12, day 1..31, ns of day) as terms"""
    hit = _civil_memo.get(t)
    if hit is not None:
        return hit
    days, tod = smt.idiv(t, C(NS_DAY)), smt.imod(t, C(NS_DAY))
    z = smt.add(days, C(719468))
    era = smt.idiv(z, C(146097))
    doe = smt.sub(z, smt.mul(era, C(146097)))
    yoe = smt.idiv(smt.sub(smt.add(smt.sub(doe, smt.idiv(doe, C(1460))), smt.idiv(doe, C(36524))), smt.idiv(doe, C(146096))), C(365))
    doy = smt.sub(doe, smt.sub(smt.add(smt.mul(yoe, C(365)), smt.idiv(yoe, C(4))), smt.idiv(yoe, C(100))))
    mp = smt.idiv(smt.add(smt.mul(doy, C(5)), C(2)), C(153))
    d = smt.add(smt.sub(doy, smt.idiv(smt.add(smt.mul(mp, C(153)), C(2)), C(5))), C(1))
    m = smt.ite(smt.lt(mp, C(10)), smt.add(mp, C(3)), smt.sub(mp, C(9)))
    y = smt.add(smt.add(yoe, smt.mul(era, C(400))), smt.ite(smt.le(m, C(2)), C(1), C(0)))
    _civil_memo[t] = (y, m, d, tod)
    return _civil_memo[t]


def is_leap(y):
    return smt.and_(smt.eq(smt.imod(y, C(4)), C(0)), smt.or_(smt.ne(smt.imod(y, C(100)), C(0)), smt.eq(smt.imod(y, C(400)), C(0))))


def days_in_month(y, m):
    thirty = smt.or_(smt.eq(m, C(4)), smt.eq(m, C(6)), smt.eq(m, C(9)), smt.eq(m, C(11)))
    return smt.ite(smt.eq(m, C(2)), smt.ite(is_leap(y), C(29), C(28)), smt.ite(thirty, C(30), C(31)))


def days_from_civil(y, m, d):
    y2 = smt.sub(y, smt.ite(smt.le(m, C(2)), C(1), C(0)))
    era = smt.idiv(y2, C(400))
    yoe = smt.sub(y2, smt.mul(era, C(400)))
    mp = smt.ite(smt.gt(m, C(2)), smt.sub(m, C(3)), smt.add(m, C(9)))
    doy = smt.sub(smt.add(smt.idiv(smt.add(smt.mul(mp, C(153)), C(2)), C(5)), d), C(1))
    doe = smt.add(smt.sub(smt.add(smt.mul(yoe, C(365)), smt.idiv(yoe, C(4))), smt.idiv(yoe, C(100))), doy)
    return smt.sub(smt.add(smt.mul(era, C(146097)), doe), C(719468))


def instant_of(y, m, d, tod):
    """instant of valid calendar fields; registers the fields with the term (calendar bijection, see calendar_roundtrip), so a
    later civil() of an instant built from fields is those fields and not the inverse day-number arithmetic"""
    t = smt.add(smt.mul(days_from_civil(y, m, d), C(NS_DAY)), tod)
    _civil_memo.setdefault(t, (y, m, d, tod))
    return t


def shift_months(t, n):
    """chrono's `DateTime +- Months`: move n (signed Int term) calendar months, clamp the day to the target month's length"""
    y, m, d, tod = civil(t)
    y2, m2, d2 = shift_fields(y, m, d, n)
    return instant_of(y2, m2, d2, tod)


def month_start(t, dm):
    """first instant of the dm-month period (dm divides 12) of the calendar year containing t"""
    y, m, d, tod = civil(t)
    m0 = smt.sub(m, C(1))
    ms = smt.add(smt.sub(m0, smt.imod(m0, C(dm))), C(1))
    return instant_of(y, ms, C(1), C(0))


def _euclid(ex, a, what):
    x, y = a[0].t, a[1].t
    if not (y.is_const and y.val > 0):
        raise ExecError("euclidean division by a non-constant or non-positive divisor")
    return smt.imod(x, y) if what == "rem" else smt.idiv(x, y)


def n_i32_cmp(ex, callee, args, m):
    a, b = _deref(ex, args[0]).t, _deref(ex, args[1]).t
    # core::cmp::Ordering: the MIR switches on its discriminant, Less printing as 255 (-1i8 as u8)
    return VEnum(smt.ite(smt.lt(a, b), C(255), smt.ite(smt.eq(a, b), C(0), C(1))))


def find_ops(E):
    """the generic operator impls, located by their signatures (not by line numbers)"""
    out = {}
    for n, f in E.fns.items():
        if n.startswith("impl_ops::<impl at ") and len(f.args) == 2:
            a0, a1, ret = f.args[0][1].strip(), f.args[1][1].strip(), f.ret.strip()
            if a0 == "datetime::DateTime<U>" and a1 == "timedelta::TimeDelta" and ret == "datetime::DateTime<U>":
                out["add" if n.endswith("::add") else "sub"] = f
            elif a0 == a1 == "datetime::DateTime<U>" and ret == "timedelta::TimeDelta" and n.endswith("::sub"):
                out["diff"] = f
        elif re.fullmatch(r"datetime::<impl at [^>]*>::duration_trunc", n):
            out["trunc"] = f
    missing = {"add", "sub", "diff", "trunc"} - set(out)
    if missing:
        raise ExecError(f"cannot locate the DateTime operators {sorted(missing)} in the MIR dump")
    return out


def dom_ts(ts, uns, wide=False):
    """timestamp at unit `uns` denotes an instant of the property's range 1678..2262 (and is not NaT)"""
    return [smt.le(C(DOM_LO), smt.mul(ts, C(uns))), smt.lt(smt.mul(ts, C(uns)), C(DOM_HI)), smt.ne(ts, C(I64_MIN))]


class Run:
    """one execution of an operator chain; collects obligations"""

    def __init__(self, E, unit):
        self.E, self.unit = E, unit
        consts = dict(E.consts)
        consts["chrono::NaiveTime::MIN"] = consts["NaiveTime::MIN"] = VStruct("NaiveTime", [VInt(0)])
        consts["Utc"] = consts["chrono::Utc"] = VStruct("Utc", [])
        self.ex = Executor(E.fns, E.solver, consts, make_natives(E, unit), "f64")
        self.ex.normalizer = None
        self.ex.cr_seen = []          # (path condition, instant) of every chrono -> timestamp conversion
        self.ex.model_gaps = []       # (condition, what) that must be unreachable for a verdict to count

    def call(self, fn, args):
        r = self.ex.exec_fn(fn, args)
        if r is _DIVERGE:
            raise ExecError(f"{fn.name} diverges on every path")
        return r


def ask_all(E, dom, run, qs, wit=()):
    """qs: [(extra constraints, message)] -> (n, fails [(msg, model)], unknown [msg]); a witness that is not `sat` means
    the domain/encoding is vacuous and is reported as unknown"""
    fails, unk = [], []
    for extra, msg in wit:
        st, _ = E.ask(dom + run.ex.assumptions + extra)
        if st != "sat":
            unk.append("vacuity witness not reachable: " + msg)
    for extra, msg in qs:
        st, model = E.ask(dom + run.ex.assumptions + extra)
        if st == "sat":
            fails.append((msg, model))
        elif st == "unknown":
            unk.append(msg)
    return len(qs) + len(wit), fails, unk


def check_add_sub(E, ops, unit, first):
    """(t op d) inverse-op d == t for month-free d that is a whole number of units; value law for every month-free d."""
    uns = UNITS[unit][1]
    t, k, r = smt.var("t", smt.INT), smt.var("k", smt.INT), smt.var("r", smt.INT)
    d = smt.add(smt.mul(k, C(uns)), r)                       # duration in ns = k units + r, 0 <= r < unit
    sgn = 1 if first == "add" else -1
    mid_inst = smt.add(smt.mul(t, C(uns)), d) if sgn > 0 else smt.sub(smt.mul(t, C(uns)), d)
    dom = dom_ts(t, uns) + [smt.le(C(0), r), smt.lt(r, C(uns)), smt.le(C(-DUR_MAX), d), smt.le(d, C(DUR_MAX)),
                            smt.le(C(DOM_LO), mid_inst), smt.lt(mid_inst, C(DOM_HI))]
    run = Run(E, unit)
    mid = run.call(ops[first], [datetime(t), timedelta(C(0), d)])
    n_ob = len(run.ex.obligations)
    back = run.call(ops["sub" if first == "add" else "add"], [mid, timedelta(C(0), d)])
    m, b = mid.items[0].t, back.items[0].t
    whole = smt.eq(r, C(0))
    want_mid = smt.idiv(mid_inst, C(uns)) if uns != 1 else mid_inst
    name = "t + d" if sgn > 0 else "t - d"
    qs = [([smt.ne(m, want_mid)], f"{name} is not the instant floored to the unit"),
          ([smt.eq(m, C(I64_MIN))], f"{name} is NaT for valid in-range operands"),
          ([whole, smt.ne(b, t)], f"({name}) {'-' if sgn > 0 else '+'} d does not return the original instant")]
    for i, ob in enumerate(run.ex.obligations):
        pre = [] if i < n_ob else [whole]
        qs.append((pre + [ob.cond], "panic for valid in-range operands: " + ob.msg))
    wit = [([whole, smt.ne(k, C(0)), smt.ne(m, C(I64_MIN))], "a non-zero whole-unit shift with a valid result"),
           ([smt.not_(whole), smt.lt(t, C(0))] if uns > 1 else [smt.lt(t, C(0)), smt.lt(k, C(0))], "sub-unit duration on a pre-epoch instant")]
    return (dom, run, qs, {"t": t, "k": k, "r": r}, wit)


def check_diff(E, ops, unit):
    """(a - b) + b == a; a - b is the exact difference"""
    uns = UNITS[unit][1]
    a, b = smt.var("a", smt.INT), smt.var("b", smt.INT)
    dom = dom_ts(a, uns) + dom_ts(b, uns)
    run = Run(E, unit)
    dd = run.call(ops["diff"], [datetime(a), datetime(b)])
    months, ns = dd.items[0].t, dd.items[1].items[0].t
    # the month part is asked to be 0 for every valid pair (first query); the addition then runs on the month-free value
    back = run.call(ops["add"], [datetime(b), timedelta(C(0), ns)])
    qs = [([smt.ne(months, C(0))], "a - b carries a month part (or is NaT) for valid operands"),
          ([smt.ne(ns, smt.mul(smt.sub(a, b), C(uns)))], "a - b is not the exact difference of the instants"),
          ([smt.ne(back.items[0].t, a)], "(a - b) + b does not give back a")]
    for ob in run.ex.obligations:
        qs.append(([ob.cond], "panic for valid in-range operands: " + ob.msg))
    wit = [([smt.gt(ns, C(I64_MAX))] if uns == 1 else [smt.gt(ns, C(10 ** 18))], "operands far apart (difference beyond 2^63 ns for the ns unit)"),
           ([smt.lt(a, b), smt.lt(b, C(0))], "negative difference of pre-epoch instants")]
    return (dom, run, qs, {"a": a, "b": b}, wit)


# month-free truncation spans (ns); each must be a whole number of the date-time's unit for the law "greatest multiple
# of the duration not after it" to be expressible at that unit; sub-unit spans are checked to be the identity
SPANS = [("1ns", 1), ("250ns", 250), ("1us", 10 ** 3), ("1ms", 10 ** 6), ("7ms", 7 * 10 ** 6), ("1s", 10 ** 9), ("90s", 90 * 10 ** 9),
         ("1m", 60 * 10 ** 9), ("15m", 900 * 10 ** 9), ("1h", 3600 * 10 ** 9), ("1d", NS_DAY), ("1w", 7 * NS_DAY), ("36500d", 36500 * NS_DAY)]


def check_trunc(E, ops, unit, span_ns):
    uns = UNITS[unit][1]
    t = smt.var("t", smt.INT)
    dom = dom_ts(t, uns)
    run = Run(E, unit)
    out = run.call(ops["trunc"], [datetime(t), timedelta(C(0), C(span_ns))])
    o = out.items[0].t
    inst = smt.mul(t, C(uns))
    want_inst = smt.sub(inst, smt.imod(inst, C(span_ns)))               # greatest multiple of span not after the instant
    want = smt.idiv(want_inst, C(uns)) if uns != 1 else want_inst
    dom.append(smt.le(C(DOM_LO), want_inst))                            # the truncated instant is itself within range
    qs = [([smt.ne(o, want)], "truncation is not the greatest multiple of the duration not after the instant"),
          ([smt.eq(o, C(I64_MIN))], "truncation of a valid date-time is NaT")]
    for ob in run.ex.obligations:
        qs.append(([ob.cond], "panic for a valid in-range date-time: " + ob.msg))
    wit = [([smt.lt(t, C(0))] + ([smt.ne(want, t)] if span_ns > uns else []), "pre-epoch instant strictly inside a span"),
           ([smt.gt(t, C(0)), smt.eq(want, t)], "post-epoch instant on a span boundary")]
    return (dom, run, qs, {"t": t}, wit)


def civil_vars(unit):
    """A valid date-time given by its calendar fields: Int variables year/month/day and the within-day part `w` counted in
    the date-time's unit. The timestamp is days_from_civil(y, m, d) * units_per_day + w; the instant the contract natives build
    from it (timestamp * unit) is registered with its civil fields, which is the calendar bijection
    civil(instant_of(y, m, d, tod)) = (y, m, d, tod) (checked for every day of the range by `calendar_roundtrip`)."""
    uns = UNITS[unit][1]
    y, m, d, w = (smt.var(n, smt.INT) for n in ("y", "m", "d", "w"))
    per_day = NS_DAY // uns
    ts = smt.add(smt.mul(days_from_civil(y, m, d), C(per_day)), w)
    inst = smt.mul(ts, C(uns)) if uns != 1 else ts
    _civil_memo[inst] = (y, m, d, smt.mul(w, C(uns)) if uns != 1 else w)
    if uns != 1:
        _civil_memo[smt.mul(ts, C(uns))] = _civil_memo[inst]
    dom = [smt.le(C(1), m), smt.le(m, C(12)), smt.le(C(1), d), smt.le(d, days_in_month(y, m)), smt.le(C(0), w), smt.lt(w, C(per_day)),
           smt.le(C(1677), y), smt.le(y, C(2262)), smt.le(C(DOM_LO), inst), smt.lt(inst, C(DOM_HI))]
    return ts, inst, (y, m, d, w), dom


def calendar_roundtrip():
    """every day of 1677..2263: civil-from-days inverts days-from-civil (plain integers; the identity civil_vars relies on)"""
    lo, hi = _days_from_civil(1677, 1, 1), _days_from_civil(2263, 1, 1)
    prev = None
    for day in range(lo, hi):
        y, m, d = _py_civil(day)
        if _days_from_civil(y, m, d) != day or not (1 <= m <= 12 and 1 <= d <= _py_dim(y, m)):
            return f"day {day} -> {(y, m, d)} does not round-trip"
        if prev is not None and (y, m, d) <= prev:
            return f"calendar order broken at day {day}"
        prev = (y, m, d)
    return None


def shift_fields(y, m, d, n):
    total = smt.add(smt.add(smt.mul(y, C(12)), smt.sub(m, C(1))), n)
    y2, m2 = smt.idiv(total, C(12)), smt.add(smt.imod(total, C(12)), C(1))
    dim = days_in_month(y2, m2)
    return y2, m2, smt.ite(smt.lt(d, dim), d, dim)


def check_month_trunc(E, ops, unit, dm):
    """duration_trunc by a whole number of months dividing 12 = first instant of the month / quarter / half-year / year"""
    uns = UNITS[unit][1]
    ts, inst, (y, m, d, w), dom = civil_vars(unit)
    m0 = smt.sub(m, C(1))
    want_inst = instant_of(y, smt.add(smt.sub(m0, smt.imod(m0, C(dm))), C(1)), C(1), C(0))
    dom = dom + [smt.le(C(DOM_LO), want_inst)]
    run = Run(E, unit)
    out = run.call(ops["trunc"], [datetime(ts), timedelta(C(dm), C(0))])
    o = out.items[0].t
    want = smt.idiv(want_inst, C(uns)) if uns != 1 else want_inst
    msg = f"truncation to {dm} month(s) is not the first instant of the calendar period containing the date-time"
    # the equality of two day-number expressions is decided through their calendar fields: on every path that converts a chrono
    # instant back to a timestamp, the instant's fields are (y, period start month, 1, 00:00) and the result is its floor
    ms = smt.add(smt.sub(m0, smt.imod(m0, C(dm))), C(1))
    qs, pcs = [], []
    for pc, it in run.ex.cr_seen:
        f = civil(it)
        qs.append(([pc, smt.or_(smt.ne(f[0], y), smt.ne(f[1], ms), smt.ne(f[2], C(1)), smt.ne(f[3], C(0)))], msg))
        qs.append(([pc, smt.ne(o, smt.idiv(it, C(uns)) if uns != 1 else it)], msg))
        pcs.append(pc)
    qs.append(([smt.not_(smt.or_(*pcs)) if pcs else smt.TRUE, smt.ne(o, want)], msg))
    for ob in run.ex.obligations:
        qs.append(([ob.cond], "panic for a valid in-range date-time: " + ob.msg))
    wit = [([smt.lt(ts, C(0)), smt.eq(m, C(1)), smt.gt(d, C(28))], "pre-epoch instant late in January"),
           ([smt.gt(ts, C(0)), smt.eq(m, C(12)), smt.eq(d, C(31)), smt.gt(w, C(0))], "post-epoch instant on 31 December, not midnight"),
           ([smt.eq(d, C(1)), smt.eq(w, C(0)), smt.eq(m, C(1))], "instant already on a period start")]
    return (dom, run, qs, {"y": y, "m": m, "d": d, "w": w}, wit)


def check_month_shift(E, ops, unit, op, nlo=-1200, nhi=1200):
    """DateTime<U> +- TimeDelta{months n, no sub-month part} = the calendar shift with end-of-month clamping, every n in nlo..nhi"""
    uns = UNITS[unit][1]
    ts, inst, (y, m, d, w), dom = civil_vars(unit)
    n = smt.var("n", smt.INT)
    y2, m2, d2 = shift_fields(y, m, d, n if op == "add" else smt.neg(n))
    want_inst = instant_of(y2, m2, d2, smt.mul(w, C(uns)) if uns != 1 else w)
    dom = dom + [smt.le(C(nlo), n), smt.le(n, C(nhi)), smt.ne(n, C(0)), smt.le(C(DOM_LO), want_inst), smt.lt(want_inst, C(DOM_HI))]
    run = Run(E, unit)
    out = run.call(ops[op], [datetime(ts), timedelta(n, C(0))])
    o = out.items[0].t
    want = smt.idiv(want_inst, C(uns)) if uns != 1 else want_inst
    qs = [([smt.ne(o, want)], f"t {'+' if op == 'add' else '-'} n months is not the calendar shift with end-of-month clamping")]
    for ob in run.ex.obligations:
        qs.append(([ob.cond], "panic for valid in-range operands: " + ob.msg))
    wit = [([smt.eq(d, C(31)), smt.eq(d2, C(28)), smt.lt(n, C(0))], "31st clamped to 28 February by a negative month count"),
           ([smt.eq(d, C(31)), smt.eq(d2, C(29)), smt.gt(n, C(12))], "31st clamped to 29 February more than a year away"),
           ([smt.lt(ts, C(0)), smt.eq(d2, d), smt.ne(y2, y)], "pre-epoch instant, unclamped, crossing a year")]
    return (dom, run, qs, {"y": y, "m": m, "d": d, "w": w, "n": n}, wit)


# ---------------------------------------------------------------------------------------------------------------------
# native side: the real functions (and the real chrono) through /verif/replay's `dtop` command
def native_dtop(op, unit, *nums):
    from . import replay as rp
    p = rp._get()
    p.stdin.write(f"dtop {op} {SHORT[unit]} " + " ".join(str(int(n)) for n in nums) + "\n")
    p.stdin.flush()
    out = p.stdout.readline()
    if not out:
        raise RuntimeError("native replay helper died")
    return out.strip()


def _py_civil(days):
    z = days + 719468
    era = z // 146097
    doe = z - era * 146097
    yoe = (doe - doe // 1460 + doe // 36524 - doe // 146096) // 365
    doy = doe - (365 * yoe + yoe // 4 - yoe // 100)
    mp = (5 * doy + 2) // 153
    d = doy - (153 * mp + 2) // 5 + 1
    m = mp + 3 if mp < 10 else mp - 9
    return yoe + era * 400 + (m <= 2), m, d


def _py_dim(y, m):
    return 29 if m == 2 and (y % 4 == 0 and (y % 100 != 0 or y % 400 == 0)) else 28 if m == 2 else 30 if m in (4, 6, 9, 11) else 31


def py_shift_months(inst, n):
    y, m, d = _py_civil(inst // NS_DAY)
    total = y * 12 + m - 1 + n
    y2, m2 = total // 12, total % 12 + 1
    return (_days_from_civil(y2, m2, min(d, _py_dim(y2, m2)))) * NS_DAY + inst % NS_DAY


def py_month_start(inst, dm):
    y, m, d = _py_civil(inst // NS_DAY)
    return _days_from_civil(y, (m - 1) - (m - 1) % dm + 1, 1) * NS_DAY


def law_value(op, unit, *n):
    """what the property's law gives, in plain integers (None: the law does not determine a value for these operands)"""
    u = UNITS[unit][1]
    if op in ("add", "sub") and n[1] != 0:
        t, months, d = n
        if d != 0:
            return None
        return str(py_shift_months(t * u, months if op == "add" else -months) // u)
    if op == "trunc" and n[1] != 0:
        t, months, d = n
        if d != 0 or months < 0 or 12 % months != 0:
            return None
        return str(py_month_start(t * u, months) // u)
    if op in ("add", "sub"):
        t, months, d = n
        inst = t * u + (d if op == "add" else -d)
        return str(inst // u)
    if op in ("addsub", "subadd"):
        t, months, d = n
        return str(t) if d % u == 0 else None
    if op == "diff":
        a, b = n
        return f"0 {(a - b) * u}"
    if op == "diffadd":
        return str(n[0])
    if op == "trunc":
        t, months, span = n
        inst = t * u
        return str((inst - inst % span) // u)
    raise ValueError(op)


def const_of(term):
    if term.is_const:
        return int(term.val)
    return int(smt.evaluate(term, {}))


def symbolic_on(E, ops, op, unit, *n):
    """the encoding (MIR + chrono contract) on concrete operands -> printed like the native helper, or 'PANIC'"""
    run = Run(E, unit)
    try:
        if op in ("add", "sub", "addsub", "subadd"):
            t, months, d = n
            r = run.call(ops[op[:3]], [datetime(C(t)), timedelta(C(months), C(d))])
            if len(op) > 3:
                r = run.call(ops[op[3:]], [r, timedelta(C(months), C(d))])
            res = str(const_of(r.items[0].t))
        elif op == "diff":
            r = run.call(ops["diff"], [datetime(C(n[0])), datetime(C(n[1]))])
            res = f"{const_of(r.items[0].t)} {const_of(r.items[1].items[0].t)}"
        elif op == "diffadd":
            r = run.call(ops["diff"], [datetime(C(n[0])), datetime(C(n[1]))])
            r = run.call(ops["add"], [datetime(C(n[1])), r])
            res = str(const_of(r.items[0].t))
        else:
            t, months, span = n
            r = run.call(ops["trunc"], [datetime(C(t)), timedelta(C(months), C(span))])
            res = str(const_of(r.items[0].t))
    except ExecError as e:
        if "diverges" in str(e):
            return "PANIC"
        raise
    for ob in run.ex.obligations:
        c = ob.cond
        if (c.is_const and c.val) or (not c.is_const and smt.evaluate(c, {})):
            return "PANIC"
    return "R " + res


def validation_cases(unit, rng):
    """concrete operands on which the encoding must agree with the real code + the real chrono (contract validation)"""
    u = UNITS[unit][1]
    lo, hi = -(-DOM_LO // u), (DOM_HI - 1) // u
    ts = [0, 1, -1, lo, hi, 100, -100, 1_600_000_000 * (10 ** 9 // u), -3_000_000_007 * (10 ** 9 // u) - 1] + \
         [rng.randint(lo, hi) for _ in range(6)]
    ds = [0, 1, -1, u, -u, u // 2 if u > 1 else 3, -(u // 2) if u > 1 else -3, 86400 * 10 ** 9 + 1, -(10 ** 9) * 3600 - 999_999_999,
          7 * u + (u - 1 if u > 1 else 0), rng.randint(-10 ** 15, 10 ** 15)]
    cases = []
    for i, t in enumerate(ts):
        for j, d in enumerate(ds):
            if (i + j) % 3 == 0 and DOM_LO <= t * u + d < DOM_HI and DOM_LO <= t * u - d < DOM_HI:
                cases += [("add", t, 0, d), ("sub", t, 0, d), ("addsub", t, 0, d), ("subadd", t, 0, d)]
    for i, a in enumerate(ts):
        b = ts[(i * 5 + 3) % len(ts)]
        cases += [("diff", a, b), ("diffadd", a, b)]
    spans = [s for _, s in SPANS] + [rng.randint(1, 10 ** 13)]
    for i, t in enumerate(ts):
        for j, s in enumerate(spans):
            if (i + 2 * j) % 4 == 0 and t * u - (t * u) % s >= DOM_LO:
                cases.append(("trunc", t, 0, s))
    for i, t in enumerate(ts):
        for j, mo in enumerate((1, -1, 2, 3, 12, -13, 1200, -1199, 25)):
            if (i + j) % 3 == 0:
                for op, sg in (("add", 1), ("sub", -1)):
                    if DOM_LO <= py_shift_months(t * u, sg * mo) < DOM_HI:
                        cases.append((op, t, mo, 0))
    # end-of-month days: 31 Jan / 31 Mar / 29 Feb 2000 / 29 Feb 1904 (pre-epoch) at 23:59:59
    for (y, m_, d_) in ((2021, 1, 31), (2023, 3, 31), (2000, 2, 29), (1904, 2, 29), (1899, 12, 31), (2100, 1, 31)):
        t = (_days_from_civil(y, m_, d_) * NS_DAY + 86399 * 10 ** 9) // u
        for mo in (1, -1, 11, 12, -12, 48, -48, 1200):
            if DOM_LO <= py_shift_months(t * u, mo) < DOM_HI:
                cases += [("add", t, mo, 0), ("sub", t, -mo, 0)]
    # outside the property's range and degenerate spans: contract edges (panics / NaT must agree too)
    cases += [("trunc", ts[5], 0, 0), ("trunc", ts[5], 0, -5), ("add", I64_MIN, 0, 5), ("diff", I64_MIN, 7), ("trunc", I64_MIN, 0, 10 ** 9)]
    if unit != "Nanosecond":
        cases += [("add", (2 ** 62) // 1000, 0, 5), ("trunc", (DOM_HI // u) * 2, 0, 10 ** 9), ("diff", (DOM_HI // u) * 3, -(DOM_HI // u) * 3)]
    else:
        cases += [("add", I64_MAX, 0, 10 ** 9), ("add", I64_MAX - 5, 0, 5), ("diff", I64_MAX, I64_MIN + 1)]
    return cases


def validate(E, ops, unit, rng):
    """-> (n cases, [mismatch descriptions])"""
    bad, n = [], 0
    for c in validation_cases(unit, rng):
        op, nums = c[0], c[1:]
        nat = native_dtop(op, unit, *nums)
        try:
            sym = symbolic_on(E, ops, op, unit, *nums)
        except ExecError as e:
            bad.append(f"{op} {unit} {nums}: encoding cannot run: {e}")
            continue
        n += 1
        if nat.startswith("PANIC") != sym.startswith("PANIC") or (not nat.startswith("PANIC") and nat != sym):
            bad.append(f"{op} {unit} {nums}: native '{nat[:80]}' vs encoding '{sym}'")
    return n, bad


# ---------------------------------------------------------------------------------------------------------------------
# C18: formatting a date-time and parsing the text back (tevec's strftime / parse executed from MIR, chrono's format
# interpreter replaced by the contract model of chrono_fmt.py)
def find_text_fns(E):
    out = {}
    for n, f in E.fns.items():
        if re.fullmatch(r"datetime::<impl at [^>]*>::strftime", n):
            out["strftime"] = f
        elif re.fullmatch(r"datetime::<impl at [^>]*>::parse", n) and "DateTime<U>" in f.ret:
            out["parse"] = f
    if set(out) != {"strftime", "parse"}:
        raise ExecError("cannot locate DateTime::strftime / DateTime::parse in the MIR dump")
    return out


def rule_list(E):
    """the default rule list, read from the MIR of the current tree"""
    c = [f for n, f in E.fns.items() if n == "const::TIME_RULE_VEC"]
    if len(c) != 1:
        raise ExecError("cannot locate TIME_RULE_VEC in the MIR dump")
    ex = Executor(E.fns, E.solver, E.consts, natives.NATIVES, "f64")
    arr = ex.exec_fn(c[0], [])
    return [bytes(int(b.val) for b in s.bytes).decode("ascii") for s in arr.items]


def civil_vars_hms(unit):
    """civil_vars with the within-day part given by hour / minute / second / sub-second variables (sub in units of the
    date-time's resolution)"""
    uns = UNITS[unit][1]
    y, m, d, h, mi, sec = (smt.var(n, smt.INT) for n in ("y", "m", "d", "h", "mi", "sec"))
    per_s = 10 ** 9 // uns
    # the sub-second part is given by its decimal digits (9 for ns, 6 for us, 3 for ms, none for s): the formatter's digits are
    # then these variables and not nine nested div/mod terms
    nd = {1: 9, 10 ** 3: 6, 10 ** 6: 3, 10 ** 9: 0}[uns]
    fd = [smt.var(f"f{k}", smt.INT) for k in range(nd)]          # most significant first
    sub = C(0)
    for dterm in fd:
        sub = smt.add(smt.mul(sub, C(10)), dterm)
    w = smt.add(smt.mul(smt.add(smt.add(smt.mul(h, C(3600)), smt.mul(mi, C(60))), sec), C(per_s)), sub)
    per_day = NS_DAY // uns
    ts = smt.add(smt.mul(days_from_civil(y, m, d), C(per_day)), w)
    inst = smt.mul(ts, C(uns)) if uns != 1 else ts
    tod = smt.mul(w, C(uns)) if uns != 1 else w
    ns = smt.mul(sub, C(uns)) if uns != 1 else sub
    _civil_memo[inst] = (y, m, d, tod)
    _tod_memo[tod] = (h, mi, sec, ns)
    all9 = fd + [C(0)] * (9 - nd)
    chrono_fmt.DIGITS_MEMO[(ns, 9)] = all9
    chrono_fmt.DIGITS_MEMO[(smt.idiv(ns, C(10 ** 6)), 3)] = all9[:3]
    chrono_fmt.DIGITS_MEMO[(smt.idiv(ns, C(10 ** 3)), 6)] = all9[:6]
    dom = [smt.le(C(1), m), smt.le(m, C(12)), smt.le(C(1), d), smt.le(d, days_in_month(y, m)),
           smt.le(C(0), h), smt.le(h, C(23)), smt.le(C(0), mi), smt.le(mi, C(59)), smt.le(C(0), sec), smt.le(sec, C(59))] + \
          [smt.and_(smt.le(C(0), dt_), smt.le(dt_, C(9))) for dt_ in fd] + [
           smt.le(C(1677), y), smt.le(y, C(2262)), smt.le(C(DOM_LO), inst), smt.lt(inst, C(DOM_HI))]
    return ts, inst, {"y": y, "m": m, "d": d, "h": h, "mi": mi, "sec": sec, "sub": sub, "ns": ns, "tod": tod, "fd": fd}, dom


def printed_fields(fmt):
    f = set()
    for it in chrono_fmt.items(fmt):
        if it[0] == "num":
            f.add(it[1])
        elif it[0] == "frac":
            f.add("nano")
    return f


def check_text_roundtrip(E, tf, unit, cls, fmt=None):
    """strftime(fmt) then parse(text, fmt): the same timestamp, for every date-time of the range whose fraction is of class `cls`
    (and, for an explicit format, whose fields the format does not print are zero)."""
    from .exec import Cell
    uns = UNITS[unit][1]
    ts, inst, V, dom = civil_vars_hms(unit)
    dom = dom + chrono_fmt.frac_class_constraint(V["ns"], cls)
    if fmt is not None:
        pf = printed_fields(fmt)
        for name, var in (("hour", V["h"]), ("minute", V["mi"]), ("second", V["sec"]), ("nano", V["sub"])):
            if name not in pf:
                dom.append(smt.eq(var, C(0)))
        if not ({"year", "month", "day"} <= pf):
            raise ExecError(f"format {fmt!r} does not print a full date")
    run = Run(E, unit)
    run.ex.frac_class = cls
    run.ex.assumptions.extend(dom)        # the NaT guard and similar branches are pruned under the domain
    run.ex.prune = True
    fopt = VOpt(False, None) if fmt is None else VOpt(True, VStr([C(b) for b in fmt.encode("ascii")]))
    text = run.call(tf["strftime"], [VRef(Cell(datetime(ts)), ()), fopt])
    n_ob = len(run.ex.obligations)
    run.ex.cr_seen.clear()
    res = run.call(tf["parse"], [VStr(list(text.bytes)), fopt])
    o = res.val.items[0].t if res.val is not None else None
    law = "formatting a date-time and parsing the text back does not return the same instant"
    qs = [([smt.not_(res.ok)], "the formatted text of a valid date-time is rejected by the parser")]
    pcs = []
    if o is not None:
        for pc, it in run.ex.cr_seen:
            f = civil(it)
            qs.append(([pc, res.ok, smt.or_(smt.ne(f[0], V["y"]), smt.ne(f[1], V["m"]), smt.ne(f[2], V["d"]), smt.ne(f[3], V["tod"]))], law))
            qs.append(([pc, res.ok, smt.ne(o, smt.idiv(it, C(uns)) if uns != 1 else it)], law))
            pcs.append(pc)
        qs.append(([res.ok, smt.not_(smt.or_(*pcs)) if pcs else smt.TRUE, smt.ne(o, ts)], law))
    for ob in run.ex.obligations:
        qs.append(([ob.cond], "panic while formatting / parsing a valid date-time: " + ob.msg))
    gaps = [(c, w) for c, w in run.ex.model_gaps]
    wit = [([smt.lt(ts, C(0))], "a pre-epoch date-time of this fraction class"), ([smt.gt(V["h"], C(12)), smt.eq(V["d"], C(31))] if fmt is None or "hour" in printed_fields(fmt) else [smt.eq(V["d"], C(31))], "afternoon of a 31st")]
    return (dom, run, qs, V, wit, len(text.bytes), gaps)


def model_ts(unit, model):
    """timestamp of a model of civil_vars_hms"""
    from fractions import Fraction
    g = lambda k: int(Fraction((model or {}).get(k, 0)))
    u = UNITS[unit][1]
    y, m, d = g("y") or 1970, g("m") or 1, g("d") or 1
    nd = {1: 9, 10 ** 3: 6, 10 ** 6: 3, 10 ** 9: 0}[u]
    sub = 0
    for k in range(nd):
        sub = sub * 10 + g(f"f{k}")
    return _days_from_civil(y, m, d) * (NS_DAY // u) + ((g("h") * 3600 + g("mi") * 60 + g("sec")) * (10 ** 9 // u) + sub)


def _hex(s):
    return s.encode("utf-8").hex() or "-"


def native_text(unit, ts, fmt):
    """-> (strftime output or None on panic, parse-back result string)"""
    from . import replay as rp
    p = rp._get()
    f = "-" if fmt is None else _hex(fmt)
    p.stdin.write(f"dtfmt {SHORT[unit]} {ts} {f}\n"); p.stdin.flush()
    a = p.stdout.readline().strip()
    if not a.startswith("S "):
        return None, a
    txt = bytes.fromhex(a[2:]).decode("utf-8")
    p.stdin.write(f"dtparse {SHORT[unit]} {f} {_hex(txt)}\n"); p.stdin.flush()
    return txt, p.stdout.readline().strip()


def native_parse(unit, fmt, txt):
    from . import replay as rp
    p = rp._get()
    f = "-" if fmt is None else _hex(fmt)
    p.stdin.write(f"dtparse {SHORT[unit]} {f} {_hex(txt)}\n"); p.stdin.flush()
    return p.stdout.readline().strip()


def symbolic_text_on(E, tf, unit, ts, fmt, parse_fmt="same", text=None):
    """the encoding on a concrete timestamp: (formatted text, parse result 'R ts' / 'ERR' / 'PANIC')"""
    from .exec import Cell
    u = UNITS[unit][1]
    ns = (ts * u) % 10 ** 9
    cls = "zero" if ns == 0 else "milli" if ns % 10 ** 6 == 0 else "micro" if ns % 1000 == 0 else "nano"
    run = Run(E, unit)
    run.ex.frac_class = cls
    def opt(f):
        return VOpt(False, None) if f is None else VOpt(True, VStr([C(b) for b in f.encode("ascii")]))
    if text is None:
        t = run.call(tf["strftime"], [VRef(Cell(datetime(C(ts))), ()), opt(fmt)])
        text = bytes(int(b.val) for b in t.bytes).decode("ascii")
    res = run.call(tf["parse"], [VStr([C(b) for b in text.encode("ascii")]), opt(fmt if parse_fmt == "same" else parse_fmt)])
    for ob in run.ex.obligations:
        c = ob.cond
        if (c.is_const and c.val) or (not c.is_const and smt.evaluate(c, {})):
            return text, "PANIC"
    ok = res.ok.val if res.ok.is_const else smt.evaluate(res.ok, {})
    if not ok:
        return text, "ERR"
    return text, "R " + str(const_of(res.val.items[0].t))


EXTRA_FORMATS = ["%Y-%m-%d %H:%M:%S%.f", "%Y-%m-%d %H:%M:%S%.3f", "%F %T", "%Y-%m-%dT%H:%M:%S.%f", "%d/%m/%y %H:%M", "%Y-%m-%d %H:%M:%S.%3f",
                 "%Y%m%d %H%M%S%.6f", "%Y-%m-%d %H:%M"]


def validate_text(E, tf, unit, rules, rng):
    """encoding vs real code + real chrono on concrete date-times: strftime text and the parse result, for the default,
    every listed format and a few neighbouring formats, including text of one format parsed under another / the rule list"""
    u = UNITS[unit][1]
    lo, hi = -(-DOM_LO // u), (DOM_HI - 1) // u
    per_s = 10 ** 9 // u
    tss = [0, 1, -1, lo, hi, 1579083630 * per_s, 1579083630 * per_s + per_s // 2, -86400 * per_s * 36525 + 7 * per_s + (per_s // 1000 if per_s >= 1000 else 0),
           951868799 * per_s + per_s - 1, _days_from_civil(2000, 2, 29) * 86400 * per_s] + [rng.randint(lo, hi) for _ in range(4)]
    bad, n = [], 0
    for i, ts in enumerate(tss):
        fmts = [None] + rules + EXTRA_FORMATS
        for j, fmt in enumerate(fmts):
            if (i + j) % 2 and i > 1:
                continue
            ntxt, nres = native_text(unit, ts, fmt)
            try:
                stxt, sres = symbolic_text_on(E, tf, unit, ts, fmt)
            except ExecError as e:
                bad.append(f"{unit} ts={ts} fmt={fmt!r}: encoding cannot run: {e}")
                continue
            n += 1
            if ntxt != stxt or (nres != sres and not (nres.startswith("PANIC") and sres == "PANIC")):
                bad.append(f"{unit} ts={ts} fmt={fmt!r}: native text {ntxt!r} -> {nres}; encoding {stxt!r} -> {sres}")
                continue
            # the same text under the rule list and under another format
            for pf in (None, fmts[(j + 3) % len(fmts)]):
                nres2 = native_parse(unit, pf, ntxt)
                try:
                    _, sres2 = symbolic_text_on(E, tf, unit, ts, fmt, parse_fmt=pf, text=ntxt)
                except ExecError as e:
                    bad.append(f"{unit} text={ntxt!r} parsed with {pf!r}: encoding cannot run: {e}")
                    continue
                n += 1
                if nres2 != sres2 and not (nres2.startswith("PANIC") and sres2 == "PANIC"):
                    bad.append(f"{unit} text={ntxt!r} parsed with {pf!r}: native {nres2}, encoding {sres2}")
    for txt in ["2020-01-15 10:20:30.5", "2020-01-15 10:20:30.123456789012", "2020-1-5 1:2:3", " 2020-01-15", "2020-01-15 ", "20200115", "20200115 102030",
                "15/01/2020", "2020/01/15 10:20:30", "2020-13-01", "2020-02-30", "2020-01-15 24:00:00", "2020-01-15 10:20:61", "+2020-01-15", "-0001-01-01",
                "2020-01-15 10:20", "", "NaT", "2020-01-1510:20:30", "20200115102030", "15/01/2020 H2030", "15/01/2020H102030", "99990101"]:
        nres = native_parse(unit, None, txt)
        try:
            _, sres = symbolic_text_on(E, tf, unit, 0, None, parse_fmt=None, text=txt)
        except ExecError as e:
            bad.append(f"{unit} text={txt!r}: encoding cannot run: {e}")
            continue
        n += 1
        if nres != sres and not (nres.startswith("PANIC") and sres == "PANIC"):
            bad.append(f"{unit} text={txt!r} under the rule list: native {nres}, encoding {sres}")
    return n, bad


def template_bytes(fmt):
    """a string of the shape `fmt` prints: literals as they are, every numeric field as symbolic digits of its width"""
    bs, dvars = [], []
    for it in chrono_fmt.items(fmt):
        if it[0] in ("lit", "space"):
            bs.append(C(it[1]))
        elif it[0] == "num":
            for _ in range(it[2]):
                d = smt.var(f"t{len(dvars)}", smt.INT)
                dvars.append(d)
                bs.append(chrono_fmt.digit_byte(d))
        else:
            nd = it[1] or 9
            if it[2]:
                bs.append(C(46))
            for _ in range(nd):
                d = smt.var(f"t{len(dvars)}", smt.INT)
                dvars.append(d)
                bs.append(chrono_fmt.digit_byte(d))
    return bs, dvars


def check_parse_total(E, tf, unit, fmt, with_rule_list):
    """DateTime::<U>::parse on every digit string of the shape of `fmt` (under the rule list or under `fmt` itself): no path
    to a panic. -> (dom, run, qs, digit vars, byte terms)"""
    bs, dvars = template_bytes(fmt)
    dom = [smt.and_(smt.le(C(0), d), smt.le(d, C(9))) for d in dvars]
    run = Run(E, unit)
    run.ex.frac_class = "zero"
    fopt = VOpt(False, None) if with_rule_list else VOpt(True, VStr([C(b) for b in fmt.encode("ascii")]))
    res = run.call(tf["parse"], [VStr(bs), fopt])
    qs = [([ob.cond], "DateTime::parse panics on a digit string: " + ob.msg) for ob in run.ex.obligations]
    # leap-second text (a seconds field of 60) is outside the format model: excluded from the claim
    for c, w in run.ex.model_gaps:
        dom.append(smt.not_(c))
    return dom, run, qs, dvars, bs


def template_text(bs, model):
    from fractions import Fraction
    out = []
    for b in bs:
        if b.is_const:
            out.append(chr(int(b.val)))
        else:
            d = chrono_fmt.DIGIT_OF[b]
            out.append(str(int(Fraction((model or {}).get(str(d.val) if hasattr(d, "val") else str(d), 0)))))
    return "".join(out)


# ---------------------------------------------------------------------------------------------------------------------
# C16: calendar field getters and the round trip through the calendar type
GETTERS = ("year", "month", "day", "hour", "minute", "second", "time")


def find_getters(E):
    out = {}
    for n, f in E.fns.items():
        m = re.fullmatch(r"datetime::<impl at [^>]*>::(\w+)", n)
        if m and m.group(1) in GETTERS and len(f.args) == 1 and f.ret.startswith("Option<"):
            out[m.group(1)] = f
    missing = set(GETTERS) - set(out)
    if missing:
        raise ExecError(f"cannot locate the DateTime getters {sorted(missing)} in the MIR dump")
    for n, f in E.fns.items():
        if re.fullmatch(r"datetime::<impl at [^>]*>::as_cr", n):
            out["as_cr"] = f
    return out


def check_getters(E, G, unit):
    """year() .. second() / time() of a valid DateTime<U> are the calendar fields of its instant (never None)"""
    from .exec import Cell
    ts, inst, V, dom = civil_vars_hms(unit)
    run = Run(E, unit)
    run.ex.assumptions.extend(dom)
    run.ex.prune = True
    qs = []
    want = {"year": V["y"], "month": V["m"], "day": V["d"], "hour": V["h"], "minute": V["mi"], "second": V["sec"], "time": V["tod"]}
    for g in GETTERS:
        r = run.call(G[g], [VRef(Cell(datetime(ts)), ())])
        qs.append(([smt.not_(r.some)], f"{g}() of a valid date-time is None"))
        val = r.val.items[0].t if g == "time" else r.val.t
        qs.append(([r.some, smt.ne(val, want[g])], f"{g}() is not the calendar field of the instant"))
    for ob in run.ex.obligations:
        qs.append(([ob.cond], "panic in a getter of a valid date-time: " + ob.msg))
    wit = [([smt.lt(ts, C(0)), smt.eq(V["m"], C(2)), smt.eq(V["d"], C(29))], "a pre-epoch 29 February"),
           ([smt.eq(V["h"], C(23)), smt.eq(V["sec"], C(59))], "the last minute of a day")]
    return dom, run, qs, V, wit


def check_cr_roundtrip(E, G, unit):
    """DateTime<U> -> chrono::DateTime<Utc> -> DateTime<U> is the identity over the whole range the calendar type can hold"""
    from .exec import Cell
    uns = UNITS[unit][1]
    ts = smt.var("ts", smt.INT)
    dom = [smt.le(C(I64_MIN + 1), ts), smt.le(ts, C(I64_MAX)), in_cr(smt.mul(ts, C(uns)))]
    run = Run(E, unit)
    o = run.call(G["as_cr"], [VRef(Cell(datetime(ts)), ())])
    qs = [([smt.not_(o.some)], "as_cr() of a valid in-range date-time is None")]
    back = run.ex.call(f"<chrono::DateTime<Utc> as Into<datetime::DateTime<U>>>::into", [o.val], None, 0)
    qs.append(([o.some, smt.ne(back.items[0].t, ts)], "calendar type -> DateTime<U> does not give back the timestamp"))
    for ob in run.ex.obligations:
        qs.append(([o.some, ob.cond], "panic on the round trip through the calendar type: " + ob.msg))
    wit = [([smt.lt(ts, C(-10 ** 12))], "far before the epoch"), ([smt.gt(ts, C(10 ** 12))], "far after the epoch")]
    return dom, run, qs, {"ts": ts}, wit


def native_getters(unit, ts):
    from . import replay as rp
    p = rp._get()
    p.stdin.write(f"dtget {SHORT[unit]} {ts}\n"); p.stdin.flush()
    return p.stdout.readline().strip()


def law_getters(unit, ts):
    u = UNITS[unit][1]
    inst = ts * u
    y, m, d = _py_civil(inst // NS_DAY)
    tod = inst % NS_DAY
    return f"G {y} {m} {d} {tod // (3600 * 10 ** 9)} {tod // (60 * 10 ** 9) % 60} {tod // 10 ** 9 % 60} {tod} {ts}"


def validate_getters(unit, rng):
    """the plain-integer calendar law against chrono itself (no tevec code involved) on concrete instants"""
    u = UNITS[unit][1]
    lo, hi = -(-DOM_LO // u), (DOM_HI - 1) // u
    per_s = 10 ** 9 // u
    tss = [0, 1, -1, lo, hi, 951782399 * per_s, 951782400 * per_s, -2208988800 * per_s, -2203891200 * per_s - 1, 4107542400 * per_s - 1] + \
          [rng.randint(lo, hi) for _ in range(30)]
    from . import replay as rp
    bad = []
    for ts in tss:
        inst = ts * u
        p = rp._get()
        p.stdin.write(f"crcal {inst // 10 ** 9} {inst % 10 ** 9}\n"); p.stdin.flush()
        got = p.stdout.readline().strip()
        want = "C " + " ".join(law_getters(unit, ts).split()[1:8])
        if got != want:
            bad.append(f"instant {inst} ns: chrono gives {got}, calendar law {want}")
    return len(tss), bad


def check_parse_abstract(E, tf, unit, with_fmt):
    """DateTime::<U>::parse on ANY string (and any format): chrono's parsers are abstracted to "Err, or Ok of an arbitrary value of
    chrono's range" (fresh symbols per call), so the claim is: whatever chrono returns, tevec's own code after it reaches no panic."""
    run = Run(E, unit)
    run.ex.abstract_parse = True
    run.ex.frac_class = "zero"
    fopt = VOpt(True, VStr([C(b) for b in b"%Y"])) if with_fmt else VOpt(False, None)
    res = run.call(tf["parse"], [VStr([C(b) for b in b"?"]), fopt])
    qs = [([ob.cond], "DateTime::parse panics after chrono accepted the text: " + ob.msg) for ob in run.ex.obligations]
    wit = [([res.ok], "some parse succeeds"), ([smt.not_(res.ok)], "every parse fails")]
    return [], run, qs, res, wit


def find_time_parse(E):
    c = [f for n, f in E.fns.items() if re.fullmatch(r"time::<impl at [^>]*>::parse", n) and len(f.args) == 2]
    if len(c) != 1:
        raise ExecError("cannot locate Time::parse in the MIR dump")
    return c[0]


def check_time_parse_abstract(E, fn, with_fmt):
    """Time::parse on any string / format, chrono's NaiveTime parsers abstracted (Err, or any time of day incl. a leap second)"""
    run = Run(E, "Nanosecond")
    fopt = VOpt(True, VStr([C(b) for b in b"%H"])) if with_fmt else VOpt(False, None)
    res = run.call(fn, [VStr([C(b) for b in b"?"]), fopt])
    qs = [([ob.cond], "Time::parse panics after chrono accepted the text: " + ob.msg) for ob in run.ex.obligations]
    if res.val is not None:
        v_ = res.val.items[0].t
        qs.append(([res.ok, smt.or_(smt.lt(v_, C(0)), smt.ge(v_, C(NS_DAY + 10 ** 9)))], "Time::parse returns a value outside the day"))
    wit = [([res.ok], "the parse succeeds"), ([smt.not_(res.ok)], "the parse fails")]
    return [], run, qs, res, wit
