"""Sparse polynomial normal form over Q, used as an equivalence-preserving *preprocessing* step for
value queries: the cross-multiplied difference out.num*ref.den - ref.num*out.den is expanded,
like terms are cancelled and even powers of sqrt symbols are reduced with their defining equation
r*r = radicand. The reduced polynomial is what the solver then decides (a polynomial that reduces
to 0 gives the trivially unsatisfiable query 0 != 0). The normaliser is checked on every use by
evaluating original and reduced form at random rational points (check_equiv)."""
from fractions import Fraction
import random

from . import smt


class NotPoly(Exception):
    pass


def p_const(c):
    c = Fraction(c)
    return {(): c} if c != 0 else {}


def p_var(name):
    return {((name, 1),): Fraction(1)}


def p_add(a, b, sign=1):
    if len(a) < len(b) and sign == 1:
        a, b = b, a
    r = dict(a)
    for m, c in b.items():
        v = r.get(m, 0) + sign * c
        if v == 0:
            r.pop(m, None)
        else:
            r[m] = v
    return r


def m_mul(m1, m2):
    if not m1:
        return m2
    if not m2:
        return m1
    d = dict(m1)
    for v, e in m2:
        d[v] = d.get(v, 0) + e
    return tuple(sorted(d.items()))


def p_mul(a, b):
    if not a or not b:
        return {}
    if len(a) > len(b):
        a, b = b, a
    r = {}
    for m1, c1 in a.items():
        for m2, c2 in b.items():
            m = m_mul(m1, m2)
            v = r.get(m, 0) + c1 * c2
            if v == 0:
                r.pop(m, None)
            else:
                r[m] = v
    return r


LIMIT = 400000


def to_poly(t, memo, rules=None):
    """Term -> polynomial dict; raises NotPoly on ite / non-arithmetic nodes. `rules`: {sqrt var name: radicand poly}"""
    r = memo.get(t)
    if r is not None:
        return r
    o = t.op
    if o == "const":
        r = p_const(t.val)
    elif o == "var":
        r = p_var(t.val)
    elif o == "+":
        r = p_add(to_poly(t.args[0], memo, rules), to_poly(t.args[1], memo, rules))
    elif o == "-":
        r = p_add(to_poly(t.args[0], memo, rules), to_poly(t.args[1], memo, rules), -1)
    elif o == "neg":
        r = p_add({}, to_poly(t.args[0], memo, rules), -1)
    elif o == "*":
        r = p_mul(to_poly(t.args[0], memo, rules), to_poly(t.args[1], memo, rules))
        if rules:
            r = reduce_sqrt(r, rules)
        if len(r) > LIMIT:
            raise NotPoly("polynomial too large")
    elif o == "to_real" and t.args[0].is_const:
        r = p_const(t.args[0].val)
    else:
        raise NotPoly(o)
    memo[t] = r
    return r


def reduce_sqrt(p, rules):
    """Replace r^k by r^(k mod 2) * radicand^(k div 2) for every sqrt symbol r."""
    changed = True
    while changed:
        changed = False
        out = {}
        for m, c in p.items():
            hit = None
            for (v, e) in m:
                if e >= 2 and v in rules:
                    hit = (v, e)
                    break
            if hit is None:
                v0 = out.get(m, 0) + c
                if v0 == 0:
                    out.pop(m, None)
                else:
                    out[m] = v0
                continue
            changed = True
            v, e = hit
            rest = tuple((a, b) for (a, b) in m if a != v)
            if e % 2:
                rest = m_mul(rest, ((v, 1),))
            q = {rest: c}
            for _ in range(e // 2):
                q = p_mul(q, rules[v])
            for m2, c2 in q.items():
                v0 = out.get(m2, 0) + c2
                if v0 == 0:
                    out.pop(m2, None)
                else:
                    out[m2] = v0
        p = out
    return p


def from_poly(p):
    if not p:
        return smt.R0
    acc = None
    for m, c in sorted(p.items(), key=lambda kv: (len(kv[0]), kv[0])):
        t = smt.const(c)
        for v, e in m:
            x = smt.var(v)
            for _ in range(e):
                t = smt.mul(t, x)
        acc = t if acc is None else smt.add(acc, t)
    return acc


def eval_poly(p, env):
    s = Fraction(0)
    for m, c in p.items():
        t = c
        for v, e in m:
            t *= env[v] ** e
        s += t
    return s


def _mkey(m):
    return (sum(e for _, e in m), m)


def _mdiv(m, d):
    """monomial m / d if divisible else None"""
    dm = dict(m)
    for v, e in d:
        if dm.get(v, 0) < e:
            return None
        dm[v] -= e
    return tuple(sorted((v, e) for v, e in dm.items() if e))


def p_rem(D, P, limit=20000):
    """Remainder of D on division by the single polynomial P (graded-lex order): D - Q*P with no term of the
    remainder divisible by the leading monomial of P. D is a multiple of P iff the remainder is empty."""
    if not P:
        return D
    lm = max(P.keys(), key=_mkey)
    lc = P[lm]
    D = dict(D)
    R = {}
    steps = 0
    while D:
        steps += 1
        if steps > limit:
            raise NotPoly("division too long")
        m = max(D.keys(), key=_mkey)
        c = D[m]
        q = _mdiv(m, lm)
        if q is None:
            R[m] = c
            del D[m]
            continue
        f = c / lc
        for pm, pc in P.items():
            mm = m_mul(pm, q)
            v = D.get(mm, 0) - f * pc
            if v == 0:
                D.pop(mm, None)
            else:
                D[mm] = v
    return R
