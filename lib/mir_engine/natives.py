"""Native models: the callee vocabulary of the numeric kernels (DESIGN 1.2) and the protocol
summaries of drivers and folds (proved on the real loops by Engine K: C02 for the rolling drivers,
C11 sub-harnesses for the null-skipping folds).

Element model (the IsNone / Cast table rows are C15 obligations of Engine K): a value of the generic
element type T is a VF whose `nan` flag means "null" (NaN for floats, None for options; integer types
simply never set it)."""
import re

from . import smt
from .smt import TRUE, FALSE, R0, R1
from .values import *
from .exec import _DIVERGE


def N(pattern):
    return re.compile(pattern)


def _deref(ex, v):
    while isinstance(v, VRef):
        v = ex.read_at(v.cell, v.path)
    return v


# ---- IsNone / Number / Cast ----------------------------------------------------------------
def n_not_none(ex, callee, args, m):
    v = _deref(ex, args[0])
    if isinstance(v, VF):
        return VBool(smt.not_(v.nan))
    if isinstance(v, VOpt):
        return VBool(v.some)
    raise ExecError(f"not_none on {v!r}")


def n_is_none(ex, callee, args, m):
    return VBool(smt.not_(n_not_none(ex, callee, args, m).t))


def n_unwrap(ex, callee, args, m):
    v = _deref(ex, args[0])
    if isinstance(v, VF):
        if ex.mode == "opt":
            ex.oblige(v.nan, "IsNone::unwrap on a null element (Option::unwrap on None)", callee)
        return v
    if isinstance(v, VOpt):
        ex.oblige(smt.not_(v.some), "Option::unwrap on None", callee)
        if v.val is None:
            return _DIVERGE
        return v.val
    raise ExecError(f"unwrap on {v!r}")


def n_to_opt(ex, callee, args, m):
    v = _deref(ex, args[0])
    if isinstance(v, VF):
        return VOpt(smt.not_(v.nan), VF(v.num, v.den, FALSE, v.inf))
    raise ExecError(f"to_opt on {v!r}")


def n_f64(ex, callee, args, m):
    v = _deref(ex, args[0])
    if isinstance(v, VInt):
        return f_from_int(v.t)
    if isinstance(v, VF):
        return v
    raise ExecError(f"Number::f64 on {v!r}")


def n_cast_f64_u(ex, callee, args, m):
    # f64 -> U (f64 / Option<f64>): NaN <-> null, value unchanged (C15 rows)
    return args[0]


def n_identity(ex, callee, args, m):
    return args[0]


def n_zero(ex, callee, args, m):
    return VF(R0)


def n_add_assign(ex, callee, args, m):
    ref, v = args
    cur = ex.read_at(ref.cell, ref.path)
    ex.write_at(ref.cell, ref.path, f_add(cur, _deref(ex, v)))
    return VUnit()


def n_sub_assign(ex, callee, args, m):
    ref, v = args
    cur = ex.read_at(ref.cell, ref.path)
    ex.write_at(ref.cell, ref.path, f_sub(cur, _deref(ex, v)))
    return VUnit()


def n_sub(ex, callee, args, m):
    return f_sub(_deref(ex, args[0]), _deref(ex, args[1]))


# ---- Option / Ord helpers ------------------------------------------------------------------
def n_opt_unwrap_or(ex, callee, args, m):
    o, d = args
    if o.some.is_const:
        return o.val if o.some.val else d
    from .exec import merge_val
    return merge_val(o.some, o.val, d)


def n_opt_unwrap(ex, callee, args, m):
    o = args[0]
    if isinstance(o, VOpt):
        ex.oblige(smt.not_(o.some), "Option::unwrap on None", callee)
        if o.val is None:
            return _DIVERGE
        return o.val
    raise ExecError(f"Option::unwrap on {o!r}")


def n_opt_is_some(ex, callee, args, m):
    return VBool(_deref(ex, args[0]).some)


def n_opt_is_none(ex, callee, args, m):
    return VBool(smt.not_(_deref(ex, args[0]).some))


def n_min(ex, callee, args, m):
    a, b = _deref(ex, args[0]), _deref(ex, args[1])
    return VInt(smt.ite(smt.le(a.t, b.t), a.t, b.t))


def n_max(ex, callee, args, m):
    a, b = _deref(ex, args[0]), _deref(ex, args[1])
    return VInt(smt.ite(smt.ge(a.t, b.t), a.t, b.t))


# ---- float / integer math ------------------------------------------------------------------
def n_powi(ex, callee, args, m):
    return f_powi(args[0], args[1].conc())


def n_sqrt(ex, callee, args, m):
    return ex.f_sqrt(args[0])


def n_f_mul_add(ex, callee, args, m):
    a, b, c = args           # a.mul_add(b, c) = a*b + c
    return f_add(f_mul(a, b), c)


def n_f_abs(ex, callee, args, m):
    a = args[0]
    neg = smt.lt(smt.mul(a.num, a.den), R0)
    return VF(smt.ite(neg, smt.neg(a.num), a.num), a.den, a.nan, a.inf)


def n_usize_mul_add(ex, callee, args, m):
    a, b, c = args
    return VInt(smt.add(smt.mul(a.t, b.t), c.t))


def n_usize_pow(ex, callee, args, m):
    a, e = args
    r = smt.I1
    for _ in range(e.conc()):
        r = smt.mul(r, a.t)
    return VInt(r)


# ---- ranges (loops over concrete indices unroll themselves) ----------------------------------
def n_range_incl_new(ex, callee, args, m):
    return VRange(args[0].conc(), args[1].conc(), True)


def n_into_iter(ex, callee, args, m):
    return args[0]


def n_range_next(ex, callee, args, m):
    ref = args[0]
    r = ex.read_at(ref.cell, ref.path)
    if not isinstance(r, VRange):
        raise ExecError("next on non-range")
    lim = r.end + 1 if r.inclusive else r.end
    if r.cur >= lim:
        return VOpt(False, None)
    v = r.cur
    r2 = VRange(r.cur + 1, r.end, r.inclusive)
    ex.write_at(ref.cell, ref.path, r2)
    return VOpt(True, VInt(v))


# ---- container access from inside kernels ---------------------------------------------------
def n_uget(ex, callee, args, m):
    which = "other" if callee.startswith("<V2") else "self"
    series = ex.series[which]
    idx = args[1]
    ex.oblige(smt.or_(smt.lt(idx.t, smt.I0), smt.ge(idx.t, smt.const(len(series)))),
              f"unchecked uget index out of bounds (len {len(series)})", callee)
    if not idx.t.is_const:
        raise ExecError("symbolic index into the series")
    i = idx.t.val
    cur = getattr(ex, "cur_pos", None)
    if cur is not None and i > cur:
        ex.oblige(TRUE, f"kernel reads element {i} while computing position {cur} (look-ahead)", callee)
    if not (0 <= i < len(series)):
        return _DIVERGE
    return series[i]


def n_len(ex, callee, args, m):
    return VInt(len(ex.series["self"]))


# ---- rolling drivers: protocol of C02 ---------------------------------------------------------
def _closure_fn(ex, clos):
    fn = ex.closure_index.get(clos.name)
    if fn is None:
        raise ExecError(f"no MIR body for {clos.name}")
    return fn


def _drive(ex, clos, L, w, make_args):
    fn = _closure_fn(ex, clos)
    holder = Cell(clos)
    outs = []
    if w == 0 and L == 0:
        ex.outputs = []          # `*_to` drivers return before touching anything on an empty series
        return VOpt(True, VOpaque("out", []))
    if w == 0:
        # default bodies assert window > 0; the Vec/ndarray fast paths return an unwritten buffer:
        # either way no defined output — recorded as an obligation failure of the *call*.
        ex.oblige(TRUE, "rolling driver called with window 0", "rolling_apply")
        ex.outputs = []
        return VOpt(True, VOpaque("out", []))
    weff = min(w, L)
    for i in range(L):
        start = i + 1 - weff if i + 1 >= weff else None
        first = VRef(holder, ()) if fn.args[0][1].startswith("&") else holder.v
        ex.cur_pos = i
        ret = ex.exec_fn(fn, [first] + make_args(i, start))
        if ret is _DIVERGE:
            # every path of the callback panics at this position (the panic is recorded as an obligation):
            # no output from here on
            outs.extend([None] * (L - i))
            break
        outs.append(ret)
    ex.outputs = outs
    return VOpt(True, VOpaque("out", outs))


def n_rolling_apply(ex, callee, args, m):
    _self, window, clos, _out = args
    xs = ex.series["self"]
    return _drive(ex, clos, len(xs), window.conc(),
                  lambda i, s: [VOpt(True, xs[s]) if s is not None else VOpt(False, None), xs[i]])


def n_rolling2_apply(ex, callee, args, m):
    _self, _other, window, clos, _out = args
    xs, ys = ex.series["self"], ex.series["other"]
    return _drive(ex, clos, len(xs), window.conc(),
                  lambda i, s: [VOpt(True, VTuple([xs[s], ys[s]])) if s is not None else VOpt(False, None),
                                VTuple([xs[i], ys[i]])])


def n_rolling_apply_idx(ex, callee, args, m):
    _self, window, clos, _out = args
    xs = ex.series["self"]
    return _drive(ex, clos, len(xs), window.conc(),
                  lambda i, s: [VOpt(True, VInt(s)) if s is not None else VOpt(False, None), VInt(i), xs[i]])


def n_rolling2_apply_idx(ex, callee, args, m):
    _self, _other, window, clos, _out = args
    xs, ys = ex.series["self"], ex.series["other"]
    return _drive(ex, clos, len(xs), window.conc(),
                  lambda i, s: [VOpt(True, VInt(s)) if s is not None else VOpt(False, None), VInt(i),
                                VTuple([xs[i], ys[i]])])


# ---- null-skipping folds over a finite sequence: protocol of iter_traits.rs (C11 sub-harnesses) ----
def _seq_items(ex, v):
    v = _deref(ex, v)
    if isinstance(v, VSeq):
        return v.items
    if isinstance(v, VOpaque) and v.tag in ("self", "other"):
        return ex.series[v.tag]
    raise ExecError(f"not a sequence: {v!r}")


def _valid_const(x, ex=None):
    if x.nan.is_const:
        return not x.nan.val
    if ex is not None:
        if ex.valid(smt.not_(x.nan)):
            return True
        if ex.valid(x.nan):
            return False
    raise ExecError("fold over an element whose null flag is symbolic")


def n_vapply_n(ex, callee, args, m):
    seq, clos = args
    fn = _closure_fn(ex, clos)
    holder = Cell(clos)
    n = 0
    for it in _seq_items(ex, seq):
        if _valid_const(it, ex):
            n += 1
            first = VRef(holder, ()) if fn.args[0][1].startswith("&") else holder.v
            ex.exec_fn(fn, [first, it])
    return VInt(n)


def n_vfold_n(ex, callee, args, m):
    seq, init, clos = args
    fn = _closure_fn(ex, clos)
    holder = Cell(clos)
    n, acc = 0, init
    for it in _seq_items(ex, seq):
        if _valid_const(it, ex):
            n += 1
            first = VRef(holder, ()) if fn.args[0][1].startswith("&") else holder.v
            acc = ex.exec_fn(fn, [first, acc, it])
    return VTuple([VInt(n), acc])


def n_zip(ex, callee, args, m):
    a, b = _seq_items(ex, args[0]), _seq_items(ex, args[1])
    return VSeq([VTuple([x, y]) for x, y in zip(a, b)])


def n_for_each(ex, callee, args, m):
    seq, clos = args
    fn = _closure_fn(ex, clos)
    holder = Cell(clos)
    for it in _seq_items(ex, seq):
        first = VRef(holder, ()) if fn.args[0][1].startswith("&") else holder.v
        ex.exec_fn(fn, [first, it])
    return VUnit()


def n_range_map(ex, callee, args, m):
    rng, clos = args
    fn = _closure_fn(ex, clos)
    holder = Cell(clos)
    lim = rng.end + 1 if rng.inclusive else rng.end
    items = []
    for j in range(rng.cur, lim):
        first = VRef(holder, ()) if fn.args[0][1].startswith("&") else holder.v
        items.append(ex.exec_fn(fn, [first, VInt(j)]))
    return VSeq(items)


def n_add(ex, callee, args, m):
    return f_add(_deref(ex, args[0]), _deref(ex, args[1]))


def n_nan(ex, callee, args, m):
    return VF.NaN()


def n_elem_arith(op):
    """arithmetic performed in the (generic) ELEMENT type before any cast to f64: the real result, plus a record — for an integer
    element type the operation can overflow, which the real-number reading cannot show (checked separately, see family.elem_type_pass)"""
    def f(ex, callee, args, m):
        a, b = _deref(ex, args[0]), _deref(ex, args[1])
        if not hasattr(ex, "elem_ops"):
            ex.elem_ops = []
        ex.elem_ops.append((ex.pc, op, a, b, callee))
        return {"mul": f_mul, "add": f_add, "sub": f_sub}[op](a, b)
    return f


NATIVES = [
    (N(r"^<Self as (?:tea_core::prelude::)?IterBasic>::vapply_n::<"), n_vapply_n),
    (N(r"^<Map<std::ops::RangeInclusive<usize>, \{closure@[^}]*\}> as (?:tea_core::prelude::)?IterBasic>::vapply_n::<"), n_vapply_n),
    (N(r"^<Self as (?:tea_core::prelude::)?IterBasic>::vfold_n::<"), n_vfold_n),
    (N(r"^<Self as IntoIterator>::into_iter$"), n_into_iter),
    (N(r"^<<Self as IntoIterator>::IntoIter as Iterator>::zip::<V2>$"), n_zip),
    (N(r"^<Zip<.*> as Iterator>::for_each::<"), n_for_each),
    (N(r"^<std::ops::RangeInclusive<usize> as Iterator>::map::<f64, "), n_range_map),
    (N(r"^<usize as (?:tea_core::prelude|tea_dtype)::Number>::max_with$"), n_max),
    (N(r"^<f64 as IntoCast>::into_cast::<T>$"), n_identity),
    (N(r"^<<T as (?:tea_core::prelude|tea_dtype)::IsNone>::Cast<f64> as (?:tea_core::prelude|tea_dtype)::IsNone>::none$"), n_nan),
    (N(r"^<f64 as (?:tea_core::prelude|tea_dtype)::IsNone>::not_none$"), n_not_none),
    (N(r"^<f64 as (?:tea_core::prelude|tea_dtype)::Cast<O>>::cast$"), n_identity),
    (N(r"^<<T as (?:tea_core::prelude|tea_dtype)::IsNone>::Inner as num_traits::Zero>::zero$"), n_zero),
    (N(r"^<<T as (?:tea_core::prelude|tea_dtype)::IsNone>::Inner as Add>::add$"), n_add),
    (N(r"^<(?:<T as (?:tea_core::prelude|tea_dtype)::IsNone>::Inner|T) as Mul>::mul$"), n_elem_arith("mul")),
    (N(r"^<T as Add>::add$"), n_elem_arith("add")),
    (N(r"^<(?:<T as (?:tea_core::prelude|tea_dtype)::IsNone>::Inner|T) as Sub>::sub$"), n_elem_arith("sub")),
    (N(r"^<T2? as (?:tea_core::prelude|tea_dtype)::IsNone>::not_none$"), n_not_none),
    (N(r"^<T2? as (?:tea_core::prelude|tea_dtype)::IsNone>::is_none$"), n_is_none),
    (N(r"^<T2? as (?:tea_core::prelude|tea_dtype)::IsNone>::unwrap$"), n_unwrap),
    (N(r"^<T2? as (?:tea_core::prelude|tea_dtype)::IsNone>::to_opt$"), n_to_opt),
    (N(r"^<(?:<T2? as (?:tea_core::prelude|tea_dtype)::IsNone>::Inner|T2?|usize|f64|i32) as (?:tea_core::prelude|tea_dtype)::Number>::f64$"), n_f64),
    (N(r"^<f64 as (?:tea_core::prelude|tea_dtype)::Cast<U>>::cast$"), n_cast_f64_u),
    (N(r"^<(?:<T as (?:tea_core::prelude|tea_dtype)::IsNone>::Inner|T) as (?:tea_core::prelude|tea_dtype)::Zero>::zero$"), n_zero),
    (N(r"^<(?:<T as (?:tea_core::prelude|tea_dtype)::IsNone>::Inner|T) as AddAssign>::add_assign$"), n_add_assign),
    (N(r"^<(?:<T as (?:tea_core::prelude|tea_dtype)::IsNone>::Inner|T) as SubAssign>::sub_assign$"), n_sub_assign),
    (N(r"^Option::<(?:usize|f64)>::unwrap_or$"), n_opt_unwrap_or),
    (N(r"^Option::<[^>]*(?:<[^>]*>[^>]*)*>::unwrap$"), n_opt_unwrap),
    (N(r"^Option::<.*>::is_some$"), n_opt_is_some),
    (N(r"^Option::<.*>::is_none$"), n_opt_is_none),
    (N(r"^<usize as Ord>::min$|^std::cmp::min::<usize>$"), n_min),
    (N(r"^<usize as Ord>::max$|^std::cmp::max::<usize>$"), n_max),
    (N(r"^f64::<impl f64>::powi$"), n_powi),
    (N(r"^f64::<impl f64>::sqrt$"), n_sqrt),
    (N(r"^f64::<impl f64>::mul_add$"), n_f_mul_add),
    (N(r"^f64::<impl f64>::abs$"), n_f_abs),
    (N(r"^<usize as tea_core::prelude::MulAdd>::mul_add$"), n_usize_mul_add),
    (N(r"^core::num::<impl usize>::pow$"), n_usize_pow),
    (N(r"^std::ops::RangeInclusive::<usize>::new$"), n_range_incl_new),
    (N(r"^<std::ops::Range(?:Inclusive)?<usize> as IntoIterator>::into_iter$"), n_into_iter),
    (N(r"^<std::ops::Range(?:Inclusive)?<usize> as Iterator>::next$"), n_range_next),
    (N(r"^<(?:Self|V2) as tea_core::prelude::Vec1View<T2?>>::uget$"), n_uget),
    (N(r"^<Self as tea_core::prelude::GetLen>::len$"), n_len),
    (N(r"^<Self as tea_core::prelude::Vec1View<T>>::rolling_apply::<"), n_rolling_apply),
    (N(r"^<Self as tea_core::prelude::Vec1View<T>>::rolling2_apply::<"), n_rolling2_apply),
    (N(r"^<Self as tea_core::prelude::Vec1View<T>>::rolling_apply_idx::<"), n_rolling_apply_idx),
    (N(r"^<Self as tea_core::prelude::Vec1View<T>>::rolling2_apply_idx::<"), n_rolling2_apply_idx),
]
