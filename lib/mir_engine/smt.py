"""Hash-consed SMT terms (Real / Int / Bool) with light simplification, SMT-LIB2 printing,
and a persistent solver process (z3 -in / cvc5 --incremental) driven with push/pop.

Constant folding is exact (fractions.Fraction), so running the executor on concrete inputs evaluates
the encoding — that is how the translator is validated against the native code.
"""
import subprocess
import time
from fractions import Fraction

REAL, INT, BOOL = "Real", "Int", "Bool"


class Term:
    __slots__ = ("op", "args", "sort", "val", "_h", "_str")
    _table = {}

    def __new__(cls, op, args=(), sort=REAL, val=None):
        key = (op, args, sort, val)
        t = cls._table.get(key)
        if t is None:
            t = object.__new__(cls)
            t.op, t.args, t.sort, t.val = op, args, sort, val
            t._h = hash(key)
            t._str = None
            cls._table[key] = t
        return t

    def __hash__(self):
        return self._h

    def __eq__(self, other):
        return self is other

    def __deepcopy__(self, memo):
        return self

    def __copy__(self):
        return self

    @property
    def is_const(self):
        return self.op == "const"

    def __repr__(self):
        return to_smt(self)


def const(v, sort=None):
    if isinstance(v, bool):
        return Term("const", (), BOOL, v)
    if sort is None:
        sort = INT if isinstance(v, int) else REAL
    if sort == INT:
        return Term("const", (), INT, int(v))
    return Term("const", (), REAL, Fraction(v))


TRUE = const(True)
FALSE = const(False)
R0, R1 = const(Fraction(0)), const(Fraction(1))
I0, I1 = const(0), const(1)


def var(name, sort=REAL):
    return Term("var", (), sort, name)


def _num(sort, v):
    return const(v, sort)


def add(a, b):
    if a.is_const and b.is_const:
        return _num(a.sort, a.val + b.val)
    if a.is_const and a.val == 0:
        return b
    if b.is_const and b.val == 0:
        return a
    return Term("+", (a, b), a.sort)


def sub(a, b):
    if a.is_const and b.is_const:
        return _num(a.sort, a.val - b.val)
    if b.is_const and b.val == 0:
        return a
    if a is b:
        return _num(a.sort, 0)
    return Term("-", (a, b), a.sort)


def mul(a, b):
    if a.is_const and b.is_const:
        return _num(a.sort, a.val * b.val)
    for x, y in ((a, b), (b, a)):
        if x.is_const:
            if x.val == 0:
                return x
            if x.val == 1:
                return y
    return Term("*", (a, b), a.sort)


def neg(a):
    if a.is_const:
        return _num(a.sort, -a.val)
    return Term("neg", (a,), a.sort)


def to_real(a):
    if a.sort == REAL:
        return a
    if a.is_const:
        return const(Fraction(a.val))
    return Term("to_real", (a,), REAL)


def idiv(a, b):
    """Rust unsigned / non-negative integer division (operands known >= 0 here) == SMT div."""
    if a.is_const and b.is_const:
        return const(a.val // b.val)
    return Term("div", (a, b), INT)


def imod(a, b):
    if a.is_const and b.is_const:
        return const(a.val % b.val)
    return Term("mod", (a, b), INT)


def _cmp(op, a, b):
    if a.sort != b.sort:
        a, b = to_real(a), to_real(b)
    if a.is_const and b.is_const:
        return const({"<": a.val < b.val, "<=": a.val <= b.val, "=": a.val == b.val}[op])
    if a is b:
        return const(op in ("<=", "="))
    return Term(op, (a, b), BOOL)


def lt(a, b):
    return _cmp("<", a, b)


def le(a, b):
    return _cmp("<=", a, b)


def gt(a, b):
    return _cmp("<", b, a)


def ge(a, b):
    return _cmp("<=", b, a)


def eq(a, b):
    if a.sort == BOOL:
        if a is b:
            return TRUE
        if a.is_const and b.is_const:
            return const(a.val == b.val)
        if a.is_const:
            return b if a.val else not_(b)
        if b.is_const:
            return a if b.val else not_(a)
        return Term("=", (a, b), BOOL)
    return _cmp("=", a, b)


def ne(a, b):
    return not_(eq(a, b))


def not_(a):
    if a.is_const:
        return const(not a.val)
    if a.op == "not":
        return a.args[0]
    return Term("not", (a,), BOOL)


def and_(*xs):
    out = []
    for x in xs:
        if x.is_const:
            if not x.val:
                return FALSE
            continue
        if x.op == "and":
            out.extend(x.args)
        else:
            out.append(x)
    seen, uniq = set(), []
    for x in out:
        if x not in seen:
            seen.add(x)
            uniq.append(x)
    for x in uniq:
        if not_(x) in seen:
            return FALSE
    if not uniq:
        return TRUE
    if len(uniq) == 1:
        return uniq[0]
    return Term("and", tuple(uniq), BOOL)


def or_(*xs):
    return not_(and_(*[not_(x) for x in xs]))


def implies(a, b):
    return or_(not_(a), b)


def ite(c, a, b):
    if c.is_const:
        return a if c.val else b
    if a is b:
        return a
    if a.sort == BOOL:
        return or_(and_(c, a), and_(not_(c), b))
    return Term("ite", (c, a, b), a.sort)


def rebuild(t, mapping, memo=None):
    """Bottom-up reconstruction with the simplifying constructors; `mapping` {term: replacement}."""
    if memo is None:
        memo = {}

    def go(x):
        if x in mapping:
            return mapping[x]
        r = memo.get(x)
        if r is not None:
            return r
        o = x.op
        if o in ("const", "var"):
            r = x
        else:
            a = [go(y) for y in x.args]
            if o == "+":
                r = add(a[0], a[1])
            elif o == "-":
                r = sub(a[0], a[1])
            elif o == "*":
                r = mul(a[0], a[1])
            elif o == "neg":
                r = neg(a[0])
            elif o == "to_real":
                r = to_real(a[0])
            elif o == "div":
                r = idiv(a[0], a[1])
            elif o == "mod":
                r = imod(a[0], a[1])
            elif o == "<":
                r = lt(a[0], a[1])
            elif o == "<=":
                r = le(a[0], a[1])
            elif o == "=":
                r = eq(a[0], a[1])
            elif o == "not":
                r = not_(a[0])
            elif o == "and":
                r = and_(*a)
            elif o == "ite":
                r = ite(a[0], a[1], a[2])
            else:
                raise ValueError(o)
        memo[x] = r
        return r

    return go(t)


def ite_conditions(ts):
    """Conditions of all ite nodes reachable from the terms, outermost first."""
    seen, out, stack = set(), [], list(ts)
    while stack:
        x = stack.pop()
        if x in seen:
            continue
        seen.add(x)
        if x.op == "ite" and x.args[0] not in out:
            out.append(x.args[0])
        stack.extend(x.args)
    return out


def fresh(prefix, sort=REAL, _ctr=[0]):
    _ctr[0] += 1
    return var(f"{prefix}!{_ctr[0]}", sort)


# ---------------------------------------------------------------------------------------------
def _lit(t):
    v = t.val
    if t.sort == BOOL:
        return "true" if v else "false"
    if t.sort == INT:
        return str(v) if v >= 0 else f"(- {-v})"
    v = Fraction(v)
    s = f"{abs(v.numerator)}.0" if v.denominator == 1 else f"(/ {abs(v.numerator)}.0 {v.denominator}.0)"
    return s if v >= 0 else f"(- {s})"


def to_smt(t, defs=None, memo=None):
    """Print a term; with `defs` (a list) shared sub-terms are let-bound via define-fun style names.
    Pass one `memo` dict for several terms of the same query so that shared sub-terms are defined once."""
    if memo is None:
        memo = {}

    def go(x):
        r = memo.get(x)
        if r is not None:
            return r
        if x.op == "const":
            r = _lit(x)
        elif x.op == "var":
            r = "|" + x.val + "|"
        elif x.op == "neg":
            r = f"(- {go(x.args[0])})"
        else:
            r = "(" + x.op + " " + " ".join(go(a) for a in x.args) + ")"
            if defs is not None and len(r) > 60:
                name = f"|d!{len(defs)}|"
                defs.append((name, x.sort, r))
                r = name
        memo[x] = r
        return r

    return go(t)


def free_vars(ts):
    seen, out, stack = set(), [], list(ts)
    while stack:
        x = stack.pop()
        if x in seen:
            continue
        seen.add(x)
        if x.op == "var":
            out.append(x)
        stack.extend(x.args)
    return out


def evaluate(t, env):
    """Evaluate a term under env: {var name: Fraction|int|bool}."""
    memo = {}

    def go(x):
        if x in memo:
            return memo[x]
        o = x.op
        if o == "const":
            r = x.val
        elif o == "var":
            r = env[x.val]
        else:
            a = [go(y) for y in x.args] if o not in ("ite", "and") else None
            if o == "+":
                r = a[0] + a[1]
            elif o == "-":
                r = a[0] - a[1]
            elif o == "*":
                r = a[0] * a[1]
            elif o == "neg":
                r = -a[0]
            elif o == "to_real":
                r = Fraction(a[0])
            elif o == "div":
                r = a[0] // a[1]
            elif o == "mod":
                r = a[0] % a[1]
            elif o == "<":
                r = a[0] < a[1]
            elif o == "<=":
                r = a[0] <= a[1]
            elif o == "=":
                r = a[0] == a[1]
            elif o == "not":
                r = not a[0]
            elif o == "and":
                r = all(go(y) for y in x.args)
            elif o == "ite":
                r = go(x.args[1]) if go(x.args[0]) else go(x.args[2])
            else:
                raise ValueError(o)
        memo[x] = r
        return r

    return go(t)


class Solver:
    """One live solver process; check(assertions) wraps them in push/pop."""

    def __init__(self, kind="z3", seed=0, timeout_ms=20000):
        self.kind = kind
        self.timeout_ms = timeout_ms
        if kind == "z3":
            cmd = ["z3", "-in", f"-t:{timeout_ms}"]
        else:
            cmd = ["cvc5", "--lang", "smt2", "--incremental", f"--tlimit-per={timeout_ms}", "--produce-models"]
        self.p = subprocess.Popen(cmd, stdin=subprocess.PIPE, stdout=subprocess.PIPE, stderr=subprocess.STDOUT,
                                  text=True, bufsize=1)
        self.queries = 0
        self.time = 0.0
        self.seed = seed
        self.declared = set()
        self._send("(set-option :produce-models true)")
        if kind == "z3":
            self._send(f"(set-option :smt.random_seed {seed})")
            self._send(f"(set-option :sat.random_seed {seed})")
        self._send("(set-logic ALL)")
        self.stats = {"sat": 0, "unsat": 0, "unknown": 0}

    def _send(self, s):
        self.p.stdin.write(s + "\n")

    def _read_sexpr(self):
        """Read one balanced s-expression (or atom line) from the solver."""
        buf, depth, started = [], 0, False
        while True:
            line = self.p.stdout.readline()
            if not line:
                raise RuntimeError("solver died")
            buf.append(line)
            for ch in line:
                if ch == "(":
                    depth += 1
                    started = True
                elif ch == ")":
                    depth -= 1
            if (started and depth <= 0) or (not started and line.strip()):
                return "".join(buf)

    def _restart(self):
        try:
            self.p.kill()
        except Exception:
            pass
        self.restarts = getattr(self, "restarts", 0) + 1
        self.__init__(self.kind, getattr(self, "seed", 0), self.timeout_ms)

    def _read_with_deadline(self, deadline_s):
        """Read one answer; None when the solver does not answer before the hard deadline."""
        import select
        fd = self.p.stdout
        buf, depth, started = [], 0, False
        end = time.time() + deadline_s
        while True:
            left = end - time.time()
            if left <= 0:
                return None
            r, _, _ = select.select([fd], [], [], left)
            if not r:
                return None
            line = fd.readline()
            if not line:
                return None
            buf.append(line)
            for ch in line:
                if ch == "(":
                    depth += 1
                    started = True
                elif ch == ")":
                    depth -= 1
            if (started and depth <= 0) or (not started and line.strip()):
                return "".join(buf)

    def check(self, assertions, want_model=False):
        """Returns ('unsat'|'sat'|'unknown', model dict or None)."""
        t0 = time.time()
        vs = free_vars(assertions)
        self._send("(push 1)")
        for v in vs:
            self._send(f"(declare-const |{v.val}| {v.sort})")
        defs = []
        shared = {}
        bodies = [to_smt(a, defs, shared) for a in assertions]
        # definitions must be emitted in order; each body may reference earlier definitions
        for name, sort, body in defs:
            self._send(f"(define-fun {name} () {sort} {body})")
        for b in bodies:
            self._send(f"(assert {b})")
        self._send("(check-sat)")
        self.p.stdin.flush()
        res = self._read_with_deadline(self.timeout_ms / 1000.0 + 5)
        model = None
        if res is None:
            # the soft timeout was ignored (nlsat): hard kill, fresh process, verdict unknown
            saved = (self.queries, self.time, self.stats)
            self._restart()
            self.queries, self.time, self.stats = saved
            self.queries += 1
            self.stats["unknown"] += 1
            self.time += time.time() - t0
            self.last_error = "hard timeout"
            return "unknown", None
        res = res.strip()
        if res.startswith("(error") or res not in ("sat", "unsat", "unknown"):
            # an error line is inconclusive, never a verdict
            res_kind = "unknown"
            self.last_error = res
        else:
            res_kind = res
        if res_kind == "sat" and want_model and vs:
            self._send("(get-value (" + " ".join(f"|{v.val}|" for v in vs) + "))")
            self.p.stdin.flush()
            txt = self._read_sexpr()
            model = parse_model(txt, vs)
        self._send("(pop 1)")
        self.p.stdin.flush()
        self.queries += 1
        self.stats[res_kind] += 1
        self.time += time.time() - t0
        return res_kind, model

    def close(self):
        try:
            self._send("(exit)")
            self.p.stdin.flush()
            self.p.wait(timeout=5)
        except Exception:
            self.p.kill()


def parse_model(txt, vs):
    """Parse `((|x| val) ...)` with rational / integer / bool / root-obj values (roots approximated)."""
    import re
    toks = re.findall(r"\(|\)|\|[^|]*\||[^\s()]+", txt)
    pos = [0]

    def parse():
        t = toks[pos[0]]
        pos[0] += 1
        if t == "(":
            lst = []
            while toks[pos[0]] != ")":
                lst.append(parse())
            pos[0] += 1
            return lst
        return t

    tree = parse()

    def val(e):
        if isinstance(e, str):
            if e == "true":
                return True
            if e == "false":
                return False
            if e.endswith("?"):
                e = e[:-1]
            return Fraction(e)
        if e[0] == "-" and len(e) == 2:
            return -val(e[1])
        if e[0] == "-" and len(e) == 3:
            return val(e[1]) - val(e[2])
        if e[0] == "/":
            return val(e[1]) / val(e[2])
        if e[0] == "+":
            return sum(val(x) for x in e[1:])
        if e[0] == "*":
            r = Fraction(1)
            for x in e[1:]:
                r *= val(x)
            return r
        if e[0] == "root-obj":
            # algebraic number: approximate numerically (only used for replay inputs)
            return _root_obj(e)
        if e[0] == "to_real":
            return val(e[1])
        raise ValueError(f"model value {e}")

    out = {}
    for pair in tree:
        name = pair[0].strip("|")
        out[name] = val(pair[1])
    return out


def _root_obj(e):
    """(root-obj <poly in x> k) -> k-th real root, approximated (pure Python Durand-Kerner); only used
    to turn a solver model into replay inputs, never for a verdict."""
    def poly(t):          # dense coefficient list, lowest degree first (floats)
        if isinstance(t, str):
            return [0.0, 1.0] if t == "x" else [float(Fraction(t))]
        def padd(a, b, s=1.0):
            n = max(len(a), len(b))
            return [(a[i] if i < len(a) else 0.0) + s * (b[i] if i < len(b) else 0.0) for i in range(n)]
        def pmul(a, b):
            r = [0.0] * (len(a) + len(b) - 1)
            for i, x in enumerate(a):
                for j, y in enumerate(b):
                    r[i + j] += x * y
            return r
        if t[0] == "+":
            r = [0.0]
            for a in t[1:]:
                r = padd(r, poly(a))
            return r
        if t[0] == "-":
            return padd([0.0], poly(t[1]), -1.0) if len(t) == 2 else padd(poly(t[1]), poly(t[2]), -1.0)
        if t[0] == "*":
            r = [1.0]
            for a in t[1:]:
                r = pmul(r, poly(a))
            return r
        if t[0] == "^":
            r = [1.0]
            for _ in range(int(t[2])):
                r = pmul(r, poly(t[1]))
            return r
        raise ValueError(t)
    c = poly(e[1])
    while len(c) > 1 and abs(c[-1]) < 1e-300:
        c.pop()
    n = len(c) - 1
    if n < 1:
        return Fraction(0)
    lead = c[-1]
    c = [x / lead for x in c]
    roots = [complex(0.4, 0.9) ** k for k in range(n)]
    for _ in range(500):
        new = []
        for i, r in enumerate(roots):
            num = sum(c[k] * r ** k for k in range(n + 1))
            den = 1.0
            for j, q in enumerate(roots):
                if j != i:
                    den *= (r - q)
            new.append(r - num / den if den != 0 else r)
        if max(abs(a - b) for a, b in zip(new, roots)) < 1e-14:
            roots = new
            break
        roots = new
    real = sorted(r.real for r in roots if abs(r.imag) < 1e-7)
    k = int(e[2]) - 1
    if not real:
        return Fraction(0)
    return Fraction(real[min(k, len(real) - 1)]).limit_denominator(10 ** 12)
