"""Symbolic executor for the loop-free numeric MIR bodies of tevec (Engine M).

* All paths of a function invocation are explored; forks (symbolic `switchInt`) copy the world, and
  the outcomes are re-merged with `ite` when the invocation returns (DESIGN 1.2 step 2).
* Loops are not summarised here: a loop whose condition is concrete simply unrolls itself (ranges
  over concrete indices); a symbolic loop condition would fork without bound and hits the step budget.
* Drivers and folds are *natives*: Python models of the protocol that Engine K proves (C02 / C11),
  which call back into the real closure bodies.
* Every `assert` terminator (overflow, division by zero), `unwrap` of a possibly-empty option and
  unchecked index is kept as a proof obligation (path condition + negated condition must be unsat).
"""
import copy
import re
from fractions import Fraction

from . import smt
from .smt import TRUE, FALSE, R0, R1
from .values import *
from .mirparse import MirError

STEP_BUDGET = 200000


class Obligation:
    def __init__(self, cond, msg, where):
        self.cond, self.msg, self.where = cond, msg, where   # cond: term that must be UNSAT


class Path:
    __slots__ = ("frame", "block", "cond", "cmap")

    def __init__(self, frame, block, cond, cmap):
        self.frame, self.block, self.cond, self.cmap = frame, block, cond, cmap


class Frame:
    def __init__(self, fn):
        self.fn = fn
        self.locals = {}

    def cell(self, n):
        c = self.locals.get(n)
        if c is None:
            c = self.locals[n] = Cell(None)
        return c


class Executor:
    def __init__(self, fns, solver, consts=None, natives=None, mode="f64"):
        self.fns = fns
        self.solver = solver
        self.consts = consts or {}
        self.natives = natives or []
        self.mode = mode                  # "f64": unwrap is the identity; "opt": unwrap requires validity
        self.obligations = []
        self.assumptions = []             # global constraints (input box, sqrt definitions)
        self.pc = TRUE                    # path condition of the *caller* context
        self.steps = 0
        self.sqrt_memo = []               # [(num, den, r)]
        self.valid_cache = {}
        self.closure_index = {}
        self.roots = []                   # extra world roots (values held by native drivers)
        self.trace_calls = set()
        for f in fns.values():
            m = re.search(r"\{closure#\d+\}$", f.name)
            if m and f.args:
                cm = re.search(r"\{closure@[^}]*\}", f.args[0][1])
                if cm:
                    self.closure_index[cm.group(0)] = f

    # ------------------------------------------------------------------ solver helpers
    def valid(self, cond, pc=None):
        """Is `cond` implied by assumptions + path condition? (unknown counts as 'not shown')."""
        if cond.is_const:
            return cond.val
        q = list(self.assumptions) + [self.pc if pc is None else pc, smt.not_(cond)]
        norm = getattr(self, "normalizer", None)
        if norm is not None:
            q = [norm(t) for t in q]
        conj = smt.and_(*q)
        if conj.is_const:
            return not conj.val
        key = conj
        hit = self.valid_cache.get(key)
        if hit is not None:
            return hit
        r, _ = self.solver.check(q)
        self.valid_cache[key] = (r == "unsat")
        return r == "unsat"

    def oblige(self, bad, msg, where):
        """`bad` must be unsatisfiable under the current path condition."""
        c = smt.and_(self.pc, bad)
        if c.is_const and not c.val:
            return
        self.obligations.append(Obligation(c, msg, where))

    # ------------------------------------------------------------------ constants
    def const_val(self, text, ty=None):
        t = text.strip()
        if t in ("true", "false"):
            return VBool(t == "true")
        if t == "()":
            return VUnit()
        m = re.fullmatch(r"(-?\d+)_(u8|u16|u32|u64|usize|i8|i16|i32|i64|isize)", t)
        if m:
            return VInt(int(m.group(1)))
        m = re.fullmatch(r"(-?[\d.]+(?:[eE][-+]?\d+)?)(f64|f32)", t)
        if m:
            return VF.const(Fraction(m.group(1)))
        m = re.fullmatch(r"(?:core::num::<impl )?(u8|u16|u32|u64|usize|i8|i16|i32|i64|isize)>?::(MIN|MAX)", t)
        if m:
            lo, hi = int_range(m.group(1))
            return VInt(lo if m.group(2) == "MIN" else hi)
        if re.search(r"\bNAN$", t):
            return VF.NaN()
        if re.search(r"\bINFINITY$", t):
            return VF(R1, R1, FALSE, TRUE)
        for key in (t, t.split("::")[-1]):
            if key in self.consts:
                c = self.consts[key]
                if not isinstance(c, (int, Fraction)):
                    return c            # a structured constant supplied by the property module
                return VInt(c) if isinstance(c, int) else VF.const(c)
        if t.startswith("{closure@") or t.startswith("ZeroSized"):
            cm = re.search(r"\{closure@[^}]*\}", t)
            return VStruct(cm.group(0) if cm else t, [])
        if t.startswith('"'):
            try:
                import ast
                lit = ast.literal_eval(t)
                return VStr([smt.const(b) for b in lit.encode("utf-8")])
            except Exception:
                return VOpaque("str", t)
        if t.startswith('b"'):
            return VOpaque("bytes", t)
        m = re.fullmatch(r"(.*)::(None)", t)
        if m:
            return VOpt(False, None)
        raise ExecError(f"unknown constant {t!r}")

    # ------------------------------------------------------------------ places
    def resolve(self, frame, place):
        """-> (cell, path) of an lvalue."""
        k = place[0]
        if k == "local":
            return frame.cell(place[1]), ()
        if k == "deref":
            cell, path = self.resolve(frame, place[1])
            ref = self.read_at(cell, path)
            if not isinstance(ref, VRef):
                raise ExecError(f"deref of non-reference {ref!r}")
            return ref.cell, ref.path
        if k == "field":
            cell, path = self.resolve(frame, place[1])
            return cell, path + (("f", place[2]),)
        if k == "downcast":
            cell, path = self.resolve(frame, place[1])
            return cell, path + (("d", place[2]),)
        raise ExecError(f"place kind {k}")

    def read_at(self, cell, path):
        v = cell.v
        for p in path:
            v = self._proj(v, p)
        return v

    def _proj(self, v, p):
        if p[0] == "f":
            if isinstance(v, (VTuple, VStruct)):
                return v.items[p[1]]
            if isinstance(v, VOpt) and p[1] == 0:      # after downcast Some
                return v.val
            if isinstance(v, tuple) and v[0] == "res_ok":
                return v[1].val
            if isinstance(v, tuple) and v[0] == "res_err":
                return v[1].err
            raise ExecError(f"field {p[1]} of {v!r}")
        if p[0] == "d":
            if isinstance(v, VOpt):
                return v
            if isinstance(v, VRes):
                return ("res_ok" if p[1] in ("Ok", "Continue") else "res_err", v)
            if isinstance(v, VStruct):
                return v
            raise ExecError(f"downcast of {v!r}")
        raise ExecError(str(p))

    def write_at(self, cell, path, val):
        if not path:
            cell.v = val
            return
        v = cell.v
        for p in path[:-1]:
            v = self._proj(v, p)
        last = path[-1]
        if last[0] == "f":
            if isinstance(v, (VTuple, VStruct)):
                v.items[last[1]] = val
                return
            if isinstance(v, VOpt) and last[1] == 0:
                v.val = val
                return
        raise ExecError(f"write at {path}")

    def read_place(self, frame, place):
        cell, path = self.resolve(frame, place)
        v = self.read_at(cell, path)
        if v is None:
            raise ExecError(f"read of uninitialised place {place} in {frame.fn.name}")
        return v

    def operand(self, frame, op):
        if op[0] == "const":
            pm = re.search(r"::promoted\[(\d+)\]$", op[1].strip())
            if pm:
                body = self.fns.get(f"{frame.fn.name}::promoted[{pm.group(1)}]")
                if body is None:
                    raise ExecError(f"no MIR body for promoted constant {op[1]!r} of {frame.fn.name}")
                return self.exec_fn(body, [])
            named = self.fns.get("const::" + op[1].strip().split("::")[-1]) if re.fullmatch(r"[\w:]+", op[1].strip()) else None
            if named is not None and not named.error:
                return self.exec_fn(named, [])
            return self.const_val(op[1])
        v = self.read_place(frame, op[1])
        return self.copy_val(v)

    def copy_val(self, v):
        if isinstance(v, (VTuple,)):
            return VTuple([self.copy_val(x) for x in v.items])
        if isinstance(v, VStruct):
            return VStruct(v.name, [self.copy_val(x) for x in v.items], v.fnames)
        if isinstance(v, VOpt):
            return VOpt(v.some, self.copy_val(v.val) if v.val is not None else None)
        return v

    # ------------------------------------------------------------------ rvalues
    def rvalue(self, frame, rv):
        k = rv[0]
        if k == "use":
            return self.operand(frame, rv[1])
        if k == "ref":
            cell, path = self.resolve(frame, rv[1])
            return VRef(cell, path)
        if k == "binop":
            return self.binop(rv[1], self.operand(frame, rv[2]), self.operand(frame, rv[3]), frame)
        if k == "unop":
            a = self.operand(frame, rv[2])
            if rv[1] == "Not":
                if isinstance(a, VBool):
                    return VBool(smt.not_(a.t))
                raise ExecError("bitwise Not on integer")
            if rv[1] == "Neg":
                if isinstance(a, VF):
                    return f_neg(a)
                return VInt(smt.neg(a.t))
            raise ExecError(rv[1])
        if k == "discr":
            v = self.read_place(frame, rv[1])
            if isinstance(v, VOpt):
                return VInt(smt.ite(v.some, smt.I1, smt.I0))
            if isinstance(v, VRes):
                return VInt(smt.ite(v.ok, smt.I0, smt.I1))
            if isinstance(v, VEnum):
                return VInt(v.disc)
            raise ExecError(f"discriminant of {v!r}")
        if k == "tuple":
            return VTuple([self.operand(frame, o) for o in rv[1]])
        if k == "array":
            return VTuple([self.operand(frame, o) for o in rv[1]])
        if k == "closure":
            return VStruct(rv[1], [self.operand(frame, o) for _, o in rv[2]], [n for n, _ in rv[2]])
        if k == "struct":
            return VStruct(rv[1], [self.operand(frame, o) for _, o in rv[2]], [n for n, _ in rv[2]])
        if k == "variant":
            if rv[2] == "Some":
                return VOpt(True, self.operand(frame, rv[3][0]))
            if rv[2] == "None":
                return VOpt(False, None)
            if rv[2] == "Ok" and "Result" in rv[1]:
                return VRes(True, self.operand(frame, rv[3][0]), None)
            if rv[2] == "Err" and "Result" in rv[1]:
                return VRes(False, None, self.operand(frame, rv[3][0]))
            return VStruct(rv[1] + "::" + rv[2], [self.operand(frame, o) for o in rv[3]])
        if k == "cast":
            a = self.operand(frame, rv[1])
            kind, ty = rv[3], rv[2]
            if kind == "IntToFloat":
                return f_from_int(a.t)
            if kind == "IntToInt":
                if isinstance(a, VBool):
                    return VInt(smt.ite(a.t, smt.I1, smt.I0))
                # widening / same-width casts of in-range values; narrowing must be shown in range
                lo, hi = int_range(ty)
                self.oblige(smt.or_(smt.lt(a.t, smt.const(lo)), smt.gt(a.t, smt.const(hi))),
                            f"integer cast to {ty} out of range (would wrap)", frame.fn.name)
                return VInt(a.t)
            if kind == "FloatToFloat":
                return a
            if kind.startswith("PointerCoercion") or kind in ("Transmute",):
                return a
            raise ExecError(f"cast kind {kind}")
        raise ExecError(f"rvalue {k}")

    def binop(self, op, a, b, frame):
        if isinstance(a, VF) or isinstance(b, VF):
            if op == "Add":
                return f_add(a, b)
            if op == "Sub":
                return f_sub(a, b)
            if op == "Mul":
                return f_mul(a, b)
            if op == "Div":
                return self.f_div(a, b)
            if op in ("Lt", "Le", "Gt", "Ge", "Eq", "Ne"):
                return VBool(f_cmp(op, a, b))
            raise ExecError(f"float binop {op}")
        if isinstance(a, VBool) and isinstance(b, VBool):
            if op == "Eq":
                return VBool(smt.eq(a.t, b.t))
            if op == "Ne":
                return VBool(smt.ne(a.t, b.t))
            if op == "BitAnd":
                return VBool(smt.and_(a.t, b.t))
            if op == "BitOr":
                return VBool(smt.or_(a.t, b.t))
            raise ExecError(f"bool binop {op}")
        x, y = a.t, b.t
        if op in ("Add", "AddUnchecked"):
            return VInt(smt.add(x, y))
        if op in ("Sub", "SubUnchecked"):
            return VInt(smt.sub(x, y))
        if op in ("Mul", "MulUnchecked"):
            return VInt(smt.mul(x, y))
        if op in ("AddWithOverflow", "SubWithOverflow", "MulWithOverflow"):
            r = {"A": smt.add, "S": smt.sub, "M": smt.mul}[op[0]](x, y)
            # overflow flag relative to the operand type: usize/i32 ranges (type unknown here: the
            # kernels only use usize counters and i32 exponents; usize underflow is the realistic one)
            lo, hi = 0, 2 ** 64 - 1
            ty = getattr(self, "cur_dest_ty", None)
            if ty:
                mt = re.match(r"\((\w+), bool\)", ty)
                if mt:
                    lo, hi = int_range(mt.group(1))
            ov = smt.or_(smt.lt(r, smt.const(lo)), smt.gt(r, smt.const(hi)))
            return VTuple([VInt(r), VBool(ov)])
        if op == "Shr":
            return VInt(smt.idiv(x, smt.const(2 ** y.val))) if y.is_const else _raise("symbolic shift")
        if op == "Shl":
            return VInt(smt.mul(x, smt.const(2 ** y.val))) if y.is_const else _raise("symbolic shift")
        if op in ("Div", "Rem"):
            # Rust integer division truncates toward zero (SMT div/mod are floor/Euclidean for a positive divisor)
            if x.is_const and y.is_const and y.val != 0:
                q = abs(x.val) // abs(y.val)
                q = -q if (x.val < 0) != (y.val < 0) else q
                return VInt(q if op == "Div" else x.val - y.val * q)
            ax = smt.ite(smt.lt(x, smt.I0), smt.neg(x), x)
            ay = smt.ite(smt.lt(y, smt.I0), smt.neg(y), y)
            q = smt.idiv(ax, ay)
            neg = smt.ne(smt.lt(x, smt.I0), smt.lt(y, smt.I0))
            q = smt.ite(neg, smt.neg(q), q)
            return VInt(q if op == "Div" else smt.sub(x, smt.mul(y, q)))
        if op in ("Lt", "Le", "Gt", "Ge", "Eq", "Ne"):
            f = {"Lt": smt.lt, "Le": smt.le, "Gt": smt.gt, "Ge": smt.ge, "Eq": smt.eq, "Ne": smt.ne}[op]
            return VBool(f(x, y))
        raise ExecError(f"int binop {op}")

    def f_div(self, a, b):
        """a / b with IEEE special cases: x/0 is NaN for x == 0, +-inf otherwise."""
        nz = smt.not_(f_is_zero(b))
        nan = smt.or_(a.nan, b.nan)
        if self.valid(nz):
            return VF(smt.mul(a.num, b.den), smt.mul(a.den, b.num), nan, smt.or_(a.inf, b.inf))
        bz = f_is_zero(b)
        if self.valid(bz):
            az = f_is_zero(a)
            if self.valid(az):
                return VF(R0, R1, TRUE, FALSE)
            if self.valid(smt.not_(az)):
                return VF(R1, R1, nan, TRUE)
            return VF(R1, R1, smt.or_(nan, az), smt.not_(az))
        az = f_is_zero(a)
        den = smt.ite(bz, R1, smt.mul(a.den, b.num))
        return VF(smt.mul(a.num, b.den), den, smt.or_(nan, smt.and_(bz, az)),
                  smt.or_(a.inf, b.inf, smt.and_(bz, smt.not_(az))))

    def f_sqrt(self, a):
        """sqrt(e): a symbol r with r >= 0 and r*r*den == num; shared between syntactically different
        but provably equal radicands (memoisation modulo a solver query)."""
        if a.num.is_const and a.den.is_const:
            q = Fraction(a.num.val) / Fraction(a.den.val)
            if q >= 0:
                r = _exact_sqrt(q)
                if r is not None:
                    return VF(smt.const(r), R1, a.nan, a.inf)
                if self.solver is None or getattr(self, "numeric", False):
                    import math
                    return VF(smt.const(Fraction(math.sqrt(q))), R1, a.nan, a.inf)
        neg = smt.lt(smt.mul(a.num, a.den), R0)
        nan = smt.or_(a.nan, neg)
        for (n0, d0, r0) in self.sqrt_memo:
            same = smt.eq(smt.mul(a.num, d0), smt.mul(n0, a.den))
            if same.is_const:
                if same.val:
                    return VF(r0, R1, nan, a.inf)
                continue
            # share the symbol when the two radicands are the same polynomial (decided by normal form; a failed
            # match only costs completeness: both symbols stay constrained by r >= 0 and r*r = radicand)
            try:
                from . import poly
                pm = {}
                d = poly.p_add(poly.to_poly(smt.mul(a.num, d0), pm), poly.to_poly(smt.mul(n0, a.den), pm), -1)
                if not d:
                    return VF(r0, R1, nan, a.inf)
                continue
            except Exception:
                pass
            if self.valid(same):
                return VF(r0, R1, nan, a.inf)
        r = smt.fresh("sqrt")
        self.assumptions.append(smt.and_(smt.ge(r, R0), smt.eq(smt.mul(smt.mul(r, r), a.den), a.num)))
        self.sqrt_memo.append((a.num, a.den, r))
        return VF(r, R1, nan, a.inf)

    # ------------------------------------------------------------------ function execution
    def find_fn(self, callee):
        """Map a callee path to a parsed MIR function, if it is one of ours."""
        c = re.sub(r"::<[^<>]*(?:<[^<>]*>[^<>]*)*>$", "", callee.strip())
        m = re.fullmatch(r"<(?:Self|.*?) as ([\w:]+?)(?:<.*>)?>::(\w+)", c)
        cands = []
        if m:
            cands.append(f"{m.group(1).split('::')[-1]}::{m.group(2)}")
        cands.append(c)
        for n in cands:
            if n in self.fns:
                return self.fns[n]
        return None

    def call_closure(self, clos_val, args, by_ref=True):
        name = clos_val.name
        fn = self.closure_index.get(name)
        if fn is None:
            raise ExecError(f"no MIR body for closure {name}")
        first = fn.args[0][1]
        if first.startswith("&"):
            holder = Cell(clos_val)
            a0 = VRef(holder, ())
        else:
            a0 = clos_val
        return self.exec_fn(fn, [a0] + list(args))

    def world_roots(self, frames):
        return [frames, self.roots]

    def exec_fn(self, fn, args, depth=0):
        """Run one invocation; explore all paths; merge outcomes; returns the (merged) return value."""
        if depth > 40:
            raise ExecError("call depth")
        if fn.error:
            raise ExecError(f"{fn.name} uses a construct outside the encodable vocabulary: {fn.error}")
        frame = Frame(fn)
        if len(args) != len(fn.args):
            raise ExecError(f"arity mismatch calling {fn.name}: {len(args)} vs {len(fn.args)}")
        for (lid, _), a in zip(fn.args, args):
            frame.cell(lid).v = a
        entry_pc = self.pc
        # cells of the caller-visible world: everything reachable from args and extra roots
        base_cells = self._reachable([a for a in args] + list(self.roots))
        ident = {id(c): c for c in base_cells}
        work = [Path(frame, "bb0", TRUE, dict(ident))]
        outcomes = []
        while work:
            p = work.pop()
            self.pc = smt.and_(entry_pc, p.cond)
            res = self._run_path(p, work, depth)
            if res is not None:
                outcomes.append((p.cond, res, p.cmap))
        self.pc = entry_pc
        if not outcomes:
            return _DIVERGE
        if len(outcomes) == 1 and outcomes[0][2] is not None and all(outcomes[0][2][k] is ident[k] for k in ident):
            return outcomes[0][1]
        return self._merge_outcomes(outcomes, ident)

    def _reachable(self, vals):
        seen, cells, stack = set(), [], list(vals)
        while stack:
            v = stack.pop()
            if isinstance(v, VRef):
                if id(v.cell) not in seen:
                    seen.add(id(v.cell))
                    cells.append(v.cell)
                    stack.append(v.cell.v)
            elif isinstance(v, (VTuple, VStruct)):
                stack.extend(v.items)
            elif isinstance(v, VOpt):
                stack.append(v.val)
            elif isinstance(v, VRes):
                stack.append(v.val)
                stack.append(v.err)
            elif isinstance(v, (list, tuple)):
                stack.extend(v)
            elif isinstance(v, VOpaque) and isinstance(v.data, (list, tuple)):
                stack.extend(v.data)
        return cells

    def _fork(self, p, cond, block):
        """Copy the world of path p for a branch."""
        memo = {}
        keys = list(p.cmap.keys())
        cur_cells = [p.cmap[k] for k in keys]
        frame2, cells2 = copy.deepcopy((p.frame, cur_cells), memo)
        cmap2 = {k: c for k, c in zip(keys, cells2)}
        return Path(frame2, block, smt.and_(p.cond, cond), cmap2)

    def _merge_outcomes(self, outcomes, ident):
        # write merged cell values back into the original cells
        def back(v, cmap_rev):
            if isinstance(v, VRef):
                c = cmap_rev.get(id(v.cell))
                return VRef(c, v.path) if c is not None else v
            if isinstance(v, VTuple):
                return VTuple([back(x, cmap_rev) for x in v.items])
            if isinstance(v, VStruct):
                return VStruct(v.name, [back(x, cmap_rev) for x in v.items], v.fnames)
            if isinstance(v, VOpt):
                return VOpt(v.some, back(v.val, cmap_rev) if v.val is not None else None)
            return v
        revs = [{id(c): ident[k] for k, c in cm.items()} for _, _, cm in outcomes]
        for k, orig in ident.items():
            merged = None
            for (cond, _, cm), rev in reversed(list(zip(outcomes, revs))):
                v = back(cm[k].v, rev)
                merged = v if merged is None else merge_val(cond, v, merged)
            orig.v = merged
        ret = None
        for (cond, rv, _), rev in reversed(list(zip(outcomes, revs))):
            rv = back(rv, rev)
            ret = rv if ret is None else merge_val(cond, rv, ret)
        return ret

    def _run_path(self, p, work, depth):
        fn = p.frame.fn
        frame = p.frame
        base_pc = self.pc
        while True:
            self.steps += 1
            if self.steps > STEP_BUDGET:
                raise ExecError("step budget exceeded (symbolic loop?)")
            blk = fn.blocks.get(p.block)
            if blk is None:
                raise ExecError(f"missing block {p.block} in {fn.name}")
            for (_, place, rv) in blk.stmts:
                self.cur_dest_ty = fn.locals.get(place[1]) if place[0] == "local" else None
                val = self.rvalue(frame, rv)
                cell, path = self.resolve(frame, place)
                self.write_at(cell, path, val)
            t = blk.term
            if t is None:
                raise ExecError(f"block without terminator {p.block} in {fn.name}")
            k = t[0]
            if k == "goto":
                p.block = t[1]
            elif k == "return":
                return frame.cell(0).v if frame.cell(0).v is not None else VUnit()
            elif k == "unreachable":
                self.oblige(TRUE, "reached `unreachable`", fn.name)
                return None
            elif k == "resume":
                return None
            elif k == "drop":
                p.block = t[2]["return"]
            elif k == "assert":
                c = self.operand(frame, t[1])
                ok = c.t if t[2] else smt.not_(c.t)
                self.oblige(smt.not_(ok), "panic: " + t[3].strip('"'), fn.name)
                if ok.is_const and not ok.val:
                    return None
                if not ok.is_const:
                    p.cond = smt.and_(p.cond, ok)
                    self.pc = smt.and_(self.pc, ok)
                p.block = t[4]["success"]
            elif k == "switch":
                c = self.operand(frame, t[1])
                targets = t[2]
                term = c.t
                if isinstance(c, VBool):
                    choices = []
                    for key, bb in targets.items():
                        if key == "otherwise":
                            continue
                        choices.append((smt.not_(term) if key == "0" else term, bb))
                    conds = [cc for cc, _ in choices]
                    if "otherwise" in targets:
                        choices.append((smt.and_(*[smt.not_(cc) for cc in conds]), targets["otherwise"]))
                else:
                    choices, conds = [], []
                    for key, bb in targets.items():
                        if key == "otherwise":
                            continue
                        cc = smt.eq(term, smt.const(int(key)))
                        choices.append((cc, bb))
                        conds.append(cc)
                    if "otherwise" in targets:
                        choices.append((smt.and_(*[smt.not_(cc) for cc in conds]), targets["otherwise"]))
                live = [(cc, bb) for cc, bb in choices if not (cc.is_const and not cc.val)]
                if getattr(self, "prune", False) and len(live) > 1:
                    # optional: drop branches the solver shows infeasible under the assumptions and the path condition
                    live = [(cc, bb) for cc, bb in live if not self.valid(smt.not_(cc))]
                    if len(live) == 1:
                        live = [(smt.TRUE, live[0][1])]
                taken = [x for x in live if x[0].is_const and x[0].val]
                if taken:
                    p.block = taken[0][1]
                    continue
                if not live:
                    return None
                # symbolic fork: first choice continues here on a copy as well (keeps cmap uniform)
                for cc, bb in live[1:]:
                    work.append(self._fork(p, cc, bb))
                cc, bb = live[0]
                p.cond = smt.and_(p.cond, cc)
                self.pc = smt.and_(self.pc, cc)
                p.block = bb
            elif k == "call":
                dest, callee, ops, tgt = t[1], t[2], t[3], t[4]
                args = [self.operand(frame, o) for o in ops]
                saved_pc = self.pc
                self.assume_after_call = None
                val = self.call(callee, args, frame, depth)
                self.pc = saved_pc
                if self.assume_after_call is not None:
                    # a native that ends the failing side of a check (e.g. unwrap): continue under its condition
                    p.cond = smt.and_(p.cond, self.assume_after_call)
                    self.pc = smt.and_(self.pc, self.assume_after_call)
                    self.assume_after_call = None
                if val is _DIVERGE or "return" not in tgt:
                    return None
                if dest is not None:
                    cell, path = self.resolve(frame, dest)
                    self.write_at(cell, path, val)
                p.block = tgt["return"]
            else:
                raise ExecError(f"terminator {k}")

    # ------------------------------------------------------------------ calls
    def call(self, callee, args, frame, depth):
        if re.match(r"^(std::rt::panic_fmt|core::panicking::panic\w*|std::rt::begin_panic\w*|core::panicking::\w+)", callee):
            self.oblige(TRUE, "panic reached: " + callee, frame.fn.name)
            return _DIVERGE
        for pat, fnc in self.natives:
            m = pat.search(callee)
            if m:
                return fnc(self, callee, args, m)
        fn = self.find_fn(callee)
        if fn is not None:
            return self.exec_fn(fn, args, depth + 1)
        raise ExecError(f"callee outside the vocabulary: {callee}")


_DIVERGE = object()


def _raise(msg):
    raise ExecError(msg)


def _exact_sqrt(q):
    import math
    n, d = q.numerator, q.denominator
    rn, rd = math.isqrt(n), math.isqrt(d)
    if rn * rn == n and rd * rd == d:
        return Fraction(rn, rd)
    return None


def int_range(ty):
    ty = ty.strip()
    table = {"char": (0, 0x10FFFF), "u8": (0, 255), "u16": (0, 65535), "u32": (0, 2 ** 32 - 1), "u64": (0, 2 ** 64 - 1),
             "usize": (0, 2 ** 64 - 1), "i8": (-128, 127), "i16": (-32768, 32767), "i32": (-2 ** 31, 2 ** 31 - 1),
             "i64": (-2 ** 63, 2 ** 63 - 1), "isize": (-2 ** 63, 2 ** 63 - 1)}
    if ty not in table:
        raise ExecError(f"integer cast to {ty}")
    return table[ty]


def merge_val(c, a, b):
    """ite(c, a, b) over structured values."""
    if a is None:
        return b
    if b is None:
        return a
    if isinstance(a, VInt) and isinstance(b, VInt):
        return VInt(smt.ite(c, a.t, b.t))
    if isinstance(a, VBool) and isinstance(b, VBool):
        return VBool(smt.ite(c, a.t, b.t))
    if isinstance(a, VF) and isinstance(b, VF):
        return f_ite(c, a, b)
    if isinstance(a, VTuple) and isinstance(b, VTuple) and len(a.items) == len(b.items):
        return VTuple([merge_val(c, x, y) for x, y in zip(a.items, b.items)])
    if isinstance(a, VStruct) and isinstance(b, VStruct) and len(a.items) == len(b.items):
        return VStruct(a.name, [merge_val(c, x, y) for x, y in zip(a.items, b.items)], a.fnames)
    if isinstance(a, VOpt) and isinstance(b, VOpt):
        return VOpt(smt.ite(c, a.some, b.some), merge_val(c, a.val, b.val))
    if isinstance(a, VRef) and isinstance(b, VRef):
        if a.cell is b.cell and a.path == b.path:
            return a
        raise ExecError("merge of different references")
    if isinstance(a, VRes) and isinstance(b, VRes):
        return VRes(smt.ite(c, a.ok, b.ok), merge_val(c, a.val, b.val), a.err if a.err is not None else b.err)
    if isinstance(a, VEnum) and isinstance(b, VEnum) and a.disc == b.disc:
        return a
    if isinstance(a, VUnit) and isinstance(b, VUnit):
        return a
    if isinstance(a, VOpaque) and isinstance(b, VOpaque):
        return a
    if isinstance(a, VRange) and isinstance(b, VRange):
        if (a.cur, a.end, a.inclusive, a.done) == (b.cur, b.end, b.inclusive, b.done):
            return a
        raise ExecError("merge of different ranges")
    raise ExecError(f"cannot merge {type(a).__name__} with {type(b).__name__}")
