"""Engine M: MIR -> SMT symbolic execution of tevec's numeric kernels (DESIGN 1.2).

Pipeline per check run: dump MIR of the current /repo tree with the nightly toolchain -> parse ->
execute the outer `ts_*_to` body and its closure with the driver protocol unrolled over a concrete
length -> ask z3 whether any real-valued input in the box makes an output differ from the
from-scratch definition -> replay counterexamples natively (replay.py).
"""
import glob
import os
import re
import shutil
import time
from fractions import Fraction

from common import REPO, WORK, ensure_dir, log, run, seed
from . import smt, mirparse, natives, oracles
from .exec import Executor
from .values import *

MIR_DIR = os.path.join(WORK, "mir")
BOX = 100


def dump_mir(crate, features=()):
    """rustc -Zunpretty=mir for one workspace crate of the *current* /repo tree."""
    ensure_dir(MIR_DIR)
    tgt = os.path.join(MIR_DIR, "target")
    # force re-emission for this crate (an up-to-date crate prints nothing)
    for d in glob.glob(os.path.join(tgt, "debug", ".fingerprint", crate + "-*")):
        shutil.rmtree(d, ignore_errors=True)
    out = os.path.join(MIR_DIR, crate.replace("-", "_") + ".mir")
    cmd = ["cargo", "+nightly", "rustc", "--offline", "-p", crate, "--lib"]
    if features:
        cmd += ["--features", ",".join(features)]
    cmd += ["--", "-Zunpretty=mir", "-C", "debug-assertions=off", "-C", "overflow-checks=on"]
    import subprocess
    from common import env
    t0 = time.time()
    with open(out, "w") as fo, open(out + ".err", "w") as fe:
        rc = subprocess.call(cmd, cwd=REPO, env=env({"CARGO_TARGET_DIR": tgt}), stdout=fo, stderr=fe)
    if rc != 0 or os.path.getsize(out) < 1000:
        raise ExecError(f"MIR dump of {crate} failed (rc={rc}): " + open(out + ".err").read()[-1500:])
    return out, time.time() - t0


def read_consts():
    """Named constants that appear symbolically in the MIR are read from the source at run time."""
    consts = {}
    src = open(os.path.join(REPO, "tea-core", "src", "prelude.rs")).read()
    m = re.search(r"pub const EPS: f64 = ([^;]+);", src)
    if not m:
        raise ExecError("cannot find EPS in tea-core/src/prelude.rs")
    consts["EPS"] = Fraction(m.group(1).strip().replace("_", ""))
    consts["tea_core::prelude::EPS"] = consts["EPS"]
    # integer unit-conversion constants of tea-time (appear as `const convert::NAME` in the MIR)
    conv = os.path.join(REPO, "tea-time", "src", "convert.rs")
    if os.path.exists(conv):
        for m in re.finditer(r"pub const (\w+): i64 = ([0-9_]+);", open(conv).read()):
            consts[m.group(1)] = int(m.group(2).replace("_", ""))
    return consts


class Run:
    """Result of executing one kernel on one shape."""
    def __init__(self):
        self.outputs = []
        self.obligations = []
        self.assumptions = []
        self.inputs = {}


class Engine:
    def __init__(self, crates, solver_kind="z3", timeout_ms=30000):
        self.fns = {}
        self.dump_s = 0.0
        self.crate_files = {}
        for c in crates:
            path, dt = dump_mir(c)
            self.dump_s += dt
            self.crate_files[c] = path
            fns = mirparse.parse_mir(open(path).read())
            self.fns.update(fns)
        self.consts = read_consts()
        self.solver = smt.Solver(solver_kind, seed=seed(), timeout_ms=timeout_ms)
        self.queries = {"unsat": 0, "sat": 0, "unknown": 0}
        self.exec_s = 0.0
        self.norm_stats = {}

    def close(self):
        self.solver.close()

    # ------------------------------------------------------------------
    def make_series(self, name, mask, numeric=None):
        """mask[j] True -> valid symbolic real x_j in the box; False -> null."""
        xs, box = [], []
        for j, ok in enumerate(mask):
            if ok:
                if numeric is not None:
                    xs.append(VF.const(numeric[j]))
                else:
                    v = smt.var(f"{name}{j}")
                    xs.append(VF(v))
                    box.append(smt.and_(smt.le(smt.const(Fraction(-BOX)), v), smt.le(v, smt.const(Fraction(BOX)))))
            else:
                xs.append(VF.NaN())
        return xs, box

    def run_kernel(self, fname, window, mp, mask, mask2=None, mode="f64", numeric=None, numeric2=None,
                   extra_args=None, pre_assume=None, share=None):
        """Execute `fname` (an outer *_to function) on a series described by `mask`."""
        t0 = time.time()
        fn = self.fns.get(fname)
        if fn is None:
            raise ExecError(f"function {fname} not found in the MIR dump (renamed or removed?)")
        ex = Executor(self.fns, self.solver, self.consts, natives.NATIVES, mode)
        ex.numeric = numeric is not None
        ex.normalizer = None      # (normalising validity queries made ts_vcorr 90x slower; measured)
        if share is not None:     # second run of a relational query: same sqrt symbols and their defining assumptions
            ex.sqrt_memo = share.sqrt_memo
            ex.assumptions = share.assumptions
        xs, box = self.make_series("x", mask, numeric)
        ex.series = {"self": xs}
        ex.assumptions.extend(box)
        if mask2 is not None:
            ys, box2 = self.make_series("y", mask2, numeric2)
            ex.series["other"] = ys
            ex.assumptions.extend(box2)
        if pre_assume is not None:
            ex.assumptions.extend(pre_assume(ex.series))
        args = []
        extra = list(extra_args or [])
        for (lid, ty) in fn.args:
            ty = ty.strip()
            if ty == "&Self":
                args.append(VOpaque("self"))
            elif ty == "&V2":
                args.append(VOpaque("other"))
            elif ty == "usize":
                args.append(VInt(window))
            elif ty in ("Option<usize>", "std::option::Option<usize>"):
                args.append(VOpt(mp is not None, VInt(mp) if mp is not None else None))
            elif "UninitRefMut" in ty:
                args.append(VOpt(False, None))
            elif extra:
                args.append(extra.pop(0))
            else:
                raise ExecError(f"argument type {ty} of {fname}")
        ex.outputs = None
        ret = ex.exec_fn(fn, args)
        r = Run()
        r.outputs = ex.outputs
        r.ret = ret
        r.obligations = ex.obligations
        r.assumptions = ex.assumptions
        r.series = ex.series
        r.ex = ex
        self.exec_s += time.time() - t0
        return r

    def run_function(self, fname, make_args, mask, mask2=None, mode="f64", numeric=None, numeric2=None, share=None, prefix=""):
        """Execute an arbitrary MIR function; make_args(series) -> list of argument values."""
        t0 = time.time()
        fn = self.fns.get(fname)
        if fn is None:
            raise ExecError(f"function {fname} not found in the MIR dump (renamed or removed?)")
        ex = Executor(self.fns, self.solver, self.consts, natives.NATIVES, mode)
        ex.numeric = numeric is not None
        ex.normalizer = None
        if share is not None:          # second run of a relational query: same sqrt symbols, same assumptions
            ex.sqrt_memo = share.sqrt_memo
            ex.assumptions = share.assumptions
        xs, box = self.make_series(prefix + "x", mask, numeric)
        ex.series = {"self": xs}
        ex.assumptions.extend(box)
        if mask2 is not None:
            ys, box2 = self.make_series(prefix + "y", mask2, numeric2)
            ex.series["other"] = ys
            ex.assumptions.extend(box2)
        ex.outputs = None
        ret = ex.exec_fn(fn, make_args(ex.series))
        r = Run()
        r.ret, r.obligations, r.assumptions, r.series, r.ex = ret, ex.obligations, ex.assumptions, ex.series, ex
        self.exec_s += time.time() - t0
        return r

    def ask(self, assertions, want_model=True):
        """Decide satisfiability of the conjunction. Comparison atoms are first brought to polynomial normal
        form (norm_atoms); a conjunction that the Boolean simplifier reduces to `false` (a literal and its
        negation) is counted as syntactically unsat and still sent to the solver as `false` for the record."""
        assertions = [norm_atoms(a) for a in assertions]
        conj = smt.and_(*assertions)
        if conj.is_const and not conj.val:
            self.syntactic = getattr(self, "syntactic", 0) + 1
            assertions = [smt.FALSE]
        res, model = self.solver.check(assertions, want_model)
        if res == "unknown":
            # z3's nlsat is sensitive to seeds and accumulated state: retry once on a fresh process with another seed,
            # then ask cvc5 (second opinion); a remaining `unknown` stays inconclusive
            self.retries = getattr(self, "retries", 0) + 1
            try:
                alt = smt.Solver("z3", seed=self.solver.seed + 17, timeout_ms=self.solver.timeout_ms)
                res, model = alt.check(assertions, want_model)
                alt.close()
            except Exception:
                res = "unknown"
            if res == "unknown":
                try:
                    c5 = smt.Solver("cvc5", timeout_ms=self.solver.timeout_ms)
                    res, model = c5.check(assertions, want_model)
                    c5.close()
                    if res != "unknown":
                        self.cvc5_decided = getattr(self, "cvc5_decided", 0) + 1
                except Exception:
                    res = "unknown"
        self.queries[res] += 1
        return res, model


_NORM_MEMO = {}


def norm_atoms(t):
    """Equivalence-preserving rewrite: every polynomial comparison atom `a < b`, `a <= b`, `a = b` becomes
    `0 < P`, `0 <= P`, `P = 0` with P = b - a expanded, like terms cancelled and scaled by a positive constant.
    Two syntactically different but identical polynomial conditions (the code's `var > EPS` and the oracle's)
    thereby become the same hash-consed term, which the Boolean simplifier cancels before the solver is asked."""
    from . import poly

    def atom(x, a, b):
        try:
            pm = {}
            P = poly.p_add(poly.to_poly(b, pm), poly.to_poly(a, pm), -1)
        except poly.NotPoly:
            return None
        if not P:
            return smt.const(x.op in ("<=", "="))
        lead = P[min(P.keys(), key=lambda m: (len(m), m))]
        if all(not m for m in P):        # constant polynomial
            c = P[()]
            return smt.const({"<": c > 0, "<=": c >= 0, "=": c == 0}[x.op])
        scale = abs(lead)
        if x.op == "=" and lead < 0:
            scale = -scale
        Pn = {m: c / scale for m, c in P.items()}
        q = poly.from_poly(Pn)
        if x.op == "<":
            return smt.Term("<", (smt.R0, q), smt.BOOL)
        if x.op == "<=":
            return smt.Term("<=", (smt.R0, q), smt.BOOL)
        return smt.Term("=", (q, smt.R0), smt.BOOL)

    memo = _NORM_MEMO

    def go(x):
        r = memo.get(x)
        if r is not None:
            return r
        o = x.op
        if o in ("const", "var"):
            r = x
        elif o in ("<", "<=", "=") and x.args[0].sort == smt.REAL:
            a, b = go(x.args[0]), go(x.args[1])
            r = atom(x, a, b)
            if r is None:
                r = {"<": smt.lt, "<=": smt.le, "=": smt.eq}[o](a, b)
        else:
            r = smt.rebuild(x, {}, None) if False else None
            a = [go(y) for y in x.args]
            r = smt.rebuild(smt.Term(o, tuple(a), x.sort, x.val), {}, {}) if o not in ("+", "-", "*", "neg") else \
                {"+": lambda: smt.add(a[0], a[1]), "-": lambda: smt.sub(a[0], a[1]), "*": lambda: smt.mul(a[0], a[1]),
                 "neg": lambda: smt.neg(a[0])}[o]()
        memo[x] = r
        return r

    return go(t)


def resolve_ites(E, terms, assumptions):
    """Decide every ite condition inside `terms` under `assumptions` with the solver and substitute;
    undecided conditions stay. Returns the rewritten terms."""
    mapping = {}
    known = set()
    for a in assumptions:
        known.add(a)
        if a.op == "and":
            known.update(a.args)
    for _ in range(6):
        conds = [c for c in smt.ite_conditions(terms) if c not in mapping]
        if not conds:
            break
        progress = False
        for c in conds:
            if c in known:
                mapping[c] = smt.TRUE
                progress = True
                continue
            if smt.not_(c) in known:
                mapping[c] = smt.FALSE
                progress = True
                continue
            st, _ = E.ask(assumptions + [smt.not_(c)], want_model=False)
            if st == "unsat":
                mapping[c] = smt.TRUE
                progress = True
                continue
            st, _ = E.ask(assumptions + [c], want_model=False)
            if st == "unsat":
                mapping[c] = smt.FALSE
                progress = True
        if not progress:
            break
        memo = {}
        terms = [smt.rebuild(t, mapping, memo) for t in terms]
    return terms


def sqrt_rules(ex):
    """{sqrt symbol: radicand polynomial} for radicands with a positive constant denominator."""
    from . import poly
    rules = {}
    for (num, den, r) in ex.sqrt_memo:
        if den.is_const and den.val > 0:
            try:
                pn = poly.to_poly(num, {}, rules)
            except poly.NotPoly:
                continue
            rules[r.val] = {m: c / den.val for m, c in pn.items()}
    return rules


def value_differs(E, out, ref, assumptions, ex, stats=None):
    """Bool term equivalent (under `assumptions`) to 'out.num/out.den != ref.num/ref.den', preprocessed:
    ite conditions decided by the solver, then polynomial normal form with sqrt reduction."""
    from . import poly
    assumptions = [norm_atoms(a) for a in assumptions]
    terms = resolve_ites(E, [norm_atoms(t) for t in (out.num, out.den, ref.num, ref.den)], assumptions)
    on, od, rn, rd = terms
    diff = smt.sub(smt.mul(on, rd), smt.mul(rn, od))
    left = smt.ite_conditions([diff])
    if len(left) == 1:
        # one undecided condition c (e.g. `res != 0.` before a rescaling): split on it; on the side where an
        # equation P = 0 holds, the difference is reduced modulo P (exact polynomial division)
        c = left[0]
        eqn = c if c.op == "=" else (c.args[0] if c.op == "not" and c.args[0].op == "=" else None)
        parts = []
        try:
            rules = sqrt_rules(ex)
            for val in (smt.TRUE, smt.FALSE):
                d2 = smt.rebuild(diff, {c: val}, {})
                p = poly.reduce_sqrt(poly.to_poly(d2, {}, rules), rules)
                holds_eq = eqn is not None and ((c is eqn) == (val is smt.TRUE))
                if holds_eq and p:
                    P = poly.reduce_sqrt(poly.to_poly(smt.sub(eqn.args[0], eqn.args[1]), {}, rules), rules)
                    p = poly.p_rem(p, P)
                side = c if val is smt.TRUE else smt.not_(c)
                parts.append(smt.and_(side, smt.ne(poly.from_poly(p), smt.R0)))
            if stats is not None:
                stats["split"] = stats.get("split", 0) + 1
            return smt.or_(*parts)
        except poly.NotPoly:
            pass
    try:
        rules = sqrt_rules(ex)
        p = poly.to_poly(diff, {}, rules)
        p = poly.reduce_sqrt(p, rules)
        # sanity check of the normaliser on this instance: random rational point, sqrt symbols consistent
        _check_norm(diff, p, rules)
        if stats is not None:
            stats["normalised"] = stats.get("normalised", 0) + 1
        return smt.ne(poly.from_poly(p), smt.R0)
    except poly.NotPoly:
        if stats is not None:
            stats["direct"] = stats.get("direct", 0) + 1
        return smt.ne(diff, smt.R0)


def _check_norm(term, p, rules):
    """Schwartz-Zippel style self-check: evaluate the un-normalised term and the normal form at a random
    point where every sqrt symbol r satisfies r*r == radicand exactly (choose inputs, then r via exact
    roots when they exist; otherwise skip the check for this instance)."""
    import random
    from . import poly
    rng = random.Random(12345)
    vs = [v.val for v in smt.free_vars([term])]
    for attempt in range(20):
        env = {}
        for v in vs:
            if v not in rules:
                env[v] = Fraction(rng.randint(-9, 9))
        ok = True
        for r, rad in rules.items():
            if r not in vs:
                continue
            val = poly.eval_poly(rad, {**env, **{k: env.get(k, Fraction(0)) for k in _poly_vars(rad)}})
            from .exec import _exact_sqrt
            rt = _exact_sqrt(val) if val >= 0 else None
            if rt is None:
                ok = False
                break
            env[r] = rt
        if not ok:
            continue
        a = smt.evaluate(term, env)
        b = poly.eval_poly(p, {**{k: Fraction(0) for k in _poly_vars(p)}, **env})
        if a != b:
            raise ExecError("polynomial normaliser disagrees with the original term (machinery bug)")
        return True
    return False


def _poly_vars(p):
    s = set()
    for m in p:
        for v, _ in m:
            s.add(v)
    return s


def differs(out, ref):
    """Bool term: `out` (VF from the code) is not the value `ref` (VF, or None = null required)."""
    if ref is None:
        return smt.not_(out.nan)
    val_ne = smt.ne(smt.mul(out.num, ref.den), smt.mul(ref.num, out.den))
    return smt.or_(smt.ne(out.nan, ref.nan), smt.and_(smt.not_(ref.nan), smt.or_(val_ne, out.inf)))


def model_inputs(model, prefix, n):
    """Pull the series values out of a solver model (missing variables are irrelevant: 0)."""
    return [model.get(f"{prefix}{j}", Fraction(0)) if model else Fraction(0) for j in range(n)]
