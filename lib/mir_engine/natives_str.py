"""String vocabulary of `TimeDelta::parse` (C18): one-line specifications of the std functions it calls,
over ASCII strings of concrete length with symbolic bytes. chrono's Duration is replaced by its documented
contract: an exact signed nanosecond count with a checked range."""
import re

from . import smt
from .smt import TRUE, FALSE
from .values import *
from .exec import _DIVERGE
from .natives import N, _deref

MAX_NS = (2 ** 63 - 1) // 1000 * 1_000_000_000      # chrono::Duration::MAX in nanoseconds (i64::MAX milliseconds)


def s_char_indices(ex, callee, args, m):
    return VCharIter(_deref(ex, args[0]), 0)


# one representative character per UTF-8 width (the parser only ever tests ASCII classes): e-acute, euro sign, an emoji
MULTI = {2: 0xE9, 3: 0x20AC, 4: 0x1F600}


def utf8_bytes(width):
    return list(chr(MULTI[width]).encode("utf-8"))


def s_ci_next(ex, callee, args, m):
    ref = args[0]
    it = ex.read_at(ref.cell, ref.path)
    if it.pos >= len(it.s.bytes):
        return VOpt(False, None)
    w = 1
    if it.s.bounds is not None:
        while it.pos + w < len(it.s.bytes) and (it.pos + w) not in it.s.bounds:
            w += 1
    code = VInt(it.s.bytes[it.pos]) if w == 1 else VInt(MULTI[w])
    v = VOpt(True, VTuple([VInt(it.pos), code]))
    ex.write_at(ref.cell, ref.path, VCharIter(it.s, it.pos + w))
    return v


def s_bytes(ex, callee, args, m):
    return VStruct("Bytes", [_deref(ex, args[0]), VInt(0)])


def s_bytes_enumerate(ex, callee, args, m):
    return VStruct("Enumerate<Bytes>", [args[0].items[0], VInt(0)])


def s_bytes_next(ex, callee, args, m):
    ref = args[0]
    it = ex.read_at(ref.cell, ref.path)
    sv, pos = it.items[0], it.items[1].conc()
    if pos >= len(sv.bytes):
        return VOpt(False, None)
    ex.write_at(ref.cell, ref.path, VStruct(it.name, [sv, VInt(pos + 1)]))
    b = VInt(sv.bytes[pos])
    return VOpt(True, VTuple([VInt(pos), b]) if it.name.startswith("Enumerate") else b)


def _between(c, lo, hi):
    return smt.and_(smt.le(smt.const(lo), c), smt.le(c, smt.const(hi)))


def s_is_digit(ex, callee, args, m):
    c = _deref(ex, args[0]).t
    return VBool(_between(c, 48, 57))


def s_is_alpha(ex, callee, args, m):
    c = _deref(ex, args[0]).t
    return VBool(smt.or_(_between(c, 65, 90), _between(c, 97, 122)))


def s_string_new(ex, callee, args, m):
    return VString([])


def s_push(ex, callee, args, m):
    ref, ch = args
    s0 = ex.read_at(ref.cell, ref.path)
    ex.write_at(ref.cell, ref.path, VString(s0.bytes + [ch.t]))
    return VUnit()


def s_is_empty(ex, callee, args, m):
    return VBool(len(_deref(ex, args[0]).bytes) == 0)


def s_clear(ex, callee, args, m):
    ref = args[0]
    ex.write_at(ref.cell, ref.path, VString([]))
    return VUnit()


def s_as_str(ex, callee, args, m):
    return VStr(list(_deref(ex, args[0]).bytes))


def s_eq(ex, callee, args, m):
    a, b = _deref(ex, args[0]), _deref(ex, args[1])
    if len(a.bytes) != len(b.bytes):
        return VBool(False)
    return VBool(smt.and_(*[smt.eq(x, y) for x, y in zip(a.bytes, b.bytes)]))


def s_index(ex, callee, args, m):
    s, rng = _deref(ex, args[0]), args[1]
    lo, hi = rng.items[0].conc(), rng.items[1].conc()
    if not (lo <= hi <= len(s.bytes)):
        ex.oblige(TRUE, f"str index {lo}..{hi} out of range for length {len(s.bytes)}", callee)
        return _DIVERGE
    if s.bounds is not None:
        for off in (lo, hi):
            if off not in s.bounds and off not in (0, len(s.bytes)):
                ex.oblige(TRUE, f"byte index {off} is not a char boundary", callee)
                return _DIVERGE
        return VStr(s.bytes[lo:hi], {b - lo for b in s.bounds if lo <= b <= hi})
    return VStr(s.bytes[lo:hi])


def s_parse_i64(ex, callee, args, m):
    """<i64 as FromStr>: [+-]?[0-9]+ that fits in i64 (at most 18 digits here, so it always fits)."""
    s = _deref(ex, args[0])
    bs = s.bytes
    n = len(bs)
    if n == 0:
        return VRes(False, None, VOpaque("ParseIntError"))
    if n > 18:
        raise ExecError("parse::<i64> on more than 18 bytes (overflow analysis not modelled)")
    digit = [_between(b, 48, 57) for b in bs]

    def mag(ds):
        v = smt.I0
        for d in ds:
            v = smt.add(smt.mul(v, smt.const(10)), smt.sub(d, smt.const(48)))
        return v
    ok_plain = smt.and_(*digit)
    if n >= 2:
        is_minus, is_plus = smt.eq(bs[0], smt.const(45)), smt.eq(bs[0], smt.const(43))
        ok_signed = smt.and_(smt.or_(is_minus, is_plus), *digit[1:])
        ok = smt.or_(ok_plain, ok_signed)
        val = smt.ite(ok_plain, mag(bs), smt.ite(is_minus, smt.neg(mag(bs[1:])), mag(bs[1:])))
    else:
        ok, val = ok_plain, mag(bs)
    return VRes(ok, VInt(val), VOpaque("ParseIntError"))


def s_res_unwrap(ex, callee, args, m):
    r = args[0]
    ex.oblige(smt.not_(r.ok), "called `Result::unwrap()` on an `Err` value", callee)
    if r.ok.is_const and not r.ok.val:
        return _DIVERGE
    ex.pc = smt.and_(ex.pc, r.ok)
    ex.assume_after_call = r.ok
    return r.val


def s_map_err(ex, callee, args, m):
    r = args[0]
    return VRes(r.ok, r.val, VOpaque("TError"))


def s_try_branch(ex, callee, args, m):
    # ControlFlow<residual, value>: Continue (discriminant 0) carries the Ok payload, Break the Err residual
    r = args[0]
    return VRes(r.ok, r.val, VRes(False, None, r.err))


def s_from_residual(ex, callee, args, m):
    res = args[0]
    return VRes(False, None, res.err if isinstance(res, VRes) else VOpaque("TError"))


def s_opaque(ex, callee, args, m):
    return VOpaque(callee.split("::")[-1])


def d_seconds(ex, callee, args, m):
    s = args[0].t
    lim = smt.const((2 ** 63 - 1) // 1000)
    ex.oblige(smt.or_(smt.lt(s, smt.neg(lim)), smt.gt(s, lim)), "TimeDelta::seconds out of bounds", callee)
    return VStruct("chrono::Duration", [VInt(smt.mul(s, smt.const(1_000_000_000)))])


def d_nanos(ex, callee, args, m):
    return VStruct("chrono::Duration", [VInt(args[0].t)])


def d_add(ex, callee, args, m):
    a, b = args[0].items[0].t, args[1].items[0].t
    r = smt.add(a, b)
    ex.oblige(smt.or_(smt.lt(r, smt.const(-MAX_NS)), smt.gt(r, smt.const(MAX_NS))), "`TimeDelta + TimeDelta` overflowed", callee)
    return VStruct("chrono::Duration", [VInt(r)])


def d_new(ex, callee, args, m):
    """chrono::TimeDelta::new(secs, nanos) -> Option: Some iff nanos < 1e9 and the value is within +-i64::MAX milliseconds"""
    secs, nanos = args[0].t, args[1].t
    total = smt.add(smt.mul(secs, smt.const(1_000_000_000)), nanos)
    ok = smt.and_(smt.le(smt.const(0), nanos), smt.lt(nanos, smt.const(1_000_000_000)),
                  smt.le(smt.const(-MAX_NS), total), smt.le(total, smt.const(MAX_NS)))
    return VOpt(ok, VStruct("chrono::Duration", [VInt(total)]))


def d_try_ctor(mult):
    def f(ex, callee, args, m):
        total = smt.mul(args[0].t, smt.const(mult))
        ok = smt.and_(smt.le(smt.const(-MAX_NS), total), smt.le(total, smt.const(MAX_NS)))
        return VOpt(ok, VStruct("chrono::Duration", [VInt(total)]))
    return f


def d_ctor(mult):
    def f(ex, callee, args, m):
        total = smt.mul(args[0].t, smt.const(mult))
        ex.oblige(smt.or_(smt.lt(total, smt.const(-MAX_NS)), smt.gt(total, smt.const(MAX_NS))), "TimeDelta constructor out of bounds", callee)
        return VStruct("chrono::Duration", [VInt(total)])
    return f


def d_checked(sign):
    def f(ex, callee, args, m):
        a, b = _deref(ex, args[0]).items[0].t, _deref(ex, args[1]).items[0].t
        r = smt.add(a, b) if sign > 0 else smt.sub(a, b)
        return VOpt(smt.and_(smt.le(smt.const(-MAX_NS), r), smt.le(r, smt.const(MAX_NS))), VStruct("chrono::Duration", [VInt(r)]))
    return f


def d_sub(ex, callee, args, m):
    a, b = args[0].items[0].t, args[1].items[0].t
    r = smt.sub(a, b)
    ex.oblige(smt.or_(smt.lt(r, smt.const(-MAX_NS)), smt.gt(r, smt.const(MAX_NS))), "`TimeDelta - TimeDelta` overflowed", callee)
    return VStruct("chrono::Duration", [VInt(r)])


def s_opt_ok_or(ex, callee, args, m):
    o = args[0]
    return VRes(o.some, o.val, VOpaque("TError"))


def s_opt_unwrap(ex, callee, args, m):
    o = args[0]
    ex.oblige(smt.not_(o.some), "called `Option::unwrap()` / `expect()` on a `None` value", callee)
    if o.some.is_const and not o.some.val:
        return _DIVERGE
    ex.pc = smt.and_(ex.pc, o.some)
    ex.assume_after_call = o.some
    return o.val


STR_NATIVES = [
    (N(r"^core::str::<impl str>::char_indices$"), s_char_indices),
    (N(r"^<CharIndices<'_> as Iterator>::next$"), s_ci_next),
    (N(r"^core::str::<impl str>::bytes$"), s_bytes),
    (N(r"^<(?:std::str::|core::str::)?Bytes<'_> as Iterator>::enumerate$"), s_bytes_enumerate),
    (N(r"^<(?:Enumerate<)?(?:std::str::|core::str::)?Bytes<'_>>? as Iterator>::next$"), s_bytes_next),
    (N(r"^<(?:Enumerate<(?:std::str::|core::str::)?Bytes<'_>>|(?:std::str::|core::str::)?Bytes<'_>|CharIndices<'_>) as IntoIterator>::into_iter$"),
     lambda ex, c, a, m: a[0]),
    (N(r"^core::num::<impl u8>::is_ascii_digit$"), s_is_digit),
    (N(r"^core::num::<impl u8>::is_ascii_alphabetic$"), s_is_alpha),
    (N(r"^char::methods::<impl char>::is_ascii_digit$"), s_is_digit),
    (N(r"^char::methods::<impl char>::is_ascii_alphabetic$"), s_is_alpha),
    (N(r"^String::with_capacity$|^String::new$"), s_string_new),
    (N(r"^String::push$"), s_push),
    (N(r"^String::is_empty$"), s_is_empty),
    (N(r"^String::clear$"), s_clear),
    (N(r"^String::as_str$"), s_as_str),
    (N(r"^<str as PartialEq>::eq$"), s_eq),
    (N(r"^<str as Index<std::ops::Range<usize>>>::index$"), s_index),
    (N(r"^core::str::<impl str>::parse::<i64>$"), s_parse_i64),
    (N(r"^Result::<i64, ParseIntError>::unwrap$"), s_res_unwrap),
    (N(r"^Result::<i64, ParseIntError>::map_err::<"), s_map_err),
    (N(r"^<Result<(?:i64|chrono::TimeDelta), tea_error::TError> as Try>::branch$"), s_try_branch),
    (N(r"^Option::<chrono::TimeDelta>::ok_or(?:_else)?::<"), s_opt_ok_or),
    (N(r"^Option::<chrono::TimeDelta>::(?:unwrap|expect)$"), s_opt_unwrap),
    (N(r"^chrono::TimeDelta::new$"), d_new),
    (N(r"^chrono::TimeDelta::try_seconds$"), d_try_ctor(1_000_000_000)),
    (N(r"^chrono::TimeDelta::try_milliseconds$"), d_try_ctor(1_000_000)),
    (N(r"^chrono::TimeDelta::milliseconds$"), d_ctor(1_000_000)),
    (N(r"^chrono::TimeDelta::microseconds$"), d_ctor(1_000)),
    (N(r"^chrono::TimeDelta::minutes$"), d_ctor(60 * 1_000_000_000)),
    (N(r"^chrono::TimeDelta::hours$"), d_ctor(3600 * 1_000_000_000)),
    (N(r"^chrono::TimeDelta::days$"), d_ctor(86400 * 1_000_000_000)),
    (N(r"^chrono::TimeDelta::weeks$"), d_ctor(604800 * 1_000_000_000)),
    (N(r"^chrono::TimeDelta::zero$"), lambda ex, c, a, m: VStruct("chrono::Duration", [VInt(0)])),
    (N(r"^chrono::TimeDelta::checked_add$"), d_checked(+1)),
    (N(r"^chrono::TimeDelta::checked_sub$"), d_checked(-1)),
    (N(r"^<chrono::TimeDelta as Sub>::sub$"), d_sub),
    (N(r"^<Result<timedelta::TimeDelta, tea_error::TError> as FromResidual<Result<Infallible, tea_error::TError>>>::from_residual$"), s_from_residual),
    (N(r"^Arguments::<'_>::|^std::fmt::format$|^must_use::<String>$|^<String as Into<ErrInfo>>::into$|"
       r"^core::fmt::rt::Argument::<'_>::|^tea_error::__private::must_use$|"
       r"^<.* as From<.*>>::from$"), s_opaque),
    (N(r"^chrono::TimeDelta::seconds$"), d_seconds),
    (N(r"^chrono::TimeDelta::nanoseconds$"), d_nanos),
    (N(r"^<chrono::TimeDelta as Add>::add$"), d_add),
]
