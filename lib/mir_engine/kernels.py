"""Specification table of the rolling kernels decided by Engine M, and the per-shape check."""
import itertools
from fractions import Fraction

from . import smt, oracles as O
from .values import *
from . import differs, model_inputs, value_differs


class K:
    def __init__(self, name, fn, oracle, kmin=0, floor=None, null_aware=True, two=False, clamp_w=True,
                 floor_on=None, native=None, pick=None, min_w=1, guard_on=None, needs_cur=False):
        self.name, self.fn, self.oracle, self.kmin = name, fn, oracle, kmin
        self.floor = floor                    # value required when the spread is (numerically) zero: 0, "null", None
        self.null_aware, self.two = null_aware, two
        self.floor_on = floor_on              # which population variance triggers the floor
        self.native = native or name          # name understood by /verif/replay
        self.pick = pick                      # component of a tuple output
        self.min_w = min_w
        self.needs_cur = needs_cur            # the statistic is of the *current* element (null when it is null)
        self.guard_on = guard_on              # claims are made only where this quantity is > 0 (e.g. regressor variance)


def _var_of_x(xs, ys=None):
    return O.pop_var(xs)


def _var_of_both(xs, ys):
    return None


RV, RF = "RollingValidFeature", "RollingFeature"

KERNELS = {}


def _reg(k):
    KERNELS[k.name] = k


for pre, trait, na in (("ts_v", RV, True), ("ts_", RF, False)):
    _reg(K(pre + "sum", f"{trait}::{pre}sum_to", O.o_sum, 0, None, na))
    _reg(K(pre + "mean", f"{trait}::{pre}mean_to", O.o_mean, 0, None, na))
    _reg(K(pre + "ewm", f"{trait}::{pre}ewm_to", O.o_ewm, 0, None, na))
    _reg(K(pre + "wma", f"{trait}::{pre}wma_to", O.o_wma, 0, None, na))
    _reg(K(pre + "std", f"{trait}::{pre}std_to", O.o_std, 2, 0, na, floor_on=_var_of_x))
    _reg(K(pre + "var", f"{trait}::{pre}var_to", O.o_var, 2, 0, na, floor_on=_var_of_x))
    _reg(K(pre + "skew", f"{trait}::{pre}skew_to", O.o_skew, 3, 0, na, floor_on=_var_of_x))
    _reg(K(pre + "kurt", f"{trait}::{pre}kurt_to", O.o_kurt, 4, 0, na, floor_on=_var_of_x))


# ---- C04: two-series statistics and regressions ------------------------------------------------
def _var_xy(xs, ys):
    return [O.pop_var(xs), O.pop_var(ys)]


def _var_y(xs, ys):
    return O.pop_var(ys)


RB, RR, RRB = "RollingValidBinary", "RollingValidReg", "RollingValidRegBinary"
_reg(K("ts_vcov", f"{RB}::ts_vcov_to", lambda xs, ys, **kw: O.o_cov(xs, ys), 2, None, True, two=True))
_reg(K("ts_vcorr", f"{RB}::ts_vcorr_to", lambda xs, ys, sqrt=None, **kw: O.o_corr(xs, ys, sqrt=sqrt), 2, "null", True, two=True,
       floor_on=_var_xy))


def _trend(f):
    def orc(ys, **kw):
        n = len(ys)
        (alpha, beta), ts = O.trend(ys)
        return f(alpha, beta, n, ts, ys).f
    return orc


_reg(K("ts_vreg", f"{RR}::ts_vreg_to", _trend(lambda a, b, n, ts, ys: a + b * n), 2))
_reg(K("ts_vtsf", f"{RR}::ts_vtsf_to", _trend(lambda a, b, n, ts, ys: a + b * (n + 1)), 2))
_reg(K("ts_vreg_slope", f"{RR}::ts_vreg_slope_to", _trend(lambda a, b, n, ts, ys: b), 2))
_reg(K("ts_vreg_intercept", f"{RR}::ts_vreg_intercept_to", _trend(lambda a, b, n, ts, ys: a), 2))
_reg(K("ts_vreg_resid_mean", f"{RR}::ts_vreg_resid_mean_to",
       _trend(lambda a, b, n, ts, ys: O.qsum([(O.Q(y) - a - b * O.Q(t)) ** 2 for t, y in zip(ts, ys)]) / n), 2))


def _regx(f):
    # regression of the first series (y = self) on the second (x = other)
    def orc(ys, xs, sqrt=None, **kw):
        alpha, beta = O.ols(xs, ys)
        return f(alpha, beta, xs, ys, sqrt).f
    return orc


def _resid(alpha, beta, xs, ys):
    return [(O.Q(y) - alpha - beta * O.Q(x)).f for x, y in zip(xs, ys)]


_reg(K("ts_vregx_alpha", f"{RRB}::ts_vregx_alpha_to", _regx(lambda a, b, xs, ys, sq: a), 2, None, True, two=True, guard_on=_var_y))
_reg(K("ts_vregx_beta", f"{RRB}::ts_vregx_beta_to", _regx(lambda a, b, xs, ys, sq: b), 2, None, True, two=True, guard_on=_var_y))
for _i, _nm, _f in ((0, "alpha", lambda a, b, xs, ys, sq: a), (1, "beta", lambda a, b, xs, ys, sq: b),
                    (2, "sse", lambda a, b, xs, ys, sq: O.qsum([O.Q(r) ** 2 for r in _resid(a, b, xs, ys)]))):
    _reg(K(f"ts_vregx_all_{_nm}", f"{RRB}::ts_vregx_all", _regx(_f), 2, None, True, two=True, guard_on=_var_y,
           native=f"ts_vregx_all_{_nm}", pick=_i))
_reg(K("ts_vregx_resid_mean", f"{RRB}::ts_vregx_resid_mean_to",
       _regx(lambda a, b, xs, ys, sq: O.mean(_resid(a, b, xs, ys))), 2, None, True, two=True, guard_on=_var_y))


def _o_zscore(xs, sqrt=None, cur=None, **kw):
    if cur is None:
        return None
    return ((O.Q(cur) - O.mean(xs)) / O.Q(O.o_std(xs, sqrt=sqrt))).f


_reg(K("ts_vzscore", "RollingValidNorm::ts_vzscore_to", _o_zscore, 2, "null", True, floor_on=_var_of_x, needs_cur=True))


def _resid_var(ys, xs):
    a, b = O.ols(xs, ys)
    return O.pop_var(_resid(a, b, xs, ys))


_reg(K("ts_vregx_resid_std", f"{RRB}::ts_vregx_resid_std_to",
       _regx(lambda a, b, xs, ys, sq: O.Q(O.o_std(_resid(a, b, xs, ys), sqrt=sq))), 2, 0, True, two=True,
       guard_on=_var_y, floor_on=_resid_var))
_reg(K("ts_vregx_resid_skew", f"{RRB}::ts_vregx_resid_skew_to",
       _regx(lambda a, b, xs, ys, sq: O.Q(O.o_skew(_resid(a, b, xs, ys), sqrt=sq))), 3, 0, True, two=True,
       guard_on=_var_y, floor_on=_resid_var))


def need_count(k, w, mp):
    """effective minimum number of valid observations: max(min(mp or w/2, w), k)"""
    base = (w // 2) if mp is None else mp
    return max(min(base, w), k.kmin)


def window_valid(xs, mask, i, w):
    lo = max(0, i - w + 1)
    return [xs[j] for j in range(lo, i + 1) if mask[j]]


class ShapeResult:
    def __init__(self):
        self.queries = 0
        self.failures = []     # dict(kind, pos, model, msg)
        self.unknown = []


def guard_pre(k, L, w, mask, mask2):
    """claims (and execution) are restricted to inputs where the guard quantity (regressor variance) is positive in every
    window that holds at least two complete observations"""
    if k.guard_on is None:
        return None

    def pre(series):
        both = [a and b for a, b in zip(mask, mask2)]
        out = []
        for i in range(L):
            gx, gy = window_valid(series["self"], both, i, w), window_valid(series["other"], both, i, w)
            if len(gx) >= 2:
                out.append(f_cmp("Gt", k.guard_on(gx, gy).f, VF.const(0)))
        return out
    return pre


def check_shape(E, k, L, w, mp, mask, mask2=None, mode="f64", eps=None, flags_only=False, positions=None):
    """All positions of kernel k on one (L, w, mp, mask[, mask2]) shape. Returns ShapeResult."""
    res = ShapeResult()
    pre = guard_pre(k, L, w, mask, mask2)
    r = E.run_kernel(k.fn, w, mp, mask, mask2, mode, pre_assume=pre)
    base = list(r.assumptions)
    # proof obligations collected during execution: panics, unchecked indices
    for ob in r.obligations:
        st, model = E.ask(base + [ob.cond])
        res.queries += 1
        if st == "sat":
            res.failures.append(dict(kind="panic", pos=None, model=model, msg=ob.msg + " in " + ob.where))
        elif st == "unknown":
            res.unknown.append(f"obligation {ob.msg}")
    if r.outputs is None or len(r.outputs) != L:
        res.failures.append(dict(kind="length", pos=None, model=None,
                                 msg=f"driver produced {None if r.outputs is None else len(r.outputs)} outputs for {L} inputs"))
        return res
    need = need_count(k, w, mp)
    xs = r.series["self"]
    ys = r.series.get("other")
    sq = r.ex.f_sqrt
    EPS = VF.const(E.consts["EPS"])
    for i in range(L):
        out = r.outputs[i]
        if out is None:
            break          # the callback panics here on every path; already reported through its obligation
        if positions is not None and i not in positions:
            continue
        if k.pick is not None:
            out = out.items[k.pick]
        if k.two:
            both = [m1 and m2 for m1, m2 in zip(mask, mask2)]
            wx, wy = window_valid(xs, both, i, w), window_valid(ys, both, i, w)
            n = len(wx)
        else:
            wx, wy = window_valid(xs, mask, i, w), None
            n = len(wx)
        cases = []       # (extra assumptions, reference)
        guard = []
        if k.guard_on is not None and n >= max(need, 1):
            g = k.guard_on(wx, wy)
            guard = [f_cmp("Gt", g.f, VF.const(0))]
        if n < need:
            cases.append(([], None))
        else:
            cur = (xs[i] if mask[i] else None) if k.needs_cur else None
            ref = k.oracle(wx, wy, sqrt=sq, window=w) if k.two else k.oracle(wx, sqrt=sq, window=w, cur=cur)
            if k.needs_cur and cur is None:
                ref = None
            if isinstance(ref, str):       # "undefined": statement does not constrain this position
                continue
            if ref == "skip":
                continue
            if k.floor_on is not None and ref is not None:
                pv = k.floor_on(wx, wy)
                if isinstance(pv, list):
                    his = [f_cmp("Gt", p.f, EPS) for p in pv]
                    hi = smt.and_(*his)
                else:
                    hi = f_cmp("Gt", pv.f, EPS)
                cases.append(([hi], ref))
                fl = None if k.floor == "null" else VF.const(k.floor)
                cases.append(([smt.not_(hi)], fl))
            else:
                cases.append(([], ref))
        # the sqrt symbols introduced by the oracle live in r.ex.assumptions too
        base = list(r.ex.assumptions)
        for extra, ref in cases:
            extra = extra + guard
            if ref is None:
                qs = [(smt.not_(out.nan), "output is non-null where null is required")]
            elif flags_only:
                qs = [(smt.ne(out.nan, ref.nan), "null flag differs from the definition (null exactly when undefined)")]
            else:
                qs = [(smt.ne(out.nan, ref.nan), "null flag differs from the definition (null exactly when undefined)"),
                      (smt.and_(smt.not_(ref.nan), smt.not_(out.nan),
                                smt.or_(out.inf, value_differs(E, out, ref, base + extra, r.ex, E.norm_stats))),
                       "output differs from the from-scratch definition")]
            for bad, msg in qs:
                st, model = E.ask(base + extra + [bad])
                res.queries += 1
                if st == "sat":
                    res.failures.append(dict(kind="value", pos=i, model=model, msg=msg))
                    break
                elif st == "unknown":
                    res.unknown.append(f"pos {i}: {msg}")
    return res


def masks_for(L, null_aware, tier, rng, two=False):
    """Null masks: all 2^L when small, otherwise the structured ones + seeded extras."""
    if not null_aware:
        return [[True] * L]
    allm = [list(m) for m in itertools.product([True, False], repeat=L)]
    if L <= 4 or (tier == "thorough" and L <= 5):
        return allm
    base = [[True] * L, [False] * L, [j % 2 == 0 for j in range(L)], [j % 2 == 1 for j in range(L)],
            [j >= 2 for j in range(L)], [j < L - 2 for j in range(L)], [j != L // 2 for j in range(L)],
            [j in (0, L - 1) for j in range(L)]]
    extra = rng.sample(allm, 6 if tier == "quick" else 16)
    out = []
    for m in base + extra:
        if m not in out:
            out.append(m)
    return out
