"""Parser for rustc's `-Zunpretty=mir` text (nightly 1.97): functions -> locals, basic blocks,
statements, terminators. Anything it does not recognise raises MirError (the check then exits 2: a
mutation that introduces an unknown construct can never pass silently)."""
import re


class MirError(Exception):
    pass


class Fn:
    def __init__(self, name, sig):
        self.name = name
        self.sig = sig
        self.args = []        # [(local id, type)]
        self.ret = ""
        self.locals = {}      # id -> type
        self.blocks = {}      # id -> Block
        self.src = ""
        self.error = None


class Block:
    def __init__(self, bid, cleanup):
        self.id = bid
        self.cleanup = cleanup
        self.stmts = []       # [("assign", place, rvalue)]
        self.term = None


def split_top(s, sep=","):
    """Split on `sep` at bracket depth 0 (respects <>, (), [], {} and string literals)."""
    out, depth, cur, i, n = [], 0, [], 0, len(s)
    instr = False
    while i < n:
        ch = s[i]
        if instr:
            cur.append(ch)
            if ch == "\\":
                cur.append(s[i + 1])
                i += 1
            elif ch == '"':
                instr = False
        elif ch == '"':
            instr = True
            cur.append(ch)
        elif ch in "<([{":
            depth += 1
            cur.append(ch)
        elif ch in ">)]}":
            if ch == ">" and i > 0 and s[i - 1] in "-=":     # '->' / '=>' are not brackets
                cur.append(ch)
            else:
                depth -= 1
                cur.append(ch)
        elif ch == sep and depth == 0:
            out.append("".join(cur).strip())
            cur = []
        else:
            cur.append(ch)
        i += 1
    last = "".join(cur).strip()
    if last:
        out.append(last)
    return out


def _match_paren(s, i):
    """s[i] is an opening bracket; return index of the matching closing one."""
    pairs = {"(": ")", "[": "]", "{": "}", "<": ">"}
    stack = []
    instr = False
    j = i
    while j < len(s):
        ch = s[j]
        if instr:
            if ch == "\\":
                j += 1
            elif ch == '"':
                instr = False
        elif ch == '"':
            instr = True
        elif ch in "([{":
            stack.append(pairs[ch])
        elif ch in ")]}":
            if not stack or stack[-1] != ch:
                raise MirError(f"unbalanced in {s!r}")
            stack.pop()
            if not stack:
                return j
        j += 1
    raise MirError(f"unbalanced {s!r}")


# ---- places -------------------------------------------------------------------------------
def parse_place(s):
    """Returns ("local", n) | ("deref", p) | ("field", p, idx, ty) | ("downcast", p, variant) | ("index", p, local)."""
    s = s.strip()
    m = re.fullmatch(r"_(\d+)", s)
    if m:
        return ("local", int(m.group(1)))
    if s.startswith("(*") and _match_paren(s, 0) == len(s) - 1:
        return ("deref", parse_place(s[2:-1]))
    if s.startswith("(") and _match_paren(s, 0) == len(s) - 1:
        inner = s[1:-1]
        # (P as Variant)
        m = re.fullmatch(r"(.*) as (\w+)", inner)
        if m and ":" not in _strip_nested(m.group(1)):
            return ("downcast", parse_place(m.group(1)), m.group(2))
        # (P.N: TYPE)
        k = _find_field_colon(inner)
        if k is not None:
            left, ty = inner[:k], inner[k + 1:].strip()
            dot = left.rfind(".")
            return ("field", parse_place(left[:dot]), int(left[dot + 1:]), ty)
    m = re.fullmatch(r"(.*)\[_(\d+)\]", s)
    if m:
        return ("index", parse_place(m.group(1)), int(m.group(2)))
    raise MirError(f"unrecognised place {s!r}")


def _strip_nested(s):
    out, depth = [], 0
    for ch in s:
        if ch in "([{":
            depth += 1
        elif ch in ")]}":
            depth -= 1
        elif depth == 0:
            out.append(ch)
    return "".join(out)


def _find_field_colon(inner):
    """index of the ':' that separates `P.N` from the type in `(P.N: T)` (depth 0, first occurrence after .N)."""
    depth = 0
    for i, ch in enumerate(inner):
        if ch in "([{":
            depth += 1
        elif ch in ")]}":
            depth -= 1
        elif ch == ":" and depth == 0:
            if i + 1 < len(inner) and inner[i + 1] == ":":
                return None
            if re.search(r"\.\d+$", inner[:i]):
                return i
            return None
    return None


# ---- operands / rvalues -------------------------------------------------------------------
BINOPS = {"Add", "Sub", "Mul", "Div", "Rem", "Eq", "Ne", "Lt", "Le", "Gt", "Ge", "BitAnd", "BitOr", "BitXor",
          "Shl", "Shr", "AddWithOverflow", "SubWithOverflow", "MulWithOverflow", "AddUnchecked", "SubUnchecked",
          "MulUnchecked", "Offset", "Cmp"}
UNOPS = {"Not", "Neg", "PtrMetadata"}


def parse_operand(s):
    s = s.strip()
    if s.startswith("no_retag "):
        s = s[9:].strip()
    if s.startswith("copy "):
        return ("copy", parse_place(s[5:]))
    if s.startswith("move "):
        return ("move", parse_place(s[5:]))
    if s.startswith("const "):
        return ("const", s[6:].strip())
    raise MirError(f"unrecognised operand {s!r}")


def parse_rvalue(s):
    s = s.strip()
    if s.startswith("no_retag "):
        s = s[9:].strip()
    if s.startswith(("copy ", "move ", "const ")):
        # possibly a cast: `copy _x as f64 (IntToFloat)`
        m = re.fullmatch(r"((?:copy|move|const) .*) as (.*) \((\w+(?:\([\w, ]*\))?)\)", s)
        if m:
            return ("cast", parse_operand(m.group(1)), m.group(2).strip(), m.group(3))
        return ("use", parse_operand(s))
    if re.fullmatch(r"PhantomData::<[^;]*>", s):
        return ("struct", "PhantomData", [])
    m = re.match(r"(\w+)\(", s)
    if m and s.endswith(")") and _match_paren(s, m.end() - 1) == len(s) - 1:
        name, inner = m.group(1), s[m.end():-1]
        if name in BINOPS:
            a, b = split_top(inner)
            return ("binop", name, parse_operand(a), parse_operand(b))
        if name in UNOPS:
            return ("unop", name, parse_operand(inner))
        if name == "discriminant":
            return ("discr", parse_place(inner))
        if name == "Len":
            return ("len", parse_place(inner))
        if name == "CopyForDeref":
            return ("use", ("copy", parse_place(inner)))
        if name[0].isupper() and name not in BINOPS and name not in UNOPS and name not in ("Len", "Cast", "ShallowInitBox", "Repeat"):
            # tuple-struct constructor without generic arguments: `Time(move _13)`
            return ("variant", name, "new", [parse_operand(p) for p in split_top(inner)])
    if s.startswith("&mut "):
        return ("ref", parse_place(s[5:]), True)
    if s.startswith("&raw "):
        raise MirError(f"raw pointer rvalue {s!r}")
    if s.startswith("&"):
        body = s[1:].strip()
        body = re.sub(r"^'\w+\s+", "", body)
        if body.startswith("(fake shallow) ") or body.startswith("fake "):
            raise MirError(f"fake borrow {s!r}")
        return ("ref", parse_place(body), False)
    if s.startswith("(") and _match_paren(s, 0) == len(s) - 1:
        inner = s[1:-1]
        parts = split_top(inner)
        if inner.strip().endswith(",") or len(parts) != 1 or inner.strip() == "":
            return ("tuple", [parse_operand(p) for p in parts])
        return ("tuple", [parse_operand(parts[0])])
    if s.startswith("[") and s.endswith("]"):
        inner = s[1:-1]
        if ";" in _strip_nested(inner):
            op, n = inner.rsplit(";", 1)
            return ("repeat", parse_operand(op), n.strip())
        return ("array", [parse_operand(p) for p in split_top(inner)])
    # aggregates: `{closure@...} { f: op, .. }`, `Path::<T> { f: op }`, `Option::<T>::Some(op)`, `Option::<T>::None`
    m = re.fullmatch(r"(\{closure@[^}]*\})(?:\s*\{(.*)\})?", s, re.S)
    if m:
        fields = []
        if m.group(2) and m.group(2).strip():
            for f in split_top(m.group(2)):
                k, v = f.split(":", 1)
                fields.append((k.strip(), parse_operand(v)))
        return ("closure", m.group(1), fields)
    m = re.fullmatch(r"([\w:]+)::<[^()]*>\((.*)\)", s, re.S)      # tuple-struct constructor `Path::<T>(a, b)`
    if m:
        return ("variant", m.group(1), "new", [parse_operand(p) for p in split_top(m.group(2))])
    m = re.fullmatch(r"(.*)::(\w+)\((.*)\)", s, re.S)
    if m and "::<" in s or (m and re.match(r"[\w:<>]+$", m.group(1) or "")):
        if m:
            return ("variant", m.group(1), m.group(2), [parse_operand(p) for p in split_top(m.group(3))])
    m = re.fullmatch(r"([\w:<>, &'\[\]()]+?)::(None|\w+)", s)
    if m and m.group(2)[0].isupper():
        return ("variant", m.group(1), m.group(2), [])
    m = re.fullmatch(r"([\w:<>, &']+?)\s*\{(.*)\}", s, re.S)
    if m:
        fields = []
        for f in split_top(m.group(2)):
            k, v = f.split(":", 1)
            fields.append((k.strip(), parse_operand(v)))
        return ("struct", m.group(1).strip(), fields)
    raise MirError(f"unrecognised rvalue {s!r}")


# ---- terminators --------------------------------------------------------------------------
def parse_targets(s):
    """`[return: bb2, unwind: bb8]` / `[success: bb1, unwind continue]` / `[0: bb6, otherwise: bb2]`"""
    out = {}
    if s.strip() == "[]":
        return out
    for part in split_top(s.strip()[1:-1]):
        if ":" in part:
            k, v = part.split(":", 1)
            out[k.strip()] = v.strip()
        else:
            k = part.split()[0]
            out[k] = part[len(k):].strip()
    return out


def parse_terminator(s):
    s = s.strip().rstrip(";")
    if s == "return":
        return ("return",)
    if s in ("unreachable",):
        return ("unreachable",)
    if s.startswith("resume") or s.startswith("unwind terminate") or s.startswith("abort"):
        return ("resume",)
    m = re.fullmatch(r"goto -> (bb\d+)", s)
    if m:
        return ("goto", m.group(1))
    m = re.fullmatch(r"switchInt\((.*)\) -> (\[.*\])", s, re.S)
    if m:
        return ("switch", parse_operand(m.group(1)), parse_targets(m.group(2)))
    m = re.fullmatch(r"drop\((.*)\) -> (\[.*\])", s, re.S)
    if m:
        return ("drop", parse_place(m.group(1)), parse_targets(m.group(2)))
    if s.startswith("assert("):
        j = _match_paren(s, 6)
        inner = s[7:j]
        parts = split_top(inner)
        cond = parts[0]
        expect = True
        if cond.startswith("!"):
            expect = False
            cond = cond[1:]
        msg = parts[1] if len(parts) > 1 else ""
        tgt = parse_targets(s[j + 1:].strip()[2:].strip())
        return ("assert", parse_operand(cond), expect, msg, tgt)
    m = re.fullmatch(r"falseEdge -> \[real: (bb\d+), imaginary: bb\d+\]", s)
    if m:
        return ("goto", m.group(1))
    m = re.fullmatch(r"falseUnwind -> \[real: (bb\d+), .*\]", s)
    if m:
        return ("goto", m.group(1))
    # diverging call: `PLACE = CALLEE(ARGS) -> unwind continue` (no return edge)
    m = re.fullmatch(r"(.*\)) -> unwind (?:continue|unreachable|terminate.*)", s, re.S)
    if m:
        s = m.group(1) + " -> []"
    # call: `PLACE = CALLEE(ARGS) -> [return: bbN, unwind: ...]`  (diverging calls have no return target)
    k = s.rfind(" -> [")
    if k >= 0 and s.endswith("]"):
        head, tgt = s[:k], parse_targets(s[k + 4:])
        if " = " in head:
            dest, call = head.split(" = ", 1)
            dest = parse_place(dest)
        else:
            dest, call = None, head
        call = call.strip()
        if not call.endswith(")"):
            raise MirError(f"unrecognised call {s!r}")
        # find the '(' that opens the argument list: the one matching the final ')'
        depth, i = 0, len(call) - 1
        while i >= 0:
            if call[i] == ")":
                depth += 1
            elif call[i] == "(":
                depth -= 1
                if depth == 0:
                    break
            i -= 1
        callee, args = call[:i].strip(), call[i + 1:-1]
        return ("call", dest, callee, [parse_operand(a) for a in split_top(args)], tgt)
    raise MirError(f"unrecognised terminator {s!r}")


IGNORED_STMT = re.compile(r"^(StorageLive|StorageDead|nop|FakeRead|PlaceMention|AscribeUserType|Retag|Coverage|"
                          r"ConstEvalCounter|BackwardIncompatibleDropHint|Deinit)\b")


def parse_mir(text):
    fns = {}
    lines = text.split("\n")
    i, n = 0, len(lines)
    while i < n:
        line = lines[i]
        pm = re.match(r"const (.*::promoted\[\d+\]): (.*) = \{$", line.rstrip())
        if pm:     # promoted constant: a zero-argument body evaluated where it is used
            line = lines[i] = f"fn {pm.group(1)}() -> {pm.group(2)} {{"
        cm = re.match(r"const ([\w:]+): (.*) = \{$", line.rstrip())
        if cm and not pm:   # named constant with a body: a zero-argument function `const::<last path segment>`
            line = lines[i] = f"fn const::{cm.group(1).split('::')[-1]}() -> {cm.group(2)} {{"
        if line.startswith("fn ") and line.rstrip().endswith("{"):
            j = i + 1
            while j < n and lines[j] != "}":
                j += 1
            try:
                f = _parse_fn(lines[i:j + 1])
            except MirError as e:
                # functions outside the encodable vocabulary are only an error if they are executed
                m = re.match(r"fn (.*?)\(", line)
                f = Fn(m.group(1) if m else line, line)
                f.error = str(e)
            fns[f.name] = f
            i = j + 1
        else:
            i += 1
    return fns


def _parse_fn(lines):
    head = lines[0]
    m = re.match(r"fn (.*)$", head)
    sig = m.group(1).rstrip(" {")
    # name = up to the '(' that starts the argument list (depth-0 '(' not inside <> or {closure@..})
    depth, k = 0, None
    for idx, ch in enumerate(sig):
        if ch in "<{[":
            depth += 1
        elif ch in ">}]" and not (ch == ">" and idx > 0 and sig[idx - 1] == "-"):
            depth -= 1
        elif ch == "(" and depth == 0:
            k = idx
            break
    name = sig[:k].strip()
    close = _match_paren(sig, k)
    f = Fn(name, sig)
    for a in split_top(sig[k + 1:close]):
        am = re.match(r"_(\d+): (.*)$", a, re.S)
        if am:
            f.args.append((int(am.group(1)), am.group(2).strip()))
            f.locals[int(am.group(1))] = am.group(2).strip()
    rest = sig[close + 1:].strip()
    f.ret = rest[2:].strip() if rest.startswith("->") else "()"
    f.locals[0] = f.ret
    cur = None
    buf = ""
    for raw in lines[1:]:
        line = raw.strip()
        if not line or line.startswith("//"):
            continue
        if cur is None:
            lm = re.match(r"let (?:mut )?_(\d+): (.*);$", line)
            if lm:
                f.locals[int(lm.group(1))] = lm.group(2).strip()
                continue
            bm = re.match(r"(bb\d+)( \(cleanup\))?: \{$", line)
            if bm:
                cur = Block(bm.group(1), bool(bm.group(2)))
                f.blocks[cur.id] = cur
                buf = ""
            continue
        if line == "}":
            cur = None
            continue
        buf = (buf + " " + line).strip() if buf else line
        if not buf.endswith(";"):
            continue            # multi-line statement
        stmt, buf = buf, ""
        if cur.cleanup:
            continue            # unwinding paths are not executed (a panic ends the path)
        _add_stmt(cur, stmt)
    return f


def _add_stmt(block, stmt):
    body = stmt.rstrip(";").strip()
    if IGNORED_STMT.match(body):
        return
    is_term = (body in ("return", "unreachable", "resume") or body.startswith(("goto ", "switchInt(", "drop(",
               "assert(", "falseEdge", "falseUnwind", "unwind ", "abort")) or " -> [" in body
               or re.search(r"\) -> (bb\d+|unwind)", body) is not None)
    if is_term:
        block.term = parse_terminator(body)
        return
    if " = " not in body:
        raise MirError(f"unrecognised statement {stmt!r}")
    lhs, rhs = body.split(" = ", 1)
    block.stmts.append(("assign", parse_place(lhs), parse_rvalue(rhs)))
