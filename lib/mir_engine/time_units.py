"""C16 cross-check on mathematical integers: `DateTime::into_unit` executed from its MIR for each of the 16 unit pairs with
the timestamp an unbounded-width SMT Int constrained to the i64 range (no bit-blasting: the 64-bit divider that stalls CBMC
is a one-line LIA fact for z3). Overflow checks of the MIR stay as proof obligations."""
import re

from . import smt, natives
from .natives import N, _deref
from .exec import Executor, _DIVERGE
from .values import *

I64_MIN, I64_MAX = -2 ** 63, 2 ** 63 - 1
UNITS = {"Second": (5, 1), "Millisecond": (6, 10 ** 3), "Microsecond": (7, 10 ** 6), "Nanosecond": (8, 10 ** 9)}


def make_natives(u_from, u_to):
    def unit(ex, callee, args, m):
        return VEnum(UNITS[u_from if callee.startswith("<U ") else u_to][0])

    def enum_eq(ex, callee, args, m):
        return VBool(_deref(ex, args[0]).disc == _deref(ex, args[1]).disc)

    def is_nat(ex, callee, args, m):
        return VBool(smt.eq(_deref(ex, args[0]).items[0].t, smt.const(I64_MIN)))

    def nat(ex, callee, args, m):
        return VStruct("DateTime", [VInt(I64_MIN), VUnit()])

    def new(ex, callee, args, m):
        return VStruct("DateTime", [args[0], VUnit()])

    def div_euclid(ex, callee, args, m):
        a, b = args[0].t, args[1].t
        if not (b.is_const and b.val > 0):
            raise ExecError("div_euclid by a non-constant or non-positive divisor")
        return VInt(smt.idiv(a, b))        # SMT-LIB div is the Euclidean/floor quotient for a positive divisor

    return [
        (N(r"^<[UT] as timeunit::TimeUnitTrait>::unit$"), unit),
        (N(r"^<timeunit::TimeUnit as PartialEq>::eq$"), enum_eq),
        (N(r"^datetime::DateTime::<[UT]>::is_nat$"), is_nat),
        (N(r"^datetime::DateTime::<[UT]>::nat$"), nat),
        (N(r"^datetime::DateTime::<[UT]>::new$"), new),
        (N(r"^core::num::<impl i64>::div_euclid$"), div_euclid),
    ] + natives.NATIVES


def find_into_unit(E):
    c = [f for n, f in E.fns.items() if n.endswith("::into_unit") and "convert" in n]
    if len(c) != 1:
        raise ExecError(f"cannot locate DateTime::into_unit in the MIR dump ({len(c)} candidates)")
    return c[0]


def check_pair(E, fn, u_from, u_to):
    """-> (queries, [(message, model)], unknowns)"""
    v = smt.var("ts", smt.INT)
    dom = [smt.le(smt.const(I64_MIN), v), smt.le(v, smt.const(I64_MAX))]
    ex = Executor(E.fns, E.solver, E.consts, make_natives(u_from, u_to), "f64")
    ex.normalizer = None
    ret = ex.exec_fn(fn, [VStruct("DateTime", [VInt(v), VUnit()])])
    pf, pt = UNITS[u_from][1], UNITS[u_to][1]
    not_nat = smt.ne(v, smt.const(I64_MIN))
    qs = []
    if ret is _DIVERGE:
        return 0, [("into_unit panics on every path", None)], []
    out = ret.items[0].t
    qs.append(([smt.eq(v, smt.const(I64_MIN)), smt.ne(out, smt.const(I64_MIN))], "NaT does not convert to NaT"))
    if pt >= pf:
        r = pt // pf
        fits = smt.and_(smt.le(smt.const(-(I64_MAX // r)), v), smt.le(v, smt.const(I64_MAX // r)))
        qs.append(([not_nat, fits, smt.ne(out, smt.mul(v, smt.const(r)))], "finer unit is not the exact multiple"))
        for ob in ex.obligations:
            qs.append(([not_nat, fits, ob.cond], "panic on a representable instant: " + ob.msg))
    else:
        r = pf // pt
        qs.append(([not_nat, smt.ne(out, smt.idiv(v, smt.const(r)))], "coarser unit is not the floor (truncation toward the past)"))
        qs.append(([not_nat, smt.eq(out, smt.const(I64_MIN))], "a valid instant converts to NaT"))
        for ob in ex.obligations:
            qs.append(([not_nat, ob.cond], "panic on a valid instant: " + ob.msg))
    fails, unk = [], []
    for extra, msg in qs:
        st, model = E.ask(dom + ex.assumptions + extra)
        if st == "sat":
            fails.append((msg, model))
        elif st == "unknown":
            unk.append(msg)
    return len(qs), fails, unk
