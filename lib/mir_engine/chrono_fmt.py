"""Contract model of chrono's strftime formatting and `parse_from_str` for the specifier subset tevec's default format and
rule list use (plus the neighbouring fraction specifiers), over strings whose *shape* is concrete and whose digits are symbolic.

A formatted string is a list of byte terms: literal bytes are constants, digit bytes are `48 + d` with `d` a symbolic digit
value remembered in `DIGIT_OF`. Parsing follows chrono 0.4 `format::parse::parse_internal` / `scan::number` /
`scan::nanosecond(_fixed)` literally; its control flow only looks at byte *classes* (digit / which literal), which are
concrete here, so the walk is concrete and only field values and range checks are symbolic.
Anything outside the modelled subset raises ExecError (the run is then inconclusive, never a verdict)."""
from . import smt
from .values import ExecError

C = smt.const
DIGIT_OF = {}          # byte term -> digit value term


def digit_byte(d):
    if d.is_const:
        return C(48 + int(d.val))
    b = smt.add(C(48), d)
    DIGIT_OF[b] = d
    return b


DIGITS_MEMO = {}       # (value term, width) -> digit value terms (most significant first), for values given by their digits


def digits_of(value, width):
    """zero-padded decimal digits of a non-negative Int term below 10**width, most significant first"""
    hit = DIGITS_MEMO.get((value, width))
    if hit is not None:
        return [digit_byte(d) for d in hit]
    out = []
    for k in range(width - 1, -1, -1):
        q = smt.idiv(value, C(10 ** k)) if k else value
        out.append(digit_byte(smt.imod(q, C(10))))
    return out


# ---- format strings -------------------------------------------------------------------------------------------------
NUM = {"Y": ("year", 4, True), "y": ("year_mod_100", 2, False), "m": ("month", 2, False), "d": ("day", 2, False),
       "H": ("hour", 2, False), "M": ("minute", 2, False), "S": ("second", 2, False), "f": ("nano", 9, False)}
COMPOSITE = {"T": "%H:%M:%S", "F": "%Y-%m-%d", "D": "%m/%d/%y", "R": "%H:%M"}


def items(fmt):
    """format string -> [("lit", code) | ("space",) | ("num", field, width, signed) | ("frac", digits or None, dot)]"""
    out, i = [], 0
    while i < len(fmt):
        ch = fmt[i]
        if ch != "%":
            if ord(ch) > 127:
                raise ExecError("non-ASCII format string")
            out.append(("space", ord(ch)) if ch in " \t\n\r" else ("lit", ord(ch)))
            i += 1
            continue
        i += 1
        if i >= len(fmt):
            raise ExecError("dangling % in a format string")
        sp = fmt[i]
        if sp in NUM:
            out.append(("num",) + NUM[sp])
            i += 1
        elif sp in COMPOSITE:
            out += items(COMPOSITE[sp])
            i += 1
        elif sp == "%":
            out.append(("lit", 37))
            i += 1
        elif sp in "nt":
            out.append(("space", 10 if sp == "n" else 9))
            i += 1
        elif sp == ".":
            rest = fmt[i + 1:]
            if rest.startswith("f"):
                out.append(("frac", None, True)); i += 2
            elif rest[:2] in ("3f", "6f", "9f"):
                out.append(("frac", int(rest[0]), True)); i += 3
            else:
                raise ExecError(f"format specifier %.{rest[:2]} outside the modelled subset")
        elif sp in "369" and fmt[i + 1:i + 2] == "f":
            out.append(("frac", int(sp), False)); i += 2
        else:
            raise ExecError(f"format specifier %{sp} outside the modelled subset")
    return out


FRAC_CLASSES = ("zero", "milli", "micro", "nano")


def frac_class_constraint(ns, cls):
    z = C(0)
    if cls == "zero":
        return [smt.eq(ns, z)]
    if cls == "milli":
        return [smt.ne(ns, z), smt.eq(smt.imod(ns, C(10 ** 6)), z)]
    if cls == "micro":
        return [smt.ne(smt.imod(ns, C(10 ** 6)), z), smt.eq(smt.imod(ns, C(10 ** 3)), z)]
    return [smt.ne(smt.imod(ns, C(10 ** 3)), z)]


def format_bytes(fields, fmt, cls):
    """fields: dict year, month, day, hour, minute, second, nano (Int terms; year in 1000..9999); cls: fraction class of
    `nano` (only `%.f` needs it: chrono prints 0 / 3 / 6 / 9 fraction digits). -> list of byte terms"""
    out = []
    for it in items(fmt):
        if it[0] == "lit":
            out.append(C(it[1]))
        elif it[0] == "space":
            out.append(C(it[1]))
        elif it[0] == "num":
            _, field, width, _signed = it
            v = smt.imod(fields["year"], C(100)) if field == "year_mod_100" else fields[field]
            out += digits_of(v, width)
        else:
            _, nd, dot = it
            if nd is None:
                nd = {"zero": 0, "milli": 3, "micro": 6, "nano": 9}[cls]
                if nd == 0:
                    continue
            if dot:
                out.append(C(46))
            out += digits_of(smt.idiv(fields["nano"], C(10 ** (9 - nd))) if nd < 9 else fields["nano"], nd)
    return out


# ---- parsing -----------------------------------------------------------------------------------------------------
def _cls(b):
    """-> ("dig", value term) | ("lit", code)"""
    if b.is_const:
        c = int(b.val)
        return ("dig", C(c - 48)) if 48 <= c <= 57 else ("lit", c)
    d = DIGIT_OF.get(b)
    if d is None:
        raise ExecError("byte of unknown class in a date-time string (only formatted strings are supported)")
    return ("dig", d)


def _number(bs, pos, mn, mx):
    """scan::number: -> (ok: bool, newpos, value term)"""
    if len(bs) - pos < mn:
        return False, pos, None
    val, k = C(0), 0
    while k < mx and pos + k < len(bs):
        kind, d = _cls(bs[pos + k])
        if kind != "dig":
            break
        val = smt.add(smt.mul(val, C(10)), d)
        k += 1
    if k < mn:
        return False, pos, None
    return True, pos + k, val


WS = (32, 9, 10, 13, 11, 12)


def _trim(bs, pos):
    while pos < len(bs):
        kind, c = _cls(bs[pos])
        if kind == "lit" and c in WS:
            pos += 1
        else:
            break
    return pos


def parse_fields(bs, fmt):
    """chrono::format::parse over the byte list -> (matched: Python bool, conds: [Bool terms that must hold], fields dict)"""
    pos, fields, conds = 0, {}, []

    RANGE = {"month": (1, 12), "day": (1, 31), "hour": (0, 23), "minute": (0, 59), "second": (0, 60),
             "nano": (0, 999_999_999), "year_mod_100": (0, 99), "year": (-2 ** 31, 2 ** 31 - 1)}

    def setf(name, val):
        lo, hi = RANGE[name]
        conds.append(_rng(val, lo, hi))                    # Parsed::set_* range checks (OUT_OF_RANGE)
        if name in fields:
            conds.append(smt.eq(fields[name], val))       # set_if_consistent (IMPOSSIBLE)
        else:
            fields[name] = val

    for it in items(fmt):
        if it[0] == "lit":
            if pos >= len(bs):
                return False, conds, fields               # TOO_SHORT
            kind, c = _cls(bs[pos])
            if kind == "lit":
                if c != it[1]:
                    return False, conds, fields           # INVALID
            else:
                if not (48 <= it[1] <= 57):
                    return False, conds, fields           # a digit never equals a non-digit literal
                conds.append(smt.eq(c, C(it[1] - 48)))
            pos += 1
        elif it[0] == "space":
            pos = _trim(bs, pos)
        elif it[0] == "num":
            _, field, width, signed = it
            pos = _trim(bs, pos)
            neg = False
            if signed and pos < len(bs):
                kind, c = _cls(bs[pos])
                if kind == "lit" and c in (43, 45):
                    neg = c == 45
                    ok, pos, v = _number(bs, pos + 1, 1, 10 ** 6)
                    if not ok:
                        return False, conds, fields
                    setf(field, smt.neg(v) if neg else v)
                    continue
            ok, pos, v = _number(bs, pos, 1, width)
            if not ok:
                return False, conds, fields
            setf(field, v)
        else:
            _, nd, dot = it
            if dot:
                if pos < len(bs) and _cls(bs[pos]) == ("lit", 46):
                    if nd is None:
                        ok, p2, v = _number(bs, pos + 1, 1, 9)
                        if not ok:
                            return False, conds, fields
                        k = p2 - (pos + 1)
                        v = smt.mul(v, C(10 ** (9 - k)))
                        while p2 < len(bs) and _cls(bs[p2])[0] == "dig":
                            p2 += 1                        # digits beyond the ninth are skipped
                        pos = p2
                    else:
                        ok, pos, v = _number(bs, pos + 1, nd, nd)
                        if not ok:
                            return False, conds, fields
                        v = smt.mul(v, C(10 ** (9 - nd)))
                    setf("nano", v)
            else:
                if len(bs) - pos < nd:
                    return False, conds, fields
                ok, pos, v = _number(bs, pos, nd, nd)
                if not ok:
                    return False, conds, fields
                setf("nano", smt.mul(v, C(10 ** (9 - nd))))
    if pos < len(bs):
        return False, conds, fields                        # TOO_LONG
    return True, conds, fields


def _rng(v, lo, hi):
    return smt.and_(smt.le(C(lo), v), smt.le(v, C(hi)))


def resolve_date(fields, days_in_month):
    """Parsed::to_naive_date for the (year | year_mod_100, month, day) combination -> (possible: bool, ok term, (y, m, d))"""
    if "month" not in fields or "day" not in fields:
        return False, None, None
    if "year" in fields:
        y = fields["year"]
        ok = [_rng(y, -262143, 262142)]
        if "year_mod_100" in fields:
            ok.append(smt.eq(smt.imod(y, C(100)), fields["year_mod_100"]))
    elif "year_mod_100" in fields:
        ym = fields["year_mod_100"]
        y = smt.add(ym, smt.ite(smt.lt(ym, C(70)), C(2000), C(1900)))
        ok = [_rng(ym, 0, 99)]
    else:
        return False, None, None
    m, d = fields["month"], fields["day"]
    ok += [_rng(m, 1, 12), smt.le(C(1), d), smt.le(d, days_in_month(y, m))]
    return True, smt.and_(*ok), (y, m, d)


def resolve_time(fields):
    """Parsed::to_naive_time -> (possible, ok term, ns of day)"""
    if "hour" not in fields or "minute" not in fields:
        return False, None, None, None
    h, mi = fields["hour"], fields["minute"]
    ok = [_rng(h, 0, 23), _rng(mi, 0, 59)]
    gap = smt.FALSE
    if "second" in fields:
        s = fields["second"]
        ok.append(_rng(s, 0, 60))
        leap = smt.eq(s, C(60))
        if leap.is_const and leap.val:
            raise ExecError("text with second 60: chrono's leap-second representation is outside the model")
        gap = leap                                           # must be unreachable for the verdict to count (checked by the caller)
        sec = smt.ite(leap, C(59), s)
        extra = smt.ite(leap, C(10 ** 9), C(0))
        ns = fields.get("nano", C(0))
        if "nano" in fields:
            ok.append(_rng(ns, 0, 999_999_999))
    else:
        if "nano" in fields:
            return False, None, None, None                 # NOT_ENOUGH: a fraction without seconds
        sec, extra, ns = C(0), C(0), C(0)
    tod = smt.add(smt.mul(smt.add(smt.add(smt.mul(h, C(3600)), smt.mul(mi, C(60))), sec), C(10 ** 9)), smt.add(ns, extra))
    return True, smt.and_(*ok), tod, gap
