"""C11 (Engine M part): one-pass aggregation formulas of tea-core / tea-agg against their textbook
definitions over the non-null elements. The null-skipping folds are the protocol summary proved by
the `c11_fold_protocol_*` Kani harnesses."""
import itertools
import math
import random
import re
import time
from fractions import Fraction

from common import log, seed
from . import smt, replay, oracles as O
from . import ExecError, differs, value_differs
from .exec import Executor, _DIVERGE
from .values import *
from .mirparse import MirError


class A:
    def __init__(self, name, fn, oracle, kmin, two=False, floor=None, floor_on=None, pick=None, native=None, has_mp=True):
        self.name, self.fn, self.oracle, self.kmin, self.two = name, fn, oracle, kmin, two
        self.floor, self.floor_on, self.pick, self.native, self.has_mp = floor, floor_on, pick, native or name, has_mp


def _pv(xs, ys=None):
    return [O.pop_var(xs)]


def _pv2(xs, ys):
    return [O.pop_var(xs), O.pop_var(ys)]


AGGS = [
    A("vmean", "AggValidBasic::vmean", lambda xs, **kw: O.o_mean(xs), 1, has_mp=False),
    A("vmean_var_mean", "AggValidBasic::vmean_var", lambda xs, **kw: O.o_mean(xs), 1, pick=0),
    A("vvar", "AggValidBasic::vvar", lambda xs, **kw: O.o_var(xs), 2, floor=0, floor_on=_pv),
    A("vstd", "AggValidBasic::vstd", lambda xs, sqrt=None, **kw: O.o_std(xs, sqrt=sqrt), 2, floor=0, floor_on=_pv),
    # vskew / vkurt (aggregation forms) are not claimed by Engine M: their `if res != 0. { rescale }` step forks on an exact
    # zero test of a rational function and the resulting case-split queries come back `unknown` from z3's nlsat
    # (measured: 15 s timeouts on 3 observations). The rolling forms ts_vskew / ts_vkurt (same formulas) are decided in C01.
    A("vcov", "AggValidBasic::vcov", lambda xs, ys, **kw: O.o_cov(xs, ys), 2, two=True),
    A("vcorr_pearson", "AggValidBasic::vcorr_pearson", lambda xs, ys, sqrt=None, **kw: O.o_corr(xs, ys, sqrt=sqrt), 2,
      two=True, floor="null", floor_on=_pv2),
]
BY_NAME = {a.name: a for a in AGGS}


def _args(a, mp):
    def mk(series):
        args = [VSeq(series["self"])]
        if a.two:
            args.append(VSeq(series["other"]))
        if a.has_mp:
            args.append(VInt(mp))
        return args
    return mk


def _valid(series, mask, mask2):
    if mask2 is None:
        return [x for x, m in zip(series["self"], mask) if m], None
    both = [m1 and m2 for m1, m2 in zip(mask, mask2)]
    return ([x for x, m in zip(series["self"], both) if m], [y for y, m in zip(series["other"], both) if m])


def expected_numeric(E, a, x, y, mp):
    ex = Executor({}, None, E.consts, [], "f64")
    ex.numeric = True
    if a.two:
        both = [p is not None and q is not None for p, q in zip(x, y)]
        wx = [VF.const(Fraction(p)) for p, m in zip(x, both) if m]
        wy = [VF.const(Fraction(q)) for q, m in zip(y, both) if m]
    else:
        wx, wy = [VF.const(Fraction(p)) for p in x if p is not None], None
    n = len(wx)
    if n < max(mp if a.has_mp else 0, a.kmin):
        return [float("nan")]
    ref = a.oracle(wx, wy, sqrt=ex.f_sqrt) if a.two else a.oracle(wx, sqrt=ex.f_sqrt)
    want = replay.vf_to_float(ref) if ref is not None else float("nan")
    if a.floor_on is not None:
        eps = E.consts["EPS"]
        vals = [Fraction(p.f.num.val) / Fraction(p.f.den.val) for p in a.floor_on(wx, wy)]
        fl = float("nan") if a.floor == "null" else float(a.floor)
        if all(vv > eps * (1 + Fraction(1, 10 ** 6)) for vv in vals):
            return [want]
        if any(vv < eps * (1 - Fraction(1, 10 ** 6)) for vv in vals):
            return [fl]
        return [want, fl]
    return [want]


def check_one(E, a, L, mp, mask, mask2):
    """-> (queries, failures[(kind,msg,model)], unknowns)"""
    r = E.run_function(a.fn, _args(a, mp), mask, mask2)
    base = list(r.assumptions)
    q, fails, unk = 0, [], []
    for ob in r.obligations:
        st, model = E.ask(base + [ob.cond])
        q += 1
        if st == "sat":
            fails.append(("panic", ob.msg + " in " + ob.where, model))
        elif st == "unknown":
            unk.append(ob.msg)
    out = r.ret
    if out is _DIVERGE or out is None:
        return q, fails or [("panic", "every path panics", None)], unk
    if a.pick is not None:
        out = out.items[a.pick]
    wx, wy = _valid(r.series, mask, mask2)
    n = len(wx)
    need = max(mp if a.has_mp else 0, a.kmin)
    EPS = VF.const(E.consts["EPS"])
    cases = []
    if n < need:
        cases.append(([], None))
    else:
        ref = a.oracle(wx, wy, sqrt=r.ex.f_sqrt) if a.two else a.oracle(wx, sqrt=r.ex.f_sqrt)
        if a.floor_on is not None and ref is not None:
            hi = smt.and_(*[f_cmp("Gt", p.f, EPS) for p in a.floor_on(wx, wy)])
            cases.append(([hi], ref))
            cases.append(([smt.not_(hi)], None if a.floor == "null" else VF.const(a.floor)))
        else:
            cases.append(([], ref))
    base = list(r.ex.assumptions)
    for extra, ref in cases:
        if ref is None:
            qs = [(smt.not_(out.nan), "aggregate is non-null where null is required (too few valid observations / undefined)")]
        else:
            qs = [(smt.ne(out.nan, ref.nan), "null flag differs from the definition"),
                  (smt.and_(smt.not_(ref.nan), smt.not_(out.nan),
                            smt.or_(out.inf, value_differs(E, out, ref, base + extra, r.ex, E.norm_stats))),
                   "aggregate differs from its textbook definition")]
        for bad, msg in qs:
            st, model = E.ask(base + extra + [bad])
            q += 1
            if st == "sat":
                fails.append(("value", msg, model))
                break
            if st == "unknown":
                unk.append(msg)
    return q, fails, unk


def shapes(a, tier, rng):
    heavy = a.name in ("vskew", "vkurt", "vcorr_pearson")
    Ls = [0, 1, 2, 3, 4] + ([] if heavy else [5]) if tier == "quick" else [0, 1, 2, 3, 4, 5] + ([] if heavy else [6])
    for L in Ls:
        masks = [list(m) for m in itertools.product([True, False], repeat=L)]
        if len(masks) > 16:
            masks = [masks[0], masks[-1]] + rng.sample(masks[1:-1], min(len(masks) - 2, 14 if tier == "quick" else 30))
        mps = list(range(0, L + 2)) if a.has_mp else [0]
        for mp in mps:
            for m in masks:
                if a.two:
                    m2s = [masks[0]] + rng.sample(masks, min(len(masks), 3))
                    for m2 in m2s:
                        yield (L, mp, m, m2)
                else:
                    yield (L, mp, m, None)


def run_aggs(v, E, prop, tier, opts):
    only = (opts or {}).get("only")
    rng = random.Random(4242 + seed())
    # translator validation on concrete vectors (incl. the doc examples of agg.rs)
    nval = 0
    vrng = random.Random(99 + seed())
    for a in AGGS:
        if only and not re.search(only, a.name):
            continue
        for _ in range(8 if tier == "quick" else 25):
            L = vrng.randint(0, 6)
            x = [None if vrng.random() < 0.25 else float(vrng.randint(-6, 9)) for _ in range(L)]
            y = [None if vrng.random() < 0.2 else float(vrng.randint(-5, 7)) for _ in range(L)] if a.two else None
            mp = vrng.randint(0, L + 1)
            mask = [p is not None for p in x]
            mask2 = [p is not None for p in y] if y is not None else None
            try:
                r = E.run_function(a.fn, _args(a, mp), mask, mask2,
                                   numeric=[Fraction(p) if p is not None else None for p in x],
                                   numeric2=[Fraction(p) if p is not None else None for p in y] if y is not None else None)
            except (ExecError, MirError) as e:
                v.inconcl(f"translator validation: cannot execute {a.name}: {e}")
                break
            got = replay.native(a.native, 1, mp, x, y)
            if isinstance(got, tuple):
                if not any(ob.cond.is_const and ob.cond.val for ob in r.obligations):
                    v.inconcl(f"translator validation: native {a.name} panics ({got[1][:80]}) but the encoding does not, x={x} mp={mp}")
                continue
            out = r.ret.items[a.pick] if a.pick is not None else r.ret
            enc = replay.vf_to_float(out)
            if not replay.close(enc, got[0], 1e-7):
                v.inconcl(f"translator validation: encoding and native code disagree for {a.name} x={x} y={y} mp={mp}: "
                          f"encoding {enc}, native {got[0]}")
                break
            nval += 1
    log(f"[{prop}] translator validation (aggregations): {nval} concrete vectors agree")
    for a in AGGS:
        if only and not re.search(only, a.name):
            continue
        t0 = time.time()
        q = n = 0
        reported = False
        unknown = 0
        v.functions.add(a.fn)
        try:
            for (L, mp, mask, mask2) in shapes(a, tier, rng):
                if reported:
                    break
                qq, fails, unk = check_one(E, a, L, mp, mask, mask2)
                q += qq
                n += 1
                unknown += len(unk)
                if unk and unknown <= 2:
                    v.inconcl(f"{a.name}: solver returned unknown for L={L} mp={mp} mask={mask}: {unk[:2]}")
                for kind, msg, model in fails:
                    key = f"{a.name}::{msg}"
                    if v.is_known(key):
                        v.note_known(key)
                        continue
                    from .family import to_floats
                    x = to_floats(model, "x", mask)
                    y = to_floats(model, "y", mask2) if mask2 is not None else None
                    got = replay.native(a.native, 1, mp, x, y)
                    case = {"property": prop, "aggregate": a.name, "min_periods": mp, "x": x, "y": y, "solver_message": msg}
                    name = f"{a.name}_L{L}_mp{mp}_" + "".join("1" if m else "0" for m in mask)
                    if isinstance(got, tuple):
                        case["native"] = "PANIC " + got[1]
                        path = replay.save_case(prop, name, case)
                        v.failure(key, path, f"native {a.native}({x}, mp={mp}) panics: {got[1][:120]}")
                        reported = True
                        break
                    acc = expected_numeric(E, a, x, y, mp)
                    case["native"] = None if math.isnan(got[0]) else got[0]
                    case["definition"] = [None if math.isnan(t) else t for t in acc]
                    path = replay.save_case(prop, name, case)
                    if not any(replay.close(got[0], t) for t in acc):
                        v.failure(key, path, f"native {a.native}(x={x}" + (f", y={y}" if y else "") + f", mp={mp}) = {got[0]}, definition gives {acc}")
                    else:
                        v.inconcl(f"{a.name}: solver counterexample x={x} mp={mp} does not reproduce natively; case {path}")
                    reported = True
                    break
        except (ExecError, MirError) as e:
            v.inconcl(f"{a.name}: cannot encode ({e})")
        v.evaluations += q
        if q and not reported and not unknown:
            v.nontrivial += 1
        v.harness_table.append({"aggregate": a.name, "fn": a.fn, "shapes": n, "queries": q, "unknown": unknown,
                                "wall_s": round(time.time() - t0, 2)})
        log(f"  [M] {a.name}: shapes={n} queries={q} unknown={unknown} {time.time() - t0:.1f}s" + (" FAIL" if reported else ""))


def replay_case_file(E, prop, path):
    import json
    c = json.load(open(path))
    a = BY_NAME[c["aggregate"]]
    got = replay.native(a.native, 1, c["min_periods"], c["x"], c["y"])
    if isinstance(got, tuple):
        log(f"REPRODUCED {path}: native run panics: {got[1]}")
        return 1
    acc = expected_numeric(E, a, c["x"], c["y"], c["min_periods"])
    if not any(replay.close(got[0], t) for t in acc):
        log(f"REPRODUCED {path}: native={got[0]} definition={acc}")
        return 1
    log(f"passes {path}")
    return 0
