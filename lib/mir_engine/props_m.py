"""Engine-M parts of the properties that are decided by both engines (C03, C05, C06, C08, C11)."""
import itertools
import random
import re
import time

from common import log, seed
from . import smt, family, kernels, aggs
from . import Engine, ExecError, value_differs
from .mirparse import MirError
from .values import *
from .exec import _DIVERGE

FEATURES = [p + s for p in ("ts_v", "ts_") for s in ("sum", "mean", "ewm", "wma", "std", "var", "skew", "kurt")]
BINARY = ["ts_vcov", "ts_vcorr", "ts_vreg", "ts_vtsf", "ts_vreg_slope", "ts_vreg_intercept", "ts_vreg_resid_mean",
          "ts_vregx_alpha", "ts_vregx_beta", "ts_vregx_all_alpha", "ts_vregx_all_beta", "ts_vregx_all_sse", "ts_vregx_resid_mean"]
FLOAT_KERNELS = FEATURES + ["ts_vzscore"] + BINARY


def engine_stats(v, E, n=None):
    v.solver_time += E.solver.time
    v.engines["mir2smt"] = {"rustc": "nightly -Zunpretty=mir", "solver": "z3 4.8.12 (z3 -in, push/pop)", "mir_dump_s": round(E.dump_s, 1),
                            "functions_parsed": len(E.fns), "queries": E.solver.queries, "answers": E.solver.stats,
                            "exec_s": round(E.exec_s, 1), "normalised_value_queries": E.norm_stats, "translator_vectors": n}


def _pairs(k, masks, rng, cap):
    if not k.two:
        return [(m, None) for m in masks]
    pairs = [(a, b) for a in masks for b in masks]
    if len(pairs) > cap:
        pairs = [(masks[0], masks[0])] + rng.sample(pairs, min(len(pairs), cap - 1))
    return pairs


# ---- C03: z-score -----------------------------------------------------------------------------
def c03_m(v, tier, opts):
    E = Engine(["tea-rolling"])
    try:
        def shapes(k, tier_):
            rng = random.Random(31 + seed())
            for L in ([1, 4, 5] if tier_ == "quick" else [1, 2, 3, 4, 5, 6]):
                for w in range(1, L + 3):
                    if w > 5:
                        continue
                    for mp in ([None, 0, 1, 2, w] if tier_ == "quick" else [None] + list(range(0, w + 1))):
                        if mp is not None and mp > w:
                            continue
                        for m in kernels.masks_for(L, True, tier_, rng):
                            yield (L, w, mp, m, None)
        n = family.validate_translator(v, E, ["ts_vzscore"], {"ts_vzscore": [([1.0, 2.0, 3.0, 4.0, 5.0], None, 3, 2)]}, nrand=10)
        family.run_family(v, E, "C03", ["ts_vzscore"], tier, shapes, opts)
    finally:
        engine_stats(v, E, locals().get("n"))
        E.close()


# ---- C05: null mask of the float kernels ------------------------------------------------------
def c05_m(v, tier, opts):
    """null exactly when the (pairwise-complete) valid count is below max(min(mp or w/2, w), k) — or the statistic is
    undefined; flags only (the value law is C01/C04)."""
    E = Engine(["tea-rolling", "tea-core"])
    try:
        def shapes(k, tier_):
            rng = random.Random(57 + seed() + len(k.name))
            for L in ([0, 1, 2, 4] if tier_ == "quick" else [0, 1, 2, 3, 4, 5]):
                for w in range(k.min_w, L + 3):
                    mps = [None] + list(range(0, w + 1))
                    for mp in mps:
                        masks = kernels.masks_for(L, k.null_aware, tier_, rng)
                        for a, b in _pairs(k, masks, rng, 12 if tier_ == "quick" else 60):
                            yield (L, w, mp, a, b)
        family.run_family(v, E, "C05", FLOAT_KERNELS, tier, shapes, opts, flags_only=True)
    finally:
        engine_stats(v, E)
        E.close()


# ---- C06: window locality of the float kernels ------------------------------------------------
def c06_m(v, tier, opts):
    """Positions i >= w (there is pre-window history): the output equals the from-scratch statistic of the window, which does not
    mention x[0..i-w]; unsat for every history means replacing the pre-window history cannot change the output (exact arithmetic).
    The executor also fails any kernel that reads an element beyond its current position (look-ahead obligation)."""
    E = Engine(["tea-rolling", "tea-core"])
    try:
        def shapes(k, tier_):
            rng = random.Random(91 + seed() + len(k.name))
            heavy = k.name.endswith(("skew", "kurt", "vcorr", "all_sse"))
            for w in ([1, 2, 3] if tier_ == "quick" else [1, 2, 3, 4]):
                if w < k.min_w:
                    continue
                for extra in ([2, 3] if tier_ == "quick" else [1, 2, 3, 4]):
                    L = w + extra
                    if heavy and L > 6:
                        continue
                    for mp in (0, 1, w):
                        masks = kernels.masks_for(L, k.null_aware, tier_, rng)
                        if len(masks) > 10:
                            masks = [masks[0]] + rng.sample(masks[1:], min(len(masks) - 1, 9 if tier_ == "quick" else 25))
                        for a, b in _pairs(k, masks, rng, 10 if tier_ == "quick" else 40):
                            yield (L, w, mp, a, b)
        family.run_family(v, E, "C06", FLOAT_KERNELS, tier, shapes, opts, positions_of=lambda L, w: set(range(w, L)))
    finally:
        engine_stats(v, E)
        E.close()


def _same_vf(a, b):
    return a.num is b.num and a.den is b.den and a.nan is b.nan and a.inf is b.inf


def c06_prefix_m(v, tier, opts):
    """Prefix law, relational: each float kernel entry point is executed from its MIR on a series and on every proper prefix of
    it (same symbols, same window, same explicit or omitted min_periods); output i of the prefix run must be output i of the full
    run. This covers what the driver-protocol argument leaves open: the entry point's own preamble (window / min_periods
    normalisation) must not depend on the series length. Identical terms need no solver; anything else is a z3 query."""
    from . import replay
    E = Engine(["tea-rolling", "tea-core"])
    only = (opts or {}).get("only")
    try:
        for name in FLOAT_KERNELS:
            if only and not re.search(only, name):
                continue
            k = kernels.KERNELS[name]
            rng = random.Random(606 + seed() + len(name))
            t0 = time.time()
            q = ident = 0
            bad = unknown = False
            v.functions.add(k.fn)
            Ls = [5] if tier == "quick" else [5, 6]
            try:
                for L in Ls:
                    heavy = name.endswith(("skew", "kurt", "vcorr", "all_sse"))
                    for w in ([2, L, L + 2] if tier == "quick" else [1, 2, 4, L, L + 2]):
                        if w < k.min_w or bad:
                            continue
                        for mp in ([None, 1, L - 1, L, L + 1] if tier == "quick" else [None, 1, 2, L - 1, L, L + 1, L + 3]):
                            if bad:
                                break
                            masks = [[True] * L]
                            if k.null_aware:
                                m2 = [rng.random() < 0.7 for _ in range(L)]
                                masks.append(m2)
                            for mask in masks:
                                mask2 = ([True] * L if not k.null_aware else [rng.random() < 0.8 for _ in range(L)]) if k.two else None
                                full = E.run_kernel(k.fn, w, mp, mask, mask2, pre_assume=kernels.guard_pre(k, L, w, mask, mask2))
                                if full.outputs is None or len(full.outputs) != L:
                                    continue            # reported by C02 / C05
                                for C in range(1, L):
                                    if mp is None and C < w:
                                        continue        # omitted min_periods: only for len >= w (statement)
                                    pre = E.run_kernel(k.fn, w, mp, mask[:C], mask2[:C] if mask2 else None, share=full.ex)
                                    if pre.outputs is None or len(pre.outputs) != C:
                                        continue
                                    base = list(full.ex.assumptions)
                                    for i in range(C):
                                        a, b = pre.outputs[i], full.outputs[i]
                                        if a is None or b is None:
                                            continue
                                        if k.pick is not None:
                                            a, b = a.items[k.pick], b.items[k.pick]
                                        if _same_vf(a, b):
                                            ident += 1
                                            continue
                                        for badq, msg in ((smt.ne(a.nan, b.nan), "null flag of a prefix result differs from the result on the whole series"),
                                                          (smt.and_(smt.not_(a.nan), smt.not_(b.nan), value_differs(E, a, b, base, full.ex, E.norm_stats)),
                                                           "value of a prefix result differs from the result on the whole series")):
                                            st, model = E.ask(base + [badq])
                                            q += 1
                                            if st == "unknown":
                                                if not unknown:
                                                    v.inconcl(f"{name}: solver unknown (prefix {C} of {L}, w={w}, mp={mp}, position {i})")
                                                unknown = True
                                            elif st == "sat":
                                                key = f"{name}::prefix::{msg}"
                                                if v.is_known(key):
                                                    v.note_known(key)
                                                    bad = True
                                                    break
                                                x = family.to_floats(model, "x", mask)
                                                y = family.to_floats(model, "y", mask2) if mask2 else None
                                                g_full = replay.native(k.native, w, mp, x, y)
                                                g_pre = replay.native(k.native, w, mp, x[:C], y[:C] if y else None)
                                                path = replay.save_case("C06", f"prefix_{name}_L{L}_C{C}_w{w}_mp{'none' if mp is None else mp}",
                                                                        {"property": "C06", "kind": "prefix", "kernel": name, "native_fn": k.native, "window": w,
                                                                         "min_periods": mp, "x": x, "y": y, "cut": C, "position": i,
                                                                         "native_full": str(g_full), "native_prefix": str(g_pre)})
                                                differs = isinstance(g_full, tuple) != isinstance(g_pre, tuple) or (
                                                    not isinstance(g_full, tuple) and any(
                                                        not (g_pre[j] == g_full[j] or (g_pre[j] != g_pre[j] and g_full[j] != g_full[j])) for j in range(C)))
                                                if differs:
                                                    v.failure(key, path, f"{k.native}(w={w}, mp={mp}) on the first {C} of x={x}" + (f", y={y}" if y else "") +
                                                              f" gives {g_pre}, on the whole series {g_full}")
                                                else:
                                                    v.inconcl(f"{name}: prefix counterexample does not reproduce natively; case {path}")
                                                bad = True
                                                break
                                        if bad:
                                            break
                                    if bad:
                                        break
                                if bad:
                                    break
            except (ExecError, MirError) as e:
                v.inconcl(f"{name}: cannot encode the prefix runs ({e})")
            v.evaluations += q + ident
            if (q + ident) and not bad and not unknown:
                v.nontrivial += 1
            log(f"  [M] prefix {name}: {ident} outputs identical as terms, {q} solver queries, {'FAIL' if bad else 'ok'} ({time.time() - t0:.1f}s)")
    finally:
        engine_stats(v, E)
        E.close()


# ---- C08: null transparency of the moment aggregations (relational) ----------------------------
def c08_m(v, tier, opts):
    """agg(s) vs agg(s with one null inserted at position p): two executions of the real code, asked for any difference."""
    E = Engine(["tea-core", "tea-agg"])
    only = (opts or {}).get("only")
    rng = random.Random(13 + seed())
    try:
        for a in aggs.AGGS:
            if only and not re.search(only, a.name):
                continue
            t0 = time.time()
            q = n = 0
            bad = False
            unknown = 0
            v.functions.add(a.fn)
            try:
                for L in ([1, 2, 3, 4] if tier == "quick" else [1, 2, 3, 4, 5]):
                    masks = [list(m) for m in itertools.product([True, False], repeat=L)]
                    if len(masks) > 8:
                        masks = [masks[0]] + rng.sample(masks[1:], min(len(masks) - 1, 7 if tier == "quick" else 15))
                    for mask in masks:
                        for mp in ([0, 2, L] if a.has_mp else [0]):
                            for p in range(L + 1):
                                if bad:
                                    break
                                mask2 = list(mask) if a.two else None
                                r1 = E.run_function(a.fn, aggs._args(a, mp), mask, mask2)
                                # second series: same symbols for the valid elements, a null spliced in at p
                                imask = mask[:p] + [False] + mask[p:]
                                imask2 = (mask2[:p] + [True] + mask2[p:]) if a.two else None

                                def mk(series, r1=r1, p=p):
                                    xs = list(r1.series["self"])
                                    args = [VSeq(xs[:p] + [VF.NaN()] + xs[p:])]
                                    if a.two:
                                        ys = list(r1.series["other"])
                                        args.append(VSeq(ys[:p] + [VF(smt.var("ypad"))] + ys[p:]))
                                    if a.has_mp:
                                        args.append(VInt(mp))
                                    return args
                                r2 = E.run_function(a.fn, mk, [], None, share=r1.ex)
                                o1, o2 = r1.ret, r2.ret
                                if a.pick is not None:
                                    o1, o2 = o1.items[a.pick], o2.items[a.pick]
                                base = list(r1.ex.assumptions)
                                for badq, msg in ((smt.ne(o1.nan, o2.nan), "inserting a null changes whether the aggregate is null"),
                                                  (smt.and_(smt.not_(o1.nan), smt.not_(o2.nan),
                                                            value_differs(E, o1, o2, base, r1.ex, E.norm_stats)),
                                                   "inserting a null changes the value of the aggregate")):
                                    st, model = E.ask(base + [badq])
                                    q += 1
                                    if st == "unknown":
                                        unknown += 1
                                        if unknown <= 2:
                                            v.inconcl(f"{a.name}: solver unknown (null insertion at {p}, mask {mask}, mp {mp})")
                                    elif st == "sat":
                                        key = f"{a.name}::{msg}"
                                        if v.is_known(key):
                                            v.note_known(key)
                                        else:
                                            from .family import to_floats
                                            from . import replay
                                            x = to_floats(model, "x", mask)
                                            y = to_floats(model, "y", mask2) if a.two else None
                                            x2 = x[:p] + [None] + x[p:]
                                            y2 = (y[:p] + [1.0] + y[p:]) if a.two else None
                                            g1 = replay.native(a.native, 1, mp, x, y)
                                            g2 = replay.native(a.native, 1, mp, x2, y2)
                                            path = replay.save_case("C08", f"{a.name}_L{L}_p{p}", {"property": "C08", "aggregate": a.name, "min_periods": mp,
                                                                                                "x": x, "y": y, "x_with_null": x2, "y_with_null": y2,
                                                                                                "native": str(g1), "native_with_null": str(g2)})
                                            if isinstance(g1, tuple) or isinstance(g2, tuple) or not replay.close(g1[0], g2[0]):
                                                v.failure(key, path, f"{a.native}({x}) = {g1} but with a null inserted at {p}: {g2}")
                                            else:
                                                v.inconcl(f"{a.name}: relational counterexample does not reproduce natively; case {path}")
                                        bad = True
                                        break
                                n += 1
            except (ExecError, MirError) as e:
                v.inconcl(f"{a.name}: cannot encode ({e})")
            v.evaluations += q
            if q and not bad and not unknown:
                v.nontrivial += 1
            v.harness_table.append({"aggregate": a.name, "relation": "null insertion", "pairs": n, "queries": q, "unknown": unknown,
                                    "wall_s": round(time.time() - t0, 2)})
            log(f"  [M] {a.name} null-insertion: pairs={n} queries={q} unknown={unknown} {time.time() - t0:.1f}s" + (" FAIL" if bad else ""))
    finally:
        engine_stats(v, E)
        E.close()


# ---- C11: aggregations -------------------------------------------------------------------------
def c11_m(v, tier, opts):
    E = Engine(["tea-core", "tea-agg"])
    try:
        aggs.run_aggs(v, E, "C11", tier, opts)
    finally:
        engine_stats(v, E)
        E.close()
