"""Run a family of Engine-M kernels over a grid of shapes, replay counterexamples natively, validate
the translator, and fold everything into the Verdict."""
import math
import re
import random
import time
from fractions import Fraction

from common import log, seed
from . import smt, replay, oracles as O
from . import ExecError
from .exec import Executor
from .kernels import KERNELS, check_shape, masks_for, need_count, window_valid
from .values import VF
from .mirparse import MirError


def numeric_ctx(E):
    ex = Executor({}, None, E.consts, [], "f64")
    ex.numeric = True
    return ex


def expected_numeric(E, k, x, y, w, mp, i):
    """Definition evaluated on concrete data (exact rationals, sqrt numerically).
    Returns list of acceptable floats (nan = null); empty list = unconstrained."""
    ctx = numeric_ctx(E)
    L = len(x)
    maskx = [v is not None for v in x]
    if k.two:
        both = [a is not None and b is not None for a, b in zip(x, y)]
        xs = [VF.const(Fraction(v)) if v is not None else VF.NaN() for v in x]
        ys = [VF.const(Fraction(v)) if v is not None else VF.NaN() for v in y]
        wx, wy = window_valid(xs, both, i, w), window_valid(ys, both, i, w)
    else:
        xs = [VF.const(Fraction(v)) if v is not None else VF.NaN() for v in x]
        wx, wy = window_valid(xs, maskx, i, w), None
    n = len(wx)
    if n < need_count(k, w, mp):
        return [float("nan")]
    if k.guard_on is not None:
        g = k.guard_on(wx, wy)
        gv = Fraction(g.f.num.val) / Fraction(g.f.den.val)
        if gv <= Fraction(1, 10 ** 9):
            return []          # regressor (numerically) constant: no claim
    cur = (xs[i] if maskx[i] else None) if k.needs_cur else None
    if k.needs_cur and cur is None:
        return [float("nan")]
    ref = k.oracle(wx, wy, sqrt=ctx.f_sqrt, window=w) if k.two else k.oracle(wx, sqrt=ctx.f_sqrt, window=w, cur=cur)
    if isinstance(ref, str):
        return []
    want = replay.vf_to_float(ref) if ref is not None else float("nan")
    if k.floor_on is not None and ref is not None:
        pv = k.floor_on(wx, wy)
        pvs = pv if isinstance(pv, list) else [pv]
        eps = E.consts["EPS"]
        vals = [Fraction(p.f.num.val) / Fraction(p.f.den.val) for p in pvs]
        fl = float("nan") if k.floor == "null" else float(k.floor)
        if all(vv > eps * (1 + Fraction(1, 10 ** 6)) for vv in vals):
            return [want]
        if any(vv < eps * (1 - Fraction(1, 10 ** 6)) for vv in vals):
            return [fl]
        return [want, fl]
    return [want]


def to_floats(model, prefix, mask):
    out = []
    for j, ok in enumerate(mask):
        if not ok:
            out.append(None)
        else:
            v = model.get(f"{prefix}{j}", Fraction(0)) if model else Fraction(0)
            out.append(float(v))
    return out


def replay_failure(E, prop, k, L, w, mp, mask, mask2, f):
    """-> (reproduced: bool, replay path, detail)"""
    x = to_floats(f["model"], "x", mask)
    y = to_floats(f["model"], "y", mask2) if mask2 is not None else None
    got = replay.native(k.native, w, mp, x, y)
    case = {"property": prop, "kernel": k.name, "native_fn": k.native, "window": w, "min_periods": mp,
            "x": x, "y": y, "position": f["pos"], "kind": f["kind"], "solver_message": f["msg"]}
    name = f"{k.name}_L{L}_w{w}_mp{'none' if mp is None else mp}_" + "".join("1" if m else "0" for m in mask) + \
           ("_" + "".join("1" if m else "0" for m in mask2) if mask2 is not None else "")
    if isinstance(got, tuple):
        case["native"] = "PANIC " + got[1]
        path = replay.save_case(prop, name, case)
        return True, path, f"native run panics: {got[1][:160]}"
    case["native"] = [None if math.isnan(g) else g for g in got]
    if f["kind"] == "panic":
        path = replay.save_case(prop, name, case)
        return False, path, "solver found a panic path but the native run does not panic"
    if f["kind"] == "length" or len(got) != L:
        path = replay.save_case(prop, name, case)
        return len(got) != L, path, f"native output has {len(got)} elements for {L} inputs"
    bad = []
    for i in ([f["pos"]] if f["pos"] is not None else range(L)):
        acc = expected_numeric(E, k, x, y, w, mp, i)
        if acc and not any(replay.close(got[i], a) for a in acc):
            bad.append((i, got[i], acc))
    if not bad:   # look at every position before giving up (the model may blame another output)
        for i in range(L):
            acc = expected_numeric(E, k, x, y, w, mp, i)
            if acc and not any(replay.close(got[i], a) for a in acc):
                bad.append((i, got[i], acc))
    case["mismatches"] = [{"position": i, "native": None if math.isnan(g) else g,
                           "definition": [None if math.isnan(a) else a for a in acc]} for i, g, acc in bad]
    path = replay.save_case(prop, name, case)
    if bad:
        i, g, acc = bad[0]
        return True, path, f"{k.native}(w={w}, mp={mp}) on x={x}" + (f", y={y}" if y else "") + \
            f": position {i} is {g}, definition gives {acc}"
    return False, path, "counterexample does not reproduce natively within tolerance"


def replay_case_file(E, prop, path):
    """./check <prop> --replay <json>: re-run a stored case against the current /repo."""
    import json
    c = json.load(open(path))
    k = KERNELS[c["kernel"]]
    if c.get("kind") == "i32in":        # element-type case: the kernel on a Vec<i32> input
        p = replay._get()
        p.stdin.write(f"i32in {k.native} {c['window']} {c['min_periods']} {','.join(str(t) for t in c['x'])}\n")
        p.stdin.flush()
        got = p.stdout.readline().strip()
        bad = got.startswith("PANIC")
        if not bad:
            vals = [float("nan") if t == "nan" else float(t) for t in got.split()]
            x = [float(t) for t in c["x"]]
            for i in range(len(x)):
                acc = expected_numeric(E, k, x, None, c["window"], c["min_periods"], i)
                if acc and not any(replay.close(vals[i], a_, 1e-6) for a_ in acc):
                    bad = True
        log(("REPRODUCED " if bad else "passes ") + f"{path}: {k.native} on i32 input {c['x']} -> {got[:160]}")
        return 1 if bad else 0
    if c.get("kind") == "prefix":       # C06 relational case: the function on the whole series and on its first `cut` elements
        C = c["cut"]
        full = replay.native(k.native, c["window"], c["min_periods"], c["x"], c["y"])
        pre = replay.native(k.native, c["window"], c["min_periods"], c["x"][:C], c["y"][:C] if c["y"] else None)
        differs = isinstance(full, tuple) != isinstance(pre, tuple) or (not isinstance(full, tuple) and any(
            not (pre[j] == full[j] or (pre[j] != pre[j] and full[j] != full[j])) for j in range(C)))
        log(("REPRODUCED " if differs else "passes ") + f"{path}: first {C} elements give {pre}, whole series gives {full}")
        return 1 if differs else 0
    got = replay.native(k.native, c["window"], c["min_periods"], c["x"], c["y"])
    if isinstance(got, tuple):
        log(f"REPRODUCED {path}: native run panics: {got[1]}")
        return 1
    bad = 0
    for i in range(len(c["x"])):
        acc = expected_numeric(E, k, c["x"], c["y"], c["window"], c["min_periods"], i)
        if acc and not any(replay.close(got[i], a) for a in acc):
            log(f"REPRODUCED {path}: position {i} native={got[i]} definition={acc}")
            bad += 1
    if not bad:
        log(f"passes {path}: native output agrees with the definition at every position")
    return 1 if bad else 0


def validate_translator(v, E, names, vectors=None, nrand=20):
    """Push concrete vectors through the real function (native) and through the encoding evaluated
    on those constants; any disagreement means the translator is wrong: inconclusive, never a verdict."""
    rng = random.Random(1000 + seed())
    checked = 0
    for name in names:
        k = KERNELS[name]
        cases = list((vectors or {}).get(name, []))
        for _ in range(nrand):
            L = rng.randint(1, 6)
            x = [None if (k.null_aware and rng.random() < 0.25) else float(rng.randint(-6, 9)) for _ in range(L)]
            y = ([None if rng.random() < 0.2 else float(rng.randint(-5, 7)) for _ in range(L)] if k.two else None)
            w = rng.randint(k.min_w, L + 2)
            mp = rng.choice([None, 0, 1, 2, w])
            cases.append((x, y, w, mp))
        for (x, y, w, mp) in cases:
            mask = [a is not None for a in x]
            mask2 = [a is not None for a in y] if y is not None else None
            try:
                r = E.run_kernel(k.fn, w, mp, mask, mask2, numeric=[Fraction(a) if a is not None else None for a in x],
                                 numeric2=[Fraction(a) if a is not None else None for a in y] if y is not None else None)
            except ExecError as e:
                v.inconcl(f"translator validation: executor failed on {name}: {e}")
                return checked
            got = replay.native(k.native, w, mp, x, y)
            if isinstance(got, tuple):
                # a native panic must correspond to a failed obligation in the encoding
                hit = any((ob.cond.is_const and ob.cond.val) for ob in r.obligations)
                if not hit:
                    v.inconcl(f"translator validation: native {name} panics ({got[1][:80]}) but the encoding has no failed obligation on x={x} w={w} mp={mp}")
                checked += 1
                continue
            outs = r.outputs
            for i in range(len(x)):
                if outs[i] is None:
                    v.inconcl(f"translator validation: encoding of {name} panics on x={x} y={y} w={w} mp={mp} but the native code returns")
                    return checked
                o = outs[i].items[k.pick] if k.pick is not None else outs[i]
                try:
                    enc = replay.vf_to_float(o)
                except ValueError:
                    v.inconcl(f"translator validation: encoding of {name} not numeric on constants")
                    return checked
                if not replay.close(enc, got[i], 1e-7):
                    v.inconcl(f"translator validation: encoding and native code disagree for {name} x={x} y={y} w={w} mp={mp} "
                              f"pos {i}: encoding {enc}, native {got[i]}")
                    return checked
            checked += 1
    return checked


def run_family(v, E, prop, names, tier, shapes, opts=None, flags_only=False, positions_of=None):
    """shapes(k, tier) -> iterable of (L, w, mp, mask, mask2). Folds results into Verdict v."""
    opts = opts or {}
    only = opts.get("only")
    import re
    for name in names:
        if only and not re.search(only, name):
            continue
        k = KERNELS[name]
        t0 = time.time()
        q = nshapes = 0
        reported = False
        unknown = 0
        v.functions.add(k.fn + " + {closure#0}")
        try:
            for (L, w, mp, mask, mask2) in shapes(k, tier):
                if reported:
                    break          # one reproduced counterexample per kernel is enough; keep the run short
                res = check_shape(E, k, L, w, mp, mask, mask2, flags_only=flags_only,
                                  positions=positions_of(L, w) if positions_of else None)
                q += res.queries
                nshapes += 1
                unknown += len(res.unknown)
                if res.unknown and unknown <= 3:
                    v.inconcl(f"{name}: solver returned unknown for L={L} w={w} mp={mp} mask={mask}: {res.unknown[:2]}")
                if unknown > 3 and not reported:
                    # a kernel the solver cannot decide (each unknown costs the full retry ladder): stop here, the kernel stays inconclusive
                    v.inconcl(f"{name}: {unknown} undecided queries after {nshapes} shapes; remaining shapes skipped")
                    break
                if res.failures and not reported:
                    for f in res.failures:
                        key = f"{name}::{f['msg']}"
                        if v.is_known(key):
                            v.note_known(key)
                            reported = True
                            break
                        ok, path, detail = replay_failure(E, prop, k, L, w, mp, mask, mask2, f)
                        if ok:
                            v.failure(key, path, detail)
                            reported = True
                            break
                        else:
                            v.inconcl(f"{name}: solver counterexample (L={L}, w={w}, mp={mp}, mask={mask}) {detail}; case {path}")
                            reported = True
                            break
        except (ExecError, MirError) as e:
            v.inconcl(f"{name}: cannot encode ({e})")
        v.evaluations += q
        if q and not reported and not unknown:
            v.nontrivial += 1
        dt = time.time() - t0
        v.harness_table.append({"kernel": name, "fn": k.fn, "shapes": nshapes, "queries": q, "unknown": unknown,
                                "wall_s": round(dt, 2)})
        log(f"  [M] {name}: shapes={nshapes} queries={q} unknown={unknown} {dt:.1f}s" + (" FAIL" if reported else ""))


def elem_type_pass(v, E, prop, names, opts=None):
    """Arithmetic in the ELEMENT type. The kernels are generic over the element type and Engine M reads every operation over the
    reals, which is exact for f64 inputs only as long as no operation happens *before* the cast to f64. Any `T x T` operation the
    execution meets is recorded; for the element type i32 (statement: element types f64 / f32 / i32 / i64) z3 is asked for integer
    inputs within the i32 range for which that operation leaves the i32 range (overflow: a panic in a debug build, a wrapped value
    in a release build). A model is replayed natively on a Vec<i32> input against the from-scratch statistic."""
    only = (opts or {}).get("only")
    I32 = 2 ** 31 - 1
    for name in names:
        if only and not re.search(only, name):
            continue
        k = KERNELS[name]
        L, w, mp = 3, 2, 1
        mask = [True] * L
        try:
            r = E.run_kernel(k.fn, w, mp, mask, None)
        except (ExecError, MirError) as e:
            v.inconcl(f"{name}: cannot encode for the element-type pass ({e})")
            continue
        ops = getattr(r.ex, "elem_ops", [])
        v.evaluations += 1
        if not ops:
            v.nontrivial += 1          # no arithmetic before the cast: the real-number reading is exact for every integer element type
            continue
        xs = r.series["self"]
        box = []
        for x in xs:
            box += [smt.le(smt.const(-I32), x.num), smt.le(x.num, smt.const(I32))]
        hit = None
        for pc, op, a, b, callee in ops:
            if not (a.den.is_const and b.den.is_const and a.den.val == 1 and b.den.val == 1):
                continue
            val = {"mul": smt.mul, "add": smt.add, "sub": smt.sub}[op](a.num, b.num)
            st, model = E.ask(box + [pc, smt.or_(smt.gt(val, smt.const(I32)), smt.lt(val, smt.const(-I32 - 1)))])
            v.evaluations += 1
            if st == "sat":
                hit = (op, model, callee)
                break
            if st == "unknown":
                v.inconcl(f"{name}: solver unknown for element-type {op}")
        if hit is None:
            v.nontrivial += 1
            continue
        op, model, callee = hit
        key = f"{name}::arithmetic in the element type ({op}) overflows for i32 input"
        if v.is_known(key):
            v.note_known(key)
            continue
        xi = [int(round(float(model.get(f"x{j}", 0)))) for j in range(L)]
        p = replay._get()
        p.stdin.write(f"i32in {k.native} {w} {mp} {','.join(str(t) for t in xi)}\n")
        p.stdin.flush()
        got = p.stdout.readline().strip()
        x = [float(t) for t in xi]
        bad = None
        if got.startswith("PANIC"):
            bad = f"{k.native}(w={w}, mp={mp}) on the i32 series {xi} panics: {got[6:120]}"
        else:
            vals = [float("nan") if t == "nan" else float(t) for t in got.split()]
            for i in range(L):
                acc = expected_numeric(E, k, x, None, w, mp, i)
                if acc and not any(replay.close(vals[i], a_, 1e-6) for a_ in acc):
                    bad = f"{k.native}(w={w}, mp={mp}) on the i32 series {xi}: position {i} is {vals[i]}, definition gives {acc}"
                    break
        path = replay.save_case(prop, f"elemtype_{name}", {"property": prop, "kind": "i32in", "kernel": name, "native_fn": k.native, "window": w,
                                                          "min_periods": mp, "x": xi, "native": got, "solver_message": f"{op} in the element type ({callee})"})
        if bad:
            v.failure(key, path, bad)
        else:
            v.inconcl(f"{name}: element-type overflow model {xi} does not show natively; case {path}")
