"""Native replay of Engine-M counterexamples and translator validation.

/verif/replay is a small binary linked against the current /repo tree; it runs the real function on
concrete f64 inputs. A counterexample is reported as VIOLATION only if the native result differs
from the definition (evaluated with exact rationals, then rounded) beyond the tolerance of DESIGN 5.1.
"""
import json
import math
import os
import subprocess
from fractions import Fraction

from common import ROOT, WORK, REPLAYS, REPO, ALT, ensure_dir, env, log

BIN_DIR = os.path.join(WORK, "replay-target")
_proc = None


def build():
    cmd = ["cargo", "build", "--offline"]
    crate = os.path.join(ROOT, "replay")
    if ALT:
        import shutil
        alt = os.path.join(ensure_dir(WORK), "replay")
        shutil.rmtree(alt, ignore_errors=True)
        shutil.copytree(crate, alt, ignore=shutil.ignore_patterns("target"))
        t = open(os.path.join(alt, "Cargo.toml")).read().replace('"/repo/', '"' + REPO.rstrip("/") + "/")
        open(os.path.join(alt, "Cargo.toml"), "w").write(t)
        crate = alt
    p = subprocess.run(cmd, cwd=crate, env=env({"CARGO_TARGET_DIR": BIN_DIR}),
                       stdout=subprocess.PIPE, stderr=subprocess.STDOUT, text=True)
    if p.returncode != 0:
        raise RuntimeError("native replay helper does not build against /repo:\n" + p.stdout[-3000:])
    return os.path.join(BIN_DIR, "debug", "tvreplay")


def _get():
    global _proc
    if _proc is None or _proc.poll() is not None:
        exe = build()
        _proc = subprocess.Popen([exe], stdin=subprocess.PIPE, stdout=subprocess.PIPE, text=True, bufsize=1)
    return _proc


def _fmt(xs):
    if not xs:
        return "-"
    return ",".join("nan" if (x is None or (isinstance(x, float) and math.isnan(x))) else repr(float(x)) for x in xs)


def native(fn, w, mp, x, y=None):
    """Run the real function; returns list of floats (nan = null) or ('PANIC', msg)."""
    p = _get()
    line = f"{fn} {w} {'-' if mp is None else mp} {_fmt(x)}"
    if y is not None:
        line += " " + _fmt(y)
    p.stdin.write(line + "\n")
    p.stdin.flush()
    out = p.stdout.readline()
    if not out:
        raise RuntimeError("native replay helper died")
    out = out.strip()
    if out.startswith("PANIC"):
        return ("PANIC", out[5:].strip())
    return [float("nan") if t == "nan" else float(t) for t in out.split()] if out else []


def close(a, b, tol=1e-9):
    if (a is None or math.isnan(a)) and (b is None or math.isnan(b)):
        return True
    if a is None or b is None or math.isnan(a) or math.isnan(b):
        return False
    if math.isinf(a) or math.isinf(b):
        return a == b
    return abs(a - b) <= tol * max(1.0, abs(a), abs(b))


def vf_to_float(v):
    """numeric VF (constant terms) -> float / nan"""
    if v is None:
        return float("nan")
    if not (v.nan.is_const and v.num.is_const and v.den.is_const):
        raise ValueError("non-numeric value in numeric evaluation")
    if v.nan.val:
        return float("nan")
    if v.inf.is_const and v.inf.val:
        return float("inf")
    return float(Fraction(v.num.val) / Fraction(v.den.val))


def save_case(prop, name, case):
    d = ensure_dir(os.path.join(REPLAYS, prop))
    path = os.path.join(d, name + ".json")
    with open(path, "w") as f:
        json.dump(case, f, indent=1)
    return path
