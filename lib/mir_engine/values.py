"""Value domain of the MIR executor.

f64 is modelled as *exact real arithmetic plus explicit NaN / infinity flags*: VF(nan, inf, num, den)
denotes num/den (den != 0) when neither flag holds. This is exactly the abstraction the properties
ask for ("equal ... up to floating-point rounding"); it keeps every query polynomial (division-free).
"""
from fractions import Fraction

from . import smt
from .smt import TRUE, FALSE, R0, R1


class ExecError(Exception):
    """Unsupported construct / modelling gap: the check is inconclusive (exit 2), never a pass."""


class Cell:
    __slots__ = ("v",)

    def __init__(self, v=None):
        self.v = v


class VInt:
    __slots__ = ("t",)

    def __init__(self, t):
        self.t = t if isinstance(t, smt.Term) else smt.const(int(t))

    def conc(self):
        if not self.t.is_const:
            raise ExecError("symbolic integer where a concrete one is required")
        return self.t.val

    def __repr__(self):
        return f"VInt({self.t})"


class VBool:
    __slots__ = ("t",)

    def __init__(self, t):
        self.t = t if isinstance(t, smt.Term) else smt.const(bool(t))

    def __repr__(self):
        return f"VBool({self.t})"


class VF:
    """f64 under the real abstraction. `nan`/`inf` are Bool terms; value = num/den otherwise."""
    __slots__ = ("nan", "inf", "num", "den")

    def __init__(self, num, den=R1, nan=FALSE, inf=FALSE):
        self.num, self.den, self.nan, self.inf = num, den, nan, inf

    @staticmethod
    def const(x):
        return VF(smt.const(Fraction(x)))

    @staticmethod
    def NaN():
        return VF(R0, R1, TRUE, FALSE)

    def __repr__(self):
        return f"VF(nan={self.nan}, {self.num}/{self.den})"


class VTuple:
    __slots__ = ("items",)

    def __init__(self, items):
        self.items = list(items)

    def __repr__(self):
        return f"VTuple({self.items})"


class VStruct:
    __slots__ = ("name", "items", "fnames")

    def __init__(self, name, items, fnames=None):
        self.name, self.items, self.fnames = name, list(items), fnames

    def __repr__(self):
        return f"VStruct({self.name}, {self.items})"


class VOpt:
    """Option<_>: `some` is a Bool term, `val` the payload (None when statically absent)."""
    __slots__ = ("some", "val")

    def __init__(self, some, val):
        self.some = some if isinstance(some, smt.Term) else smt.const(bool(some))
        self.val = val

    def __repr__(self):
        return f"VOpt({self.some}, {self.val})"


class VRef:
    __slots__ = ("cell", "path")

    def __init__(self, cell, path=()):
        self.cell, self.path = cell, tuple(path)

    def __repr__(self):
        return f"VRef(path={self.path})"


class VUnit:
    def __repr__(self):
        return "()"


class VOpaque:
    """Things the kernels never look into: the `self` container handle, output buffers, ZSTs."""
    __slots__ = ("tag", "data")

    def __init__(self, tag, data=None):
        self.tag, self.data = tag, data

    def __repr__(self):
        return f"VOpaque({self.tag})"


class VRange:
    """std::ops::Range / RangeInclusive over concrete usize bounds (loops over them self-unroll)."""
    __slots__ = ("cur", "end", "inclusive", "done")

    def __init__(self, cur, end, inclusive):
        self.cur, self.end, self.inclusive, self.done = cur, end, inclusive, False


class VStr:
    """&str: a concrete-length list of byte codes (Int terms). `bounds` is the set of byte offsets that are character
    boundaries (None: every offset, i.e. ASCII); multi-byte characters are runs of constant bytes between two boundaries."""
    __slots__ = ("bytes", "bounds")

    def __init__(self, bs, bounds=None):
        self.bytes = list(bs)
        self.bounds = None if bounds is None else set(bounds)

    def __repr__(self):
        return f"VStr({self.bytes})"


class VString:
    """owned String (mutated through &mut): list of byte terms."""
    __slots__ = ("bytes",)

    def __init__(self, bs=()):
        self.bytes = list(bs)


class VCharIter:
    """CharIndices over an ASCII &str: concrete position."""
    __slots__ = ("s", "pos")

    def __init__(self, s, pos=0):
        self.s, self.pos = s, pos


class VRes:
    """Result<T, E>: `ok` Bool term, payloads (statically absent ones are None)."""
    __slots__ = ("ok", "val", "err")

    def __init__(self, ok, val=None, err=None):
        self.ok = ok if isinstance(ok, smt.Term) else smt.const(bool(ok))
        self.val, self.err = val, err

    def __repr__(self):
        return f"VRes({self.ok}, {self.val})"


class VEnum:
    """field-less enum value with a concrete discriminant (e.g. TimeUnit)"""
    __slots__ = ("disc",)

    def __init__(self, disc):
        self.disc = disc


class VSeq:
    """A finite lazily-mapped sequence (e.g. `(start..=end).map(closure)`): list of values."""
    __slots__ = ("items",)

    def __init__(self, items):
        self.items = list(items)


# ---- float operations under the real abstraction ----------------------------------------------
def f_add(a, b, sign=1):
    bn = b.num if sign > 0 else smt.neg(b.num)
    if a.den is b.den:
        num, den = smt.add(a.num, bn), a.den
    else:
        num = smt.add(smt.mul(a.num, b.den), smt.mul(bn, a.den))
        den = smt.mul(a.den, b.den)
    # inf + (-inf) would be NaN; infinities are tracked as a poison flag only
    return VF(num, den, smt.or_(a.nan, b.nan), smt.or_(a.inf, b.inf))


def f_sub(a, b):
    return f_add(a, b, -1)


def f_mul(a, b):
    return VF(smt.mul(a.num, b.num), smt.mul(a.den, b.den), smt.or_(a.nan, b.nan), smt.or_(a.inf, b.inf))


def f_neg(a):
    return VF(smt.neg(a.num), a.den, a.nan, a.inf)


def f_is_zero(a):
    return smt.eq(a.num, R0)


def f_cmp(op, a, b):
    """IEEE comparison: false when either side is NaN. Sign-safe for arbitrary non-zero denominators."""
    # a.num/a.den  op  b.num/b.den   <=>   a.num*a.den*b.den^2  op  b.num*b.den*a.den^2
    if a.den is b.den and a.den.is_const and a.den.val > 0:
        l, r = a.num, b.num
    elif a.den.is_const and b.den.is_const and a.den.val > 0 and b.den.val > 0:
        l, r = smt.mul(a.num, b.den), smt.mul(b.num, a.den)
    else:
        l = smt.mul(smt.mul(a.num, a.den), smt.mul(b.den, b.den))
        r = smt.mul(smt.mul(b.num, b.den), smt.mul(a.den, a.den))
    f = {"Lt": smt.lt, "Le": smt.le, "Gt": smt.gt, "Ge": smt.ge, "Eq": smt.eq, "Ne": smt.ne}[op]
    ok = smt.and_(smt.not_(a.nan), smt.not_(b.nan))
    if op == "Ne":
        return smt.or_(smt.not_(ok), f(l, r))
    return smt.and_(ok, f(l, r))


def f_ite(c, a, b):
    return VF(smt.ite(c, a.num, b.num), smt.ite(c, a.den, b.den), smt.ite(c, a.nan, b.nan), smt.ite(c, a.inf, b.inf))


def f_from_int(t):
    return VF(smt.to_real(t))


def f_powi(a, n):
    if n == 0:
        return VF(R1, R1, a.nan, FALSE)      # NaN.powi(0) == 1 in IEEE, but never relied upon; keep nan
    if n < 0:
        raise ExecError("negative powi")
    r = a
    for _ in range(n - 1):
        r = f_mul(r, a)
    return r
