"""Engine K: Kani 0.68 / CBMC over the compiled crates.

The harness crate /verif/kani has path dependencies on /repo/*, so every run re-compiles the
current working tree of /repo (cargo fingerprints) before CBMC decides the harnesses.
"""
import concurrent.futures as cf
import glob
import json
import os
import random
import re
import time

from common import ROOT, WORK, REPLAYS, REPO, ALT, ensure_dir, log, run, seed

KANI_DIR = os.path.join(ROOT, "kani")
if ALT:
    # copy of the harness crate whose path dependencies point at the alternate checkout
    import shutil
    _alt = os.path.join(ensure_dir(WORK), "kani")
    shutil.rmtree(_alt, ignore_errors=True)
    shutil.copytree(KANI_DIR, _alt, ignore=shutil.ignore_patterns("target"))
    _toml = open(os.path.join(_alt, "Cargo.toml")).read().replace('"/repo/', '"' + REPO.rstrip("/") + "/")
    open(os.path.join(_alt, "Cargo.toml"), "w").write(_toml)
    KANI_DIR = _alt
BASE_TARGET = os.path.join(ROOT, ".work", "kani-target")      # pre-built by setup.sh (dependencies only)
PLAYBACK_TARGET = os.path.join(WORK, "kani-playback-target")


def target_dir(prop, tier):
    """One target dir per (property, tier) so that concurrent checks never share build output;
    seeded from the pre-built base (dependencies) when that exists."""
    d = os.path.join(WORK, f"kt-{prop}-{tier}")
    if not os.path.isdir(d) and os.path.isdir(BASE_TARGET):
        import subprocess
        subprocess.call(["cp", "-a", BASE_TARGET, d])
    return d
PLAYBACK_FILE = os.path.join(KANI_DIR, "src", "playback_gen.rs")
PLAYBACK_STUB = "// overwritten by ./check during counterexample replay; intentionally empty.\n"

BASE_FLAGS = ["--no-overflow-checks", "-Z", "stubbing"]

UB_PAT = re.compile(r"dereference failure|pointer|memcpy|memmove|memset|offset|free argument|"
                    r"deallocated|dead object|invalid integer address|out of bounds|double free|"
                    r"same object|misaligned|uninit", re.I)
UNWIND_PAT = re.compile(r"unwinding assertion", re.I)
UNSUPPORTED_PAT = re.compile(r"is not currently supported by Kani|unsupported construct|Function with missing definition"
                             r"|not supported", re.I)


class HarnessResult:
    def __init__(self, name):
        self.name = name
        self.status = "error"   # ok | failed | timeout | oom | error
        self.checks = 0
        self.failed = []        # [(description, location)]
        self.covers = []        # [(description, status)]
        self.time = 0.0
        self.wall = 0.0
        self.log = None
        self.detail = ""

    def short(self):
        return self.name.split("::")[-1]


def _features(prop, tier, extra=()):
    f = [prop.lower()]
    if tier == "thorough":
        f.append("thorough")
    f.extend(extra)
    return ",".join(f)


def list_harnesses(prop, tier):
    """Harness names from the source of the property's module (explicit `#[kani::proof] pub fn cNN_*`).
    Guard: every `#[kani::proof]` attribute must be matched to a name, otherwise the listing is refused."""
    mod = prop.lower()
    files = sorted(glob.glob(os.path.join(KANI_DIR, "src", mod + ".rs")) + glob.glob(os.path.join(KANI_DIR, "src", mod + "_*.rs")))
    names, proofs = [], 0
    for path in files:
        proof = thorough = False
        for line in open(path):
            t = line.strip()
            if not t or t.startswith("//"):
                continue
            if t.startswith("#["):
                if t.startswith("#[kani::proof"):
                    proof = True
                    proofs += 1
                if 'feature = "thorough"' in t:
                    thorough = True
                continue
            m = re.match(r"pub fn (%s_\w+)\s*\(" % mod, t)
            if m and proof:
                if tier == "thorough" or not thorough:
                    names.append(f"{mod}::{m.group(1)}")
                else:
                    pass
                proof = False
                thorough = False
                continue
            if proof and not t.startswith("#"):
                return None, f"{path}: #[kani::proof] not followed by `pub fn {mod}_...` ({t[:60]})"
            thorough = False
    if not names:
        return None, "no harnesses found"
    if len(set(names)) != len(names):
        return None, "duplicate harness names"
    return sorted(names), ""


def codegen(prop, tier):
    """List the harnesses and make sure /repo + harness crate compile under kani-compiler (one harness is
    code-generated as a probe, which also builds the dependencies before the parallel runs start)."""
    ensure_dir(WORK)
    if not os.path.exists(PLAYBACK_FILE):
        with open(PLAYBACK_FILE, "w") as f:
            f.write(PLAYBACK_STUB)
    t0 = time.time()
    names, err = list_harnesses(prop, tier)
    if names is None:
        # macro-generated harness names: fall back to a full code generation and read Kani's own metadata
        return codegen_full(prop, tier, t0)
    cmd = ["cargo", "kani", "--target-dir", target_dir(prop, tier), "--features", _features(prop, tier)] + BASE_FLAGS + \
          ["--only-codegen", "--harness", names[0], "--exact"]
    rc, out = run(cmd, cwd=KANI_DIR, timeout=1800, log_path=os.path.join(WORK, f"{prop}-codegen.log"))
    if rc != 0:
        return None, out[-6000:], time.time() - t0
    return names, "", time.time() - t0


def codegen_full(prop, tier, t0):
    TARGET = target_dir(prop, tier)
    cmd = ["cargo", "kani", "--target-dir", TARGET, "--features", _features(prop, tier)] + BASE_FLAGS + ["--only-codegen"]
    rc, out = run(cmd, cwd=KANI_DIR, timeout=1800, log_path=os.path.join(WORK, f"{prop}-codegen.log"))
    if rc != 0:
        return None, out[-6000:], time.time() - t0
    metas = glob.glob(os.path.join(TARGET, "kani", "*", "debug", "build", "tvk", "*", "out", "*.kani-metadata.json"))
    best, names = None, []
    for mpath in metas:
        try:
            md = json.load(open(mpath))
        except Exception:
            continue
        hs = sorted(h["pretty_name"] for h in md["proof_harnesses"])
        # per-harness runs leave single-harness metadata behind: the full build is the largest listing
        if len(hs) > len(names) or (len(hs) == len(names) and best and os.path.getmtime(mpath) > os.path.getmtime(best)):
            best, names = mpath, hs
    if not names:
        return None, "no kani metadata produced", time.time() - t0
    return names, "", time.time() - t0


# the description is usually one line; an assert!/panic! whose message is not a literal (concat!(..), format args) is printed as its
# token stream over several lines
CHECK_RE = re.compile(r"^Check \d+: (.+)\n\t - Status: (\w+)\n\t - Description: \"((?:.|\n)*?)\"\n(?:\t - Location: (.*)\n)?(?=\n|Check |\Z)", re.M)


def parse_log(res, out, rc):
    res.checks = 0
    for m in CHECK_RE.finditer(out):
        cname, status, desc, loc = m.group(1), m.group(2), m.group(3), m.group(4) or ""
        desc = " ".join(desc.strip('"').split())
        if ".cover." in cname:
            res.covers.append((desc, status))
            continue
        res.checks += 1
        if status not in ("SUCCESS", "UNREACHABLE"):
            fn = ""
            mm = re.search(r"in function (.*)$", loc)
            if mm:
                fn = mm.group(1)
            res.failed.append((desc, fn, status))
    m = re.search(r"Verification Time: ([0-9.]+)s", out)
    if m:
        res.time = float(m.group(1))
    if rc is None:
        res.status = "timeout"
    elif "VERIFICATION:- SUCCESSFUL" in out:
        res.status = "ok"
    elif re.search(r"Solver ran out of memory|std::bad_alloc", out) or (
            res.failed and all(st == "ERROR" for _, _, st in res.failed)):
        # the back end gave up (every undecided check is reported with Status: ERROR): never a verdict
        res.status = "oom"
        res.detail = "the SAT back end ran out of memory (all undecided checks have Status: ERROR)"
        res.failed = []
    elif "VERIFICATION:- FAILED" in out and res.failed:
        res.status = "failed"
    elif re.search(r"std::bad_alloc|out of memory|Status: ERROR|Killed|SIGKILL|memory exhausted|SIGABRT|CBMC failed with status", out, re.I):
        res.status = "oom"
        res.detail = "cbmc ran out of memory / aborted"
    elif "VERIFICATION:- FAILED" in out:
        # failed without failed checks listed: unsupported feature reached, or cbmc crash
        res.status = "error"
        res.detail = "FAILED without failed checks (cbmc error or unsupported construct)"
    else:
        res.status = "error"
        res.detail = (out[-1500:])


def run_harness(prop, tier, name, timeout_s, mem_gb, solver=None):
    res = HarnessResult(name)
    logdir = ensure_dir(os.path.join(WORK, "logs", prop))
    res.log = os.path.join(logdir, name.replace("::", "__") + ".log")
    cmd = ["cargo", "kani", "--target-dir", target_dir(prop, tier), "--features", _features(prop, tier)] + BASE_FLAGS + \
          ["--harness", name, "--exact"]
    if solver:
        cmd += ["--solver", solver]
    t0 = time.time()
    rc, out = run(cmd, cwd=KANI_DIR, timeout=timeout_s, log_path=res.log, mem_kb=mem_gb * 1024 * 1024)
    res.wall = time.time() - t0
    parse_log(res, out, rc)
    return res


def run_pool(prop, tier, names, timeout_s, mem_gb, jobs):
    order = list(names)
    random.Random(seed()).shuffle(order)
    results = {}
    with cf.ThreadPoolExecutor(max_workers=jobs) as ex:
        futs = {ex.submit(run_harness, prop, tier, n, timeout_s, mem_gb): n for n in order}
        for fu in cf.as_completed(futs):
            r = fu.result()
            results[r.name] = r
            flag = {"ok": "ok", "failed": "FAILED", "timeout": "TIMEOUT", "oom": "OOM", "error": "ERROR"}[r.status]
            log(f"  [{flag:7}] {r.name} checks={r.checks} cbmc={r.time:.1f}s wall={r.wall:.1f}s"
                + ("" if r.status == "ok" else f" failed={[f[0] for f in r.failed][:4]}"))
    return [results[n] for n in names]


TEST_BLOCK = re.compile(r"```\n(.*?)```", re.S)


def playback(prop, tier, name, timeout_s, mem_gb):
    """Ask Kani for concrete values of the counterexamples, run them natively against /repo.

    Returns (replay_path, [(test_name, panicked, message)]) or (None, reason)."""
    cmd = ["cargo", "kani", "--target-dir", target_dir(prop, tier), "--features", _features(prop, tier)] + BASE_FLAGS + \
          ["--harness", name, "--exact", "-Z", "concrete-playback", "--concrete-playback=print"]
    rc, out = run(cmd, cwd=KANI_DIR, timeout=timeout_s, mem_kb=mem_gb * 1024 * 1024)
    tests, seen = [], set()
    for t in TEST_BLOCK.findall(out):
        m = re.search(r"fn (kani_concrete_playback_\w+)\(", t)
        if m and m.group(1) not in seen:
            seen.add(m.group(1))
            tests.append(t)
    if not tests:
        return None, "kani produced no concrete playback test"
    module = name.split("::")[0]
    body = f"// counterexamples for harness {name} (property {prop}); replay: ./check {prop} --replay <this file>\n" \
           f"// features: {_features(prop, tier)}\n" \
           f"#![allow(unused_imports)]\nuse crate::{module}::*;\n\n" + "\n".join(tests)
    d = ensure_dir(os.path.join(REPLAYS, prop))
    path = os.path.join(d, name.replace("::", "__") + ".rs")
    with open(path, "w") as f:
        f.write(body)
    return path, run_playback_file(path, _features(prop, tier, ("playback",)))


def run_playback_file(path, features, release=False, timeout_s=900):
    import fcntl
    body = open(path).read()
    ensure_dir(WORK)
    lock = open(os.path.join(WORK, "playback.lock"), "w")
    fcntl.flock(lock, fcntl.LOCK_EX)      # playback_gen.rs is one file: serialise replays
    with open(PLAYBACK_FILE, "w") as f:
        f.write(body)
    try:
        cmd = ["cargo", "kani", "playback", "-Z", "concrete-playback", "--features", features]
        cmd += ["--", "kani_concrete_playback", "--test-threads", "1"]
        rc, out = run(cmd, cwd=KANI_DIR, timeout=timeout_s,
                      extra_env={"CARGO_TARGET_DIR": PLAYBACK_TARGET, "RUST_BACKTRACE": "0"},
                      log_path=os.path.join(WORK, "playback.log"))
    finally:
        with open(PLAYBACK_FILE, "w") as f:
            f.write(PLAYBACK_STUB)
        fcntl.flock(lock, fcntl.LOCK_UN)
        lock.close()
    if rc is None:
        return [("<all>", True, "native replay did not terminate within %ds" % timeout_s)]
    res = []
    for m in re.finditer(r"^test (\S+) \.\.\. (ok|FAILED)", out, re.M):
        tname, st = m.group(1), m.group(2)
        msg = ""
        if st == "FAILED":
            mm = re.search(r"---- %s stdout ----\n(.*?)(?:\n\n----|\nfailures:)" % re.escape(tname), out, re.S)
            if mm:
                msg = mm.group(1)
                pm = re.search(r"panicked at ([^\n]*):\n(.*)", msg, re.S)
                if pm:
                    msg = pm.group(2).strip().split("\nnote:")[0].strip() + " @ " + pm.group(1)
        res.append((tname.split("::")[-1], st == "FAILED", msg))
    if not res:
        if re.search(r"SIGSEGV|SIGABRT|signal: \d+", out):
            return [("<all>", True, "native replay crashed: " + out[-300:])]
        return [("<all>", False, "could not parse native replay output: " + out[-800:])]
    return res


def decide(v, prop, tier, opts):
    """Run all harnesses of `prop` under Kani and fold the results into Verdict `v`.

    opts: quick/thorough timeouts, jobs, unwind_is_violation, name filter.
    """
    t0 = time.time()
    names, err, cg_s = codegen(prop, tier)
    if names is None:
        v.inconcl("kani codegen failed (harness crate or /repo does not compile under kani): " + err[-1500:])
        return
    flt = opts.get("only")
    if flt:
        names = [n for n in names if re.search(flt, n)]
    if not names:
        v.inconcl("no harnesses selected")
        return
    timeout_s = opts.get("timeout_s", 600 if tier == "quick" else 2400)
    mem_gb = opts.get("mem_gb", 12)
    jobs = opts.get("jobs", 14)
    log(f"[{prop}] engine K: {len(names)} harnesses, codegen {cg_s:.0f}s, timeout {timeout_s}s/harness, {jobs} jobs")
    results = run_pool(prop, tier, names, timeout_s, mem_gb, jobs)
    v.engines["kani"] = {"version": "kani 0.68.0 / cbmc 6.11.0 / cadical", "harnesses": len(results),
                         "codegen_s": round(cg_s, 1), "flags": BASE_FLAGS,
                         "per_harness_timeout_s": timeout_s, "mem_limit_gb": mem_gb}
    v.stubs.add("std::fmt::format -> empty String (only in harnesses that carry #[kani::stub])")
    need_replay = []
    for r in results:
        v.solver_time += r.time
        row = {"harness": r.name, "status": r.status, "checks": r.checks, "cbmc_s": round(r.time, 2),
               "covers": {d: s for d, s in r.covers}}
        v.harness_table.append(row)
        if r.status in ("timeout", "oom", "error"):
            v.inconcl(f"harness {r.name}: {r.status} {r.detail[:300]} (log {r.log})")
            continue
        v.evaluations += r.checks
        bad_cov = [d for d, s in r.covers if s != "SATISFIED"]
        if r.status == "ok":
            if bad_cov:
                v.inconcl(f"harness {r.name}: vacuity witness not reached: {bad_cov}")
            else:
                v.nontrivial += 1
            continue
        # failed
        unknown = []
        allowed = opts.get("allowed_failures") or []
        n_allowed = 0
        for desc, fn, st in r.failed:
            key = f"{r.short()}::{desc} @ {fn}"
            if any(re.search(hp, r.short()) and re.search(dp, desc) for hp, dp in allowed):
                # a clean, documented panic that the property accepts on this input (e.g. window 0)
                n_allowed += 1
                continue
            if UNWIND_PAT.search(desc) and not opts.get("unwind_is_violation"):
                v.inconcl(f"harness {r.name}: unwinding bound too small ({desc})")
                continue
            if st == "UNDETERMINED":
                # consequence of another failing check (e.g. unwinding); not a verdict
                continue
            if v.is_known(key):
                v.note_known(key)
            else:
                unknown.append((desc, fn, key))
        if unknown:
            need_replay.append((r, unknown))
        elif not bad_cov:
            v.nontrivial += 1
        if n_allowed:
            row["accepted_clean_panics"] = n_allowed
    # native replay of everything not explained by the known-findings file
    replay_cap = opts.get("replay_cap", 3)
    for r, unknown in need_replay:
        if len(v.violations) >= replay_cap:
            # enough reproduced violations to fail the check; the remaining failing harnesses are listed, not replayed
            log(f"UNREPLAYED-FAILURE property={prop} harness={r.name} failed checks={[u[0] for u in unknown][:3]} "
                f"(decided by CBMC; native replay skipped after {replay_cap} reproduced violations; log {r.log})")
            continue
        path, tests = playback(prop, tier, r.name, timeout_s, mem_gb)
        if path is None:
            ub = [u for u in unknown if UB_PAT.search(u[0])]
            v.inconcl(f"harness {r.name}: failed checks {[u[0] for u in unknown]} but {tests}")
            continue
        panics = [(t, msg) for t, p, msg in tests if p]
        for desc, fn, key in unknown:
            hit = [(t, msg) for t, msg in panics if desc and desc.split(" with ")[0][:40] in msg]
            if hit:
                v.failure(key, path, f"native replay {hit[0][0]} panicked: {hit[0][1][:200]}")
            elif UNWIND_PAT.search(desc):
                v.failure(key, path, "loop exceeds the termination bound derived for this harness")
            elif UB_PAT.search(desc) and not re.search(r"index out of bounds: the length", desc):
                v.failure(key, path, "memory-safety counterexample (undefined behaviour is not observable by a "
                                     "native run; concrete inputs are in the replay file)")
            else:
                # a native panic with a different message still demonstrates a real failure of the harness
                other = [(t, msg) for t, msg in panics
                         if not v.is_known(f"{r.short()}::{msg}")]
                if other:
                    v.failure(key, path, f"native replay {other[0][0]} panicked: {other[0][1][:200]}")
                else:
                    v.inconcl(f"harness {r.name}: counterexample for '{desc}' did not reproduce natively "
                              f"(encoding suspect); replay file {path}")
    v.samples.extend({"harness": r.name, "status": r.status, "checks": r.checks,
                      "covers_reached": [d for d, s in r.covers if s == "SATISFIED"]} for r in results[:12])
