//! C02 — rolling drivers call back once per position with exactly the right window.
//!
//! Every driver is run with a *recording, stateful* callback that checks, at call number c:
//!   * c < len (never more calls than positions), calls arrive in increasing order,
//!   * the new element(s) are x[c] (and y[c]),
//!   * the removed element(s) / start index are x[c+1-w] / c+1-w when c >= w-1, and "nothing" when
//!     c < min(w,len)-1 (the slot c = len-1 with w > len is unspecified, DESIGN 5.7),
//!   * slice forms receive exactly x[max(0,c+1-w)..=c],
//! and returns c; afterwards the number of calls is len, the output has length len and out[i] == i.
//! Contents of x (and y) and the window w in 1..=N+3 are symbolic; N is concrete per harness.
use std::collections::VecDeque;
use std::mem::MaybeUninit;
use std::sync::Arc;

use ndarray::{Array1, ArrayView1, s};
use tea_core::prelude::*;

use crate::util::*;

pub trait Elem: Copy + PartialEq + kani::Arbitrary + Default {}
impl<T: Copy + PartialEq + kani::Arbitrary + Default> Elem for T {}

pub struct Rec<T: Elem, const N: usize> {
    pub x: [T; N],
    pub y: [T; N],
    pub w: usize,
    pub c: usize,
    pub saw_warm: bool,
    pub saw_steady: bool,
    pub saw_full: bool,
}

impl<T: Elem, const N: usize> Rec<T, N> {
    pub fn new() -> Self {
        let w: usize = kani::any();
        kani::assume(w >= 1 && w <= N + 3);
        Rec { x: kani::any(), y: kani::any(), w, c: 0, saw_warm: false, saw_steady: false, saw_full: false }
    }

    fn step(&mut self) -> usize {
        let c = self.c;
        assert!(c < N, "callback invoked more often than there are positions");
        self.c += 1;
        c
    }

    fn check_removed<R: PartialEq>(&mut self, c: usize, rm: Option<R>, want: R) {
        if c + 1 >= self.w {
            self.saw_steady = true;
            assert!(rm == Some(want), "removed element/index is the window start i-w+1");
        } else if c + 1 < umin(self.w, N) {
            self.saw_warm = true;
            assert!(rm.is_none(), "nothing to remove during warm-up");
        }
    }

    /// index of the window start, saturated during warm-up (then unused)
    fn st(&self, c: usize) -> usize {
        if c + 1 >= self.w { c + 1 - self.w } else { 0 }
    }

    pub fn on_apply(&mut self, rm: Option<T>, v: T) -> usize {
        let c = self.step();
        assert!(v == self.x[c], "new element is x[i]");
        let i = self.st(c);
        if N > 0 { let want = self.x[i]; self.check_removed(c, rm, want); }
        c
    }

    pub fn on_apply2(&mut self, rm: Option<(T, T)>, v: (T, T)) -> usize {
        let c = self.step();
        assert!(v == (self.x[c], self.y[c]), "new elements are (x[i], y[i])");
        let i = self.st(c);
        if N > 0 { let want = (self.x[i], self.y[i]); self.check_removed(c, rm, want); }
        c
    }

    pub fn on_idx(&mut self, start: Option<usize>, end: usize, v: T) -> usize {
        let c = self.step();
        assert!(end == c, "end index is the position");
        assert!(v == self.x[c], "new element is x[i]");
        let i = self.st(c);
        self.check_removed(c, start, i);
        c
    }

    pub fn on_idx2(&mut self, start: Option<usize>, end: usize, v: (T, T)) -> usize {
        let c = self.step();
        assert!(end == c, "end index is the position");
        assert!(v == (self.x[c], self.y[c]), "new elements are (x[i], y[i])");
        let i = self.st(c);
        self.check_removed(c, start, i);
        c
    }

    fn check_window<W: Win<T>>(&mut self, c: usize, s: &W, second: bool) {
        let want = umin(c + 1, self.w);
        assert!(s.wlen() == want, "window slice has min(i+1, w) elements");
        let mut j = 0;
        while j < want {
            let src = if second { self.y[c + 1 - want + j] } else { self.x[c + 1 - want + j] };
            assert!(s.wget(j) == src, "window slice is x[max(0,i-w+1)..=i]");
            j += 1;
        }
        if want == self.w && c + 1 > self.w {
            self.saw_full = true;
        }
    }

    pub fn on_slice<W: Win<T>>(&mut self, s: W) -> usize {
        let c = self.step();
        self.check_window(c, &s, false);
        c
    }

    pub fn on_slice2<W: Win<T>, W2: Win<T>>(&mut self, s: W, t: W2) -> usize {
        let c = self.step();
        self.check_window(c, &s, false);
        self.check_window(c, &t, true);
        c
    }

    pub fn done(&mut self, out: &[usize]) {
        assert!(self.c == N, "callback invoked exactly once per position");
        assert!(out.len() == N, "output as long as the input");
        let mut i = 0;
        while i < N {
            assert!(out[i] == i, "result of call i stored at position i");
            i += 1;
        }
        self.c = 0;
    }
}

// --- one generic body per driver; V is the input backend, O = Vec<usize> unless stated ---------

pub fn drv_apply<T: Elem, V: Vec1View<T> + ?Sized, const N: usize>(v: &V, r: &mut Rec<T, N>) {
    let w = r.w;
    let out: Vec<usize> = v.rolling_apply(w, |rm, x| r.on_apply(rm, x), None).unwrap();
    r.done(&out[..]);
    let mut buf = <Vec<usize> as Vec1<usize>>::uninit(N);
    let none = v.rolling_apply::<Vec<usize>, _, _>(w, |rm, x| r.on_apply(rm, x), Some(Vec::uninit_ref_mut(&mut buf)));
    assert!(none.is_none());
    let out: Vec<usize> = unsafe { buf.assume_init() };
    r.done(&out[..]);
}

pub fn drv_apply_idx<T: Elem, V: Vec1View<T> + ?Sized, const N: usize>(v: &V, r: &mut Rec<T, N>) {
    let w = r.w;
    let out: Vec<usize> = v.rolling_apply_idx(w, |s, e, x| r.on_idx(s, e, x), None).unwrap();
    r.done(&out[..]);
    let mut buf = <Vec<usize> as Vec1<usize>>::uninit(N);
    v.rolling_apply_idx::<Vec<usize>, _, _>(w, |s, e, x| r.on_idx(s, e, x), Some(Vec::uninit_ref_mut(&mut buf)));
    let out: Vec<usize> = unsafe { buf.assume_init() };
    r.done(&out[..]);
}

pub fn drv_apply2<T: Elem, V: Vec1View<T> + ?Sized, V2: Vec1View<T>, const N: usize>(v: &V, v2: &V2, r: &mut Rec<T, N>) {
    let w = r.w;
    let out: Vec<usize> = v.rolling2_apply(v2, w, |rm, x| r.on_apply2(rm, x), None).unwrap();
    r.done(&out[..]);
    let mut buf = <Vec<usize> as Vec1<usize>>::uninit(N);
    v.rolling2_apply::<Vec<usize>, _, _, _, _>(v2, w, |rm, x| r.on_apply2(rm, x), Some(Vec::uninit_ref_mut(&mut buf)));
    let out: Vec<usize> = unsafe { buf.assume_init() };
    r.done(&out[..]);
}

pub fn drv_apply2_idx<T: Elem, V: Vec1View<T> + ?Sized, V2: Vec1View<T>, const N: usize>(v: &V, v2: &V2, r: &mut Rec<T, N>) {
    let w = r.w;
    let out: Vec<usize> = v.rolling2_apply_idx(v2, w, |s, e, x| r.on_idx2(s, e, x), None).unwrap();
    r.done(&out[..]);
    let mut buf = <Vec<usize> as Vec1<usize>>::uninit(N);
    v.rolling2_apply_idx::<Vec<usize>, _, _, _, _>(v2, w, |s, e, x| r.on_idx2(s, e, x), Some(Vec::uninit_ref_mut(&mut buf)));
    let out: Vec<usize> = unsafe { buf.assume_init() };
    r.done(&out[..]);
}

// The slice forms are expanded per backend by macro (the slice type is a GAT of the backend);
// one variant per harness because slicing a VecDeque / ndarray view is expensive for CBMC.
macro_rules! drv_custom_ret {
    ($v:expr, $r:expr, $N:expr) => {{
        let w = $r.w;
        let out: Vec<usize> = $v.rolling_custom(w, |s| $r.on_slice(s), None).unwrap();
        $r.done(&out[..]);
    }};
}
macro_rules! drv_custom_to {
    ($v:expr, $r:expr, $N:expr) => {{
        let w = $r.w;
        let mut buf = <Vec<usize> as Vec1<usize>>::uninit($N);
        $v.rolling_custom::<Vec<usize>, _, _>(w, |s| $r.on_slice(s), Some(Vec::uninit_ref_mut(&mut buf)));
        let out: Vec<usize> = unsafe { buf.assume_init() };
        $r.done(&out[..]);
    }};
}
macro_rules! drv_custom_iter {
    ($v:expr, $r:expr, $N:expr) => {{
        let w = $r.w;
        let out: Vec<usize> = $v.rolling_custom_iter(w, |s| $r.on_slice(s)).collect_trusted_to_vec();
        $r.done(&out[..]);
    }};
}
macro_rules! drv_custom2_ret {
    ($v:expr, $v2:expr, $r:expr, $N:expr) => {{
        let w = $r.w;
        let out: Vec<usize> = $v.rolling2_custom($v2, w, |s, t| $r.on_slice2(s, t), None).unwrap();
        $r.done(&out[..]);
    }};
}
macro_rules! drv_custom2_to {
    ($v:expr, $v2:expr, $r:expr, $N:expr) => {{
        let w = $r.w;
        let mut buf = <Vec<usize> as Vec1<usize>>::uninit($N);
        $v.rolling2_custom::<Vec<usize>, _, _, _, _>($v2, w, |s, t| $r.on_slice2(s, t), Some(Vec::uninit_ref_mut(&mut buf)));
        let out: Vec<usize> = unsafe { buf.assume_init() };
        $r.done(&out[..]);
    }};
}

/// caller-supplied ndarray out views that are not in standard layout (reversed: step -1; strided: step 2): the drivers write
/// result i to slot i of the VIEW — output order is part of the protocol (added after seeded change C02-m5)
pub fn out_view_order<const N: usize>(rev: bool) {
    let xs: [i32; N] = kani::any();
    let v: Vec<i32> = xs.to_vec();
    let w: usize = kani::any();
    kani::assume(w >= 1 && w <= N + 2);
    let ret: Vec<(Option<i32>, i32)> = v.rolling_apply(w, |rm, x| (rm, x), None).unwrap();
    let m = if rev { N } else { 2 * N };
    let mut big: Array1<MaybeUninit<(Option<i32>, i32)>> = Array1::from_elem(m, MaybeUninit::new((None, -77)));
    {
        let view = if rev { big.slice_mut(s![..;-1]) } else { big.slice_mut(s![..;2]) };
        let r = v.rolling_apply::<Array1<(Option<i32>, i32)>, _, _>(w, |rm, x| (rm, x), Some(view));
        assert!(r.is_none(), "rolling_apply with an out buffer returns nothing");
    }
    let mut i = 0;
    while i < N {
        let slot = if rev { N - 1 - i } else { 2 * i };
        let got = unsafe { big[slot].assume_init() };
        assert!(got == ret[i], "out view: slot i of the caller's view holds the result of position i");
        i += 1;
    }
    kani::cover!(w < N, "window shorter than the series");
}

#[kani::proof]
#[kani::stub(std::fmt::format, crate::util::fmt_stub)]
#[kani::unwind(10)]
pub fn c02_out_view_reversed_n2() {
    out_view_order::<2>(true);
}

#[kani::proof]
#[kani::stub(std::fmt::format, crate::util::fmt_stub)]
#[kani::unwind(10)]
pub fn c02_out_view_strided_n2() {
    out_view_order::<2>(false);
}

include!("c02_gen.rs");
