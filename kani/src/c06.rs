//! C06 — rolling and lagging results never depend on later (or pre-window) data. Engine K part (exact).
//!
//! (a) `c06_lag_*`  PREFIX STABILITY OF LAGS. `MapBasic::shift`, `MapValidBasic::vshift`, `MapValidVec::vdiff`,
//!     `MapValidVec::vpct_change` with a symbolic lag `n in 0..=N+2`: the iterator is evaluated on the whole
//!     series `x` (concrete length N, symbolic contents) and on every proper prefix `x[..cut]`, cut = 1..=N-1
//!     (concrete, unrolled; cut = 0 compares nothing and cut = N is the same input twice); the first `cut` items
//!     must be identical — integers / options by `==`, floats by `to_bits`
//!     (two NaNs are accepted as the same null). The prefix iterator must also yield at least `cut` items.
//!     Element types: i32 (explicit fill value, `i32::none()` does not exist), Option<i32>, f64 built from small
//!     integers with symbolic NaN (`vpct_change` performs one division and one subtraction per item; both runs
//!     evaluate the same expression on the same operands).
//!       * `shift` is restricted to `n <= cut` (and hence `n <= N`): `MapBasic::shift` with n > len underflows
//!         `len - n_abs`; that defect is owned by C09/C13 and excluded here by `assume`.
//!       * `vdiff` with an EXPLICIT fill value is isolated in `c06_lag_vdiff_fill_*`: for len > n the first n items
//!         are `x[i] - fill`, for len <= n they are `fill` — a prefix of length <= n disagrees with the whole series.
//!         The main `vdiff` harnesses use the default fill (f64: NaN) or, for i32 (which needs an explicit fill),
//!         only cuts > n.
//!
//! (b) `c06_pre_*`  PREFIX STABILITY OF THE EXACT ROLLING KERNELS. `ts_vsum` on Option<i32> (accumulates in i32),
//!     `ts_vmin/vmax/vargmin/vargmax/vrank`, `ts_vminmaxnorm` on Option<i32>: same two-run scheme, every cut,
//!     `w in 1..=N+2`, explicit `min_periods in 0..=w` always, omitted `min_periods` only when the prefix length
//!     is >= w for the extrema/rank family (DESIGN 5.3: they derive the default from min(len, w)); outputs `Vec<f64>`
//!     compared by bits (NaN == NaN). Cuts 1..=N-1: cut = N is the same input twice, cut = 0 compares nothing
//!     (and empty input is C05's subject: `ts_vrank` panics on it).
//!
//! (c) `c06_loc_*`  WINDOW LOCALITY, exact: for `ts_vmin/vmax/vargmin/vargmax/vrank` and a symbolic position
//!     `i >= w-1`, two series that agree on positions `i-w+1..` (the window and everything after it) and differ
//!     arbitrarily before give the same `out[i]` (bits).
use tea_core::prelude::*;
use tea_map::{MapBasic, MapValidBasic, MapValidVec};
use tea_rolling::*;

use crate::util::*;

// ---------------------------------------------------------------------------------------------
// equality used for "bit-for-bit"
// ---------------------------------------------------------------------------------------------

pub trait Same: Copy {
    fn same(self, o: Self) -> bool;
    fn null(self) -> bool;
}
impl Same for i32 {
    fn same(self, o: Self) -> bool {
        self == o
    }
    fn null(self) -> bool {
        false
    }
}
impl Same for Option<i32> {
    fn same(self, o: Self) -> bool {
        self == o
    }
    fn null(self) -> bool {
        self.is_none()
    }
}
impl Same for f64 {
    fn same(self, o: Self) -> bool {
        self.to_bits() == o.to_bits() || (self.is_nan() && o.is_nan())
    }
    fn null(self) -> bool {
        self.is_nan()
    }
}

// ---------------------------------------------------------------------------------------------
// (a) lags
// ---------------------------------------------------------------------------------------------

/// lag in 0..=N+2
pub fn lag<const N: usize>() -> i32 {
    let n: i32 = kani::any();
    kani::assume(n >= 0 && n <= N as i32 + 2);
    n
}

/// f64 series of small integers with symbolic NaN
pub fn f64_series<const N: usize>() -> [f64; N] {
    let mut a = [0.0f64; N];
    let mut i = 0;
    while i < N {
        a[i] = small_f64_or_nan(-2, 2);
        i += 1;
    }
    a
}

/// i32 series bounded so that differences cannot overflow
pub fn i32_series<const N: usize>() -> [i32; N] {
    let a: [i32; N] = kani::any();
    let mut i = 0;
    while i < N {
        kani::assume(a[i] >= -(1 << 29) && a[i] <= (1 << 29));
        i += 1;
    }
    a
}

/// small integers (pct_change: one f64 division per item, decidable on a small alphabet)
pub fn small_i32_series<const N: usize>() -> [i32; N] {
    let mut a = [0i32; N];
    let mut i = 0;
    while i < N {
        a[i] = small_i32(-2, 2);
        i += 1;
    }
    a
}

pub fn small_opt_series<const N: usize>() -> [Option<i32>; N] {
    let a: [Option<i32>; N] = kani::any();
    let mut i = 0;
    while i < N {
        if let Some(v) = a[i] {
            kani::assume(v >= -2 && v <= 2);
        }
        i += 1;
    }
    a
}

/// all N items of the iterator over the whole series
pub fn take_all<'a, U: Same, const N: usize>(mut it: Box<dyn TrustedLen<Item = U> + 'a>, dflt: U) -> [U; N] {
    let mut a = [dflt; N];
    let mut i = 0;
    while i < N {
        match it.next() {
            Some(v) => a[i] = v,
            None => assert!(false, "lag over the whole series yields N items"),
        }
        i += 1;
    }
    a
}

#[derive(Clone, Copy, Default)]
pub struct LagCov {
    /// an item that really is a lagged element (position >= n) was compared
    pub lagged: bool,
    /// an item inside the fill region (position < n) was compared
    pub filled: bool,
    /// a prefix not longer than the lag was compared with a whole series longer than the lag
    pub short_prefix: bool,
}

/// the first `cut` items over the prefix equal the first `cut` items over the whole series
pub fn same_prefix<'a, U: Same, const N: usize>(
    mut it: Box<dyn TrustedLen<Item = U> + 'a>,
    cut: usize,
    n: i32,
    whole: &[U; N],
    c: &mut LagCov,
) {
    let mut i = 0;
    while i < cut {
        match it.next() {
            Some(v) => {
                if (i as i32) < n {
                    c.filled = true;
                } else {
                    c.lagged = true;
                }
                assert!(v.same(whole[i]), "lag: item i over the prefix is bit-for-bit item i over the whole series");
            },
            None => assert!(false, "lag over a prefix of length cut yields cut items"),
        }
        i += 1;
    }
    if cut > 0 && n as usize >= cut && (n as usize) < N {
        c.short_prefix = true;
    }
}

// ---------------------------------------------------------------------------------------------
// (b), (c) rolling kernels
// ---------------------------------------------------------------------------------------------

#[derive(Clone, Copy, PartialEq)]
pub enum Kern {
    Sum,
    Min,
    Max,
    ArgMin,
    ArgMax,
    /// rank with the given `pct` flag (one f64 division per output when true); `rev` stays symbolic
    Rank(bool),
    MinMaxNorm,
}

impl Kern {
    /// the extrema/rank family derives an omitted min_periods from min(len, w)
    pub fn omitted_needs_full(self) -> bool {
        !matches!(self, Kern::Sum | Kern::MinMaxNorm)
    }
}

#[derive(Clone, Copy)]
pub struct Par {
    pub w: usize,
    pub mp: Option<usize>,
    pub rev: bool,
}

pub fn params<const N: usize>() -> Par {
    let w: usize = kani::any();
    kani::assume(w >= 1 && w <= N + 2);
    let explicit: bool = kani::any();
    let m: usize = kani::any();
    kani::assume(m <= w);
    Par { w, mp: if explicit { Some(m) } else { None }, rev: kani::any() }
}

/// Option<i32> series: alphabet 0..=2 with any null mask (ties), or i16-range values for the sum
pub fn opt_series<const N: usize>(k: Kern) -> [Option<i32>; N] {
    let a: [Option<i32>; N] = kani::any();
    let mut i = 0;
    while i < N {
        if let Some(v) = a[i] {
            if k == Kern::Sum {
                kani::assume(v >= -32768 && v <= 32767);
            } else {
                kani::assume(v >= 0 && v <= 2);
            }
        }
        i += 1;
    }
    a
}

pub fn run(k: Kern, v: &Vec<Option<i32>>, p: &Par) -> Vec<f64> {
    match k {
        Kern::Sum => v.ts_vsum(p.w, p.mp),
        Kern::Min => v.ts_vmin(p.w, p.mp),
        Kern::Max => v.ts_vmax(p.w, p.mp),
        Kern::ArgMin => v.ts_vargmin(p.w, p.mp),
        Kern::ArgMax => v.ts_vargmax(p.w, p.mp),
        Kern::Rank(pct) => v.ts_vrank(p.w, p.mp, pct, p.rev),
        Kern::MinMaxNorm => v.ts_vminmaxnorm(p.w, p.mp),
    }
}

#[derive(Clone, Copy, Default)]
pub struct RollCov {
    pub null_cmp: bool,
    pub val_cmp: bool,
    /// compared a position of a prefix shorter than the window
    pub short: bool,
    /// compared a position whose window has lost its first element (i >= w)
    pub steady: bool,
    pub omitted: bool,
}

/// outputs over the prefix `x[..cut]` equal the first `cut` outputs over the whole series
pub fn same_rolling_prefix<const N: usize>(k: Kern, x: &[Option<i32>; N], cut: usize, p: &Par, whole: &Vec<f64>, c: &mut RollCov) {
    // omitted min_periods: extrema/rank family only for prefix length >= w (DESIGN 5.3)
    if p.mp.is_none() && k.omitted_needs_full() && cut < p.w {
        return;
    }
    let pre: Vec<Option<i32>> = x[..cut].to_vec();
    let out = run(k, &pre, p);
    assert!(out.len() == cut, "rolling: one output per element of the prefix");
    let mut i = 0;
    while i < cut {
        assert!(out[i].same(whole[i]), "rolling: output i over the prefix is bit-for-bit output i over the whole series");
        if out[i].is_nan() {
            c.null_cmp = true;
        } else {
            c.val_cmp = true;
        }
        if i >= p.w {
            c.steady = true;
        }
        i += 1;
    }
    if cut > 0 && cut < p.w && cut < N {
        c.short = true;
    }
    if p.mp.is_none() && cut > 0 {
        c.omitted = true;
    }
}

#[derive(Clone, Copy, Default)]
pub struct LocCov {
    pub differs_before: bool,
    pub null_cmp: bool,
    pub val_cmp: bool,
}

/// window locality at a symbolic position i >= w-1
pub fn locality<const N: usize>(k: Kern) -> LocCov {
    let x = opt_series::<N>(k);
    let y = opt_series::<N>(k);
    let p = params::<N>();
    let i: usize = kani::any();
    kani::assume(i < N && i + 1 >= p.w);
    let mut c = LocCov::default();
    let mut j = 0;
    while j < N {
        if j + p.w > i {
            // the window of position i and everything after it
            kani::assume(x[j] == y[j]);
        } else if x[j] != y[j] {
            c.differs_before = true;
        }
        j += 1;
    }
    let vx = x.to_vec();
    let vy = y.to_vec();
    let ox = run(k, &vx, &p);
    let oy = run(k, &vy, &p);
    assert!(ox.len() == N && oy.len() == N, "rolling: one output per element");
    // read position i without a symbolic index
    let mut j = 0;
    while j < N {
        if j == i {
            assert!(ox[j].same(oy[j]), "rolling: output i does not depend on elements before the window start i-w+1");
            if ox[j].is_nan() {
                c.null_cmp = true;
            } else {
                c.val_cmp = true;
            }
        }
        j += 1;
    }
    c
}

include!("c06_gen.rs");
