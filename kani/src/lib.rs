//! Kani proof harnesses over the real tevec code (path dependencies on /repo).
//! One module per property, each behind a cargo feature so that only the
//! harnesses of the property being checked are code-generated.
#![allow(dead_code, unused_imports, clippy::all)]

#[cfg(kani)]
pub mod util;

#[cfg(all(kani, feature = "c02"))]
pub mod c02;

#[cfg(all(kani, feature = "c16"))]
pub mod c16;

#[cfg(all(kani, feature = "playback"))]
mod playback_gen;
