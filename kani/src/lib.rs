//! Kani proof harnesses over the real tevec code (path dependencies on /repo).
//! One module per property, each behind a cargo feature so that only the
//! harnesses of the property being checked are code-generated.
#![allow(dead_code, unused_imports, clippy::all)]

#[cfg(kani)]
pub mod util;

#[cfg(all(kani, feature = "c01"))]
pub mod c01;

#[cfg(all(kani, feature = "c02"))]
pub mod c02;

#[cfg(all(kani, feature = "c03"))]
pub mod c03;

#[cfg(all(kani, feature = "c05"))]
pub mod c05;

#[cfg(all(kani, feature = "c06"))]
pub mod c06;

#[cfg(all(kani, feature = "c07"))]
pub mod c07;

#[cfg(all(kani, feature = "c08"))]
pub mod c08;

#[cfg(all(kani, feature = "c09"))]
pub mod c09;

#[cfg(all(kani, feature = "c10"))]
pub mod c10;

#[cfg(all(kani, feature = "c11"))]
pub mod c11;

#[cfg(all(kani, feature = "c12"))]
pub mod c12;

#[cfg(all(kani, feature = "c13"))]
pub mod c13;

#[cfg(all(kani, feature = "c14"))]
pub mod c14;

#[cfg(all(kani, feature = "c15"))]
pub mod c15;

#[cfg(all(kani, feature = "c16"))]
pub mod c16;

#[cfg(all(kani, feature = "c17"))]
pub mod c17;

#[cfg(all(kani, feature = "c19"))]
pub mod c19;

#[cfg(all(kani, feature = "c20"))]
pub mod c20;

#[cfg(all(kani, feature = "playback"))]
mod playback_gen;
