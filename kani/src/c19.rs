//! C19 — generators and collectors build exactly the requested sequence.
//!
//! Families (all lengths concrete, all values symbolic):
//!   * `c19_range_*`     `Vec1Create::range` for i32 / i64 / usize / f64: as many elements as there are progression
//!                       terms `start + k*step` strictly before `end` in the direction of the step, element k is
//!                       `start + k*step`. "forward" = `end` lies in the direction of the step (or start == end),
//!                       "backward" = `end` lies behind `start` (the progression is empty).
//!   * `c19_linspace_*`  `Vec1Create::linspace`, n = 0..=5 concrete: n elements, first == start, element i ==
//!                       start + step*i with step = (end-start)/(n-1) (the element type's own division: for integer
//!                       element types that is the truncated quotient, so the last element is `end` only when n-1
//!                       divides the span — the repository's own test expects linspace(1,4,3) == [1,2,3] for usize);
//!                       for f64 the last element equals `end` within 1e-9 relative.
//!   * `c19_full_empty_*` `Vec1::full(len, v)`, len = 0..=5, and `Vec1::empty()` for Vec, VecDeque, Array1.
//!   * `c19_collect_*`   the six collectors into Vec / VecDeque / Array1 from sources of length 0..=4; fallible
//!                       sources carry an error at every position of a symbolic mask; the error that comes back
//!                       must be the one of the first masked position (`TError::IdxOut { idx, .. }` discriminates).
//!   * `c19_write_*`     `WriteTrustIter::write` / `write_trust_iter` into a logging buffer (counts writes per
//!                       slot) and into the real uninitialised buffers of Vec / VecDeque / Array1.
use std::collections::VecDeque;

use ndarray::Array1;
use tea_core::prelude::*;

use crate::util::*;

// ---------------------------------------------------------------------------------------------
// uniform read access to the three owning containers
// ---------------------------------------------------------------------------------------------
pub trait Out<T: Copy> {
    fn olen(&self) -> usize;
    fn oget(&self, i: usize) -> T;
}
impl<T: Copy> Out<T> for Vec<T> {
    fn olen(&self) -> usize {
        self.len()
    }
    fn oget(&self, i: usize) -> T {
        self[i]
    }
}
impl<T: Copy> Out<T> for VecDeque<T> {
    fn olen(&self) -> usize {
        self.len()
    }
    fn oget(&self, i: usize) -> T {
        self[i]
    }
}
impl<T: Copy> Out<T> for Array1<T> {
    fn olen(&self) -> usize {
        self.len()
    }
    fn oget(&self, i: usize) -> T {
        self[i]
    }
}

// ---------------------------------------------------------------------------------------------
// range
// ---------------------------------------------------------------------------------------------

/// largest number of elements a quick-tier range harness lets the progression have
#[cfg(not(feature = "thorough"))]
pub const RANGE_CAP: i64 = 6;
#[cfg(feature = "thorough")]
pub const RANGE_CAP: i64 = 41;

/// number of terms a + k*s (k = 0, 1, ...) lying strictly before b in the direction of s; plain loop.
pub fn terms_before(a: i64, b: i64, s: i64) -> usize {
    let mut want = 0usize;
    let mut x = a;
    while (s > 0 && x < b) || (s < 0 && x > b) {
        want += 1;
        x += s;
    }
    want
}

/// integer element types; the mode selects the region: `fwd_signed` / `fwd_unsigned` = end in the direction
/// of the step (or equal to start), `bwd` = end behind start (the progression is empty).
macro_rules! range_int {
    (@covers fwd_signed $want:ident $span:ident $si:ident $mag:ident $smag:ident) => {
        kani::cover!($want >= 2 && $span % $si != 0, "span not divisible by the step");
        kani::cover!($want >= 2 && $span % $si == 0, "span divisible by the step");
        kani::cover!($want == 0, "empty span (start == end)");
        kani::cover!($si < 0 && $want >= 2, "negative step");
    };
    (@covers fwd_unsigned $want:ident $span:ident $si:ident $mag:ident $smag:ident) => {
        kani::cover!($want >= 2 && $span % $si != 0, "span not divisible by the step");
        kani::cover!($want >= 2 && $span % $si == 0, "span divisible by the step");
        kani::cover!($want == 0, "empty span (start == end)");
    };
    (@covers bwd $want:ident $span:ident $si:ident $mag:ident $smag:ident) => {
        kani::cover!($mag >= $smag, "end at least one step behind start");
        kani::cover!($mag < $smag, "end less than one step behind start");
    };
    (@fwd fwd_signed) => { true };
    (@fwd fwd_unsigned) => { true };
    (@fwd bwd) => { false };
    ($name:ident, $t:ty, $lo:expr, $mode:ident) => {
        #[kani::proof]
        #[kani::stub(std::fmt::format, crate::util::fmt_stub)]
        #[cfg_attr(not(feature = "thorough"), kani::unwind(9))]
        #[cfg_attr(feature = "thorough", kani::unwind(44))]
        pub fn $name() {
            const FWD: bool = range_int!(@fwd $mode);
            let (a, b, s): ($t, $t, $t) = (kani::any(), kani::any(), kani::any());
            kani::assume(a >= $lo && a <= 20 && b >= $lo && b <= 20 && s >= $lo && s <= 20 && s != 0);
            let (ai, bi, si) = (a as i64, b as i64, s as i64);
            let span = bi - ai;
            let forward = span == 0 || ((span > 0) == (si > 0));
            kani::assume(forward == FWD);
            let mag = if span < 0 { -span } else { span };
            let smag = if si < 0 { -si } else { si };
            kani::assume(mag <= RANGE_CAP * smag);
            let want = terms_before(ai, bi, si);
            let v: Vec<$t> = Vec1Create::range(Some(a), b, Some(s));
            if FWD {
                assert!(v.len() == want, "range: as many elements as progression terms strictly before end");
            } else {
                assert!(want == 0, "oracle: a backward span has no progression term");
                assert!(v.len() == 0, "range: empty when end lies behind start in the direction of the step");
            }
            let mut k = 0usize;
            while k < v.len() && k < want {
                assert!(v[k] as i64 == ai + (k as i64) * si, "range: element k is start + k*step");
                k += 1;
            }
            range_int!(@covers $mode want span si mag smag);
        }
    };
}

range_int!(c19_range_i32_forward, i32, -20, fwd_signed);
range_int!(c19_range_i32_backward, i32, -20, bwd);
range_int!(c19_range_i64_forward, i64, -20, fwd_signed);
range_int!(c19_range_i64_backward, i64, -20, bwd);
range_int!(c19_range_usize_forward, usize, 0, fwd_unsigned);
range_int!(c19_range_usize_backward, usize, 0, bwd);

/// `start` omitted (defaults to zero) and `step` omitted (defaults to one)
#[kani::proof]
#[kani::stub(std::fmt::format, crate::util::fmt_stub)]
#[kani::unwind(9)]
pub fn c19_range_defaults_i32() {
    let b: i32 = kani::any();
    kani::assume(b >= 0 && b <= 6);
    let v: Vec<i32> = Vec1Create::range(None, b, None);
    assert!(v.len() == b as usize, "range(None, end, None): end elements");
    let mut k = 0usize;
    while k < v.len() {
        assert!(v[k] == k as i32, "range(None, end, None): element k is k");
        k += 1;
    }
    kani::cover!(b == 6, "six elements");
    kani::cover!(b == 0, "no element");
}

/// f64 with small-integer start/end and step in {±0.5, ±1, ±1.5, ±2}; both regions in one harness (the
/// float-to-usize cast saturates at 0, so a backward span is expected to give the empty vector).
fn range_f64_law(opt_elem: bool, cap: i64) {
    let (a, b) = (small_i32(-20, 20), small_i32(-20, 20));
    let h: i32 = kani::any(); // step in half units
    kani::assume(h >= -4 && h <= 4 && h != 0);
    let step = (h as f64) * 0.5;
    let (a2, b2, s2) = (2 * a as i64, 2 * b as i64, h as i64);
    let span = b2 - a2;
    let mag = if span < 0 { -span } else { span };
    let smag = if s2 < 0 { -s2 } else { s2 };
    kani::assume(mag <= cap * smag);
    let want = terms_before(a2, b2, s2);
    let (af, bf) = (a as f64, b as f64);
    if opt_elem {
        let v: Vec<Option<f64>> = Vec1Create::range(Some(af), bf, Some(step));
        assert!(v.len() == want, "range<Option<f64>>: as many elements as progression terms strictly before end");
        let mut k = 0usize;
        while k < v.len() && k < want {
            assert!(v[k] == Some(af + step * (k as f64)), "range<Option<f64>>: element k is Some(start + k*step)");
            k += 1;
        }
    } else {
        let v: Vec<f64> = Vec1Create::range(Some(af), bf, Some(step));
        assert!(v.len() == want, "range<f64>: as many elements as progression terms strictly before end");
        let mut k = 0usize;
        while k < v.len() && k < want {
            assert!(v[k] == af + step * (k as f64), "range<f64>: element k is start + k*step");
            // the progression is exact in f64 for these inputs: compare against the integer oracle too
            assert!(v[k] * 2.0 == (a2 + (k as i64) * s2) as f64, "range<f64>: element k equals the exact progression term");
            k += 1;
        }
    }
    let forward = span == 0 || ((span > 0) == (s2 > 0));
    kani::cover!(forward && want >= 2 && span % s2 != 0, "span not divisible by the step");
    kani::cover!(forward && want >= 2 && span % s2 == 0, "span divisible by the step");
    kani::cover!(forward && s2 < 0 && want >= 2, "negative step");
    kani::cover!(!forward && mag >= smag, "end at least one step behind start: empty");
    kani::cover!(span == 0, "start == end: empty");
}

#[kani::proof]
#[kani::stub(std::fmt::format, crate::util::fmt_stub)]
#[cfg_attr(not(feature = "thorough"), kani::unwind(9))]
#[cfg_attr(feature = "thorough", kani::unwind(44))]
pub fn c19_range_f64() {
    range_f64_law(false, RANGE_CAP)
}

#[cfg(feature = "thorough")]
#[kani::proof]
#[kani::stub(std::fmt::format, crate::util::fmt_stub)]
#[kani::unwind(16)]
pub fn c19_range_opt_f64() {
    // Option<f64> elements: 41 terms ran the SAT back end out of memory (12 GB); 13 terms is the stated bound
    range_f64_law(true, 13)
}

// ---------------------------------------------------------------------------------------------
// linspace
// ---------------------------------------------------------------------------------------------

fn linspace_f64_law<const N: usize>() -> bool {
    let (a, b) = (small_i32(-20, 20), small_i32(-20, 20));
    let (af, bf) = (a as f64, b as f64);
    let v: Vec<f64> = Vec1Create::linspace(Some(af), bf, N);
    assert!(v.len() == N, "linspace<f64>: n elements");
    if N >= 1 {
        assert!(v[0] == af, "linspace<f64>: first element is start");
    }
    let step = if N > 1 { (bf - af) / ((N - 1) as f64) } else { 0.0 };
    let mut i = 0usize;
    while i < N {
        assert!(v[i] == af + step * (i as f64), "linspace<f64>: element i is start + i*step (constant step)");
        i += 1;
    }
    if N >= 2 {
        let last = v[N - 1];
        let d = if last > bf { last - bf } else { bf - last };
        let m = if bf < 0.0 { -bf } else { bf };
        let scale = if m > 1.0 { m } else { 1.0 };
        assert!(d <= 1e-9 * scale, "linspace<f64>: last element is end up to rounding");
        // increasing endpoints give a non-decreasing sequence
        if a < b {
            assert!(v[0] < v[N - 1], "linspace<f64>: increasing endpoints, increasing sequence");
        }
    }
    a > b
}

macro_rules! linspace_f64 {
    ($($name:ident: $n:expr),* $(,)?) => {$(
        #[kani::proof]
        #[kani::stub(std::fmt::format, crate::util::fmt_stub)]
        #[kani::unwind(8)]
        pub fn $name() {
            let dec = linspace_f64_law::<$n>();
            kani::cover!(dec, "decreasing endpoints");
            kani::cover!(!dec, "non-decreasing endpoints");
        }
    )*};
}
linspace_f64!(c19_linspace_f64_n2: 2, c19_linspace_f64_n3: 3, c19_linspace_f64_n4: 4, c19_linspace_f64_n5: 5);

#[kani::proof]
#[kani::stub(std::fmt::format, crate::util::fmt_stub)]
#[kani::unwind(4)]
pub fn c19_linspace_f64_n0_n1() {
    linspace_f64_law::<0>();
    let dec = linspace_f64_law::<1>();
    kani::cover!(dec, "decreasing endpoints");
}

/// `start` omitted defaults to zero (also into the Option element type)
#[kani::proof]
#[kani::stub(std::fmt::format, crate::util::fmt_stub)]
#[kani::unwind(8)]
pub fn c19_linspace_default_start_opt_f64_n3() {
    let b = small_i32(-20, 20);
    let bf = b as f64;
    let v: Vec<Option<f64>> = Vec1Create::linspace(None, bf, 3);
    assert!(v.len() == 3, "linspace(None, end, 3): three elements");
    assert!(v[0] == Some(0.0), "linspace(None, ..): starts at zero");
    assert!(v[1] == Some(0.0 + (bf - 0.0) / 2.0 * 1.0), "linspace(None, end, 3): midpoint");
    assert!(v[2] == Some(bf), "linspace(None, end, 3): ends at end");
    kani::cover!(b < 0, "negative end");
}

/// integer element types: the same formula with the type's own (truncating) division
macro_rules! linspace_int_law {
    ($fname:ident, $t:ty, $lo:expr) => {
        fn $fname<const N: usize>() {
            let (a, b): ($t, $t) = (kani::any(), kani::any());
            kani::assume(a >= $lo && a <= 20 && b >= $lo && b <= 20);
            if $lo == 0 {
                // unsigned element type: a decreasing linspace needs a negative step that the type cannot
                // represent (b - a underflows); outside the domain (DESIGN 5.6)
                kani::assume(a <= b);
            }
            let v: Vec<$t> = Vec1Create::linspace(Some(a), b, N);
            assert!(v.len() == N, "linspace<int>: n elements");
            if N >= 1 {
                assert!(v[0] == a, "linspace<int>: first element is start");
            }
            let (ai, bi) = (a as i64, b as i64);
            let step = if N > 1 { (bi - ai) / ((N - 1) as i64) } else { 0 };
            let mut i = 0usize;
            while i < N {
                assert!(v[i] as i64 == ai + step * (i as i64), "linspace<int>: element i is start + i*trunc((end-start)/(n-1))");
                i += 1;
            }
            if N >= 2 {
                if (bi - ai) % ((N - 1) as i64) == 0 {
                    assert!(v[N - 1] == b, "linspace<int>: last element is end when n-1 divides the span");
                }
                // never beyond end
                if ai <= bi {
                    assert!(v[N - 1] <= b, "linspace<int>: last element not beyond end (increasing)");
                } else {
                    assert!(v[N - 1] >= b, "linspace<int>: last element not beyond end (decreasing)");
                }
            }
        }
    };
}
linspace_int_law!(linspace_i32_law, i32, -20);
linspace_int_law!(linspace_usize_law, usize, 0);

#[kani::proof]
#[kani::stub(std::fmt::format, crate::util::fmt_stub)]
#[kani::unwind(8)]
pub fn c19_linspace_i32_n0_to_n5() {
    linspace_i32_law::<0>();
    linspace_i32_law::<1>();
    linspace_i32_law::<2>();
    linspace_i32_law::<3>();
    linspace_i32_law::<4>();
    linspace_i32_law::<5>();
}

#[kani::proof]
#[kani::stub(std::fmt::format, crate::util::fmt_stub)]
#[kani::unwind(8)]
pub fn c19_linspace_usize_n0_to_n5() {
    linspace_usize_law::<0>();
    linspace_usize_law::<1>();
    linspace_usize_law::<2>();
    linspace_usize_law::<3>();
    linspace_usize_law::<4>();
    linspace_usize_law::<5>();
}

// ---------------------------------------------------------------------------------------------
// full / empty
// ---------------------------------------------------------------------------------------------

fn full_law<O: Vec1<i32> + Out<i32>, const N: usize>() {
    let x: i32 = kani::any();
    let o: O = Vec1::full(N, x);
    assert!(o.olen() == N, "full: len elements");
    assert!(GetLen::len(&o) == N, "full: GetLen agrees");
    let mut i = 0usize;
    while i < N {
        assert!(o.oget(i) == x, "full: every element is the value");
        i += 1;
    }
}

fn full_opt_law<O: Vec1<Option<i32>> + Out<Option<i32>>, const N: usize>() {
    let x: Option<i32> = kani::any();
    let o: O = Vec1::full(N, x);
    assert!(o.olen() == N, "full<Option>: len elements");
    let mut i = 0usize;
    while i < N {
        assert!(o.oget(i) == x, "full<Option>: every element is the value");
        i += 1;
    }
}

fn empty_law<O: Vec1<i32> + Out<i32>>() {
    let e: O = Vec1::empty();
    assert!(e.olen() == 0, "empty: no element");
    assert!(GetLen::len(&e) == 0, "empty: GetLen is zero");
}

macro_rules! full_h {
    ($($name:ident: $o:ty, $p:ty, [$($n:expr),*], [$($m:expr),*], $unw:expr);* $(;)?) => {$(
        #[kani::proof]
        #[kani::stub(std::fmt::format, crate::util::fmt_stub)]
        #[kani::unwind($unw)]
        pub fn $name() {
            empty_law::<$o>();
            $( full_law::<$o, $n>(); )*
            $( full_opt_law::<$p, $m>(); )*
        }
    )*};
}

full_h!(
    c19_full_empty_vec_n0_to_n5: Vec<i32>, Vec<Option<i32>>, [0, 1, 2, 3, 4, 5], [0, 3, 5], 8;
    c19_full_empty_vecdeque_n0_to_n2: VecDeque<i32>, VecDeque<Option<i32>>, [0, 1, 2], [2], 5;
    c19_full_empty_vecdeque_n3_to_n5: VecDeque<i32>, VecDeque<Option<i32>>, [3, 4, 5], [], 8;
    c19_full_empty_array1_n0_to_n2: Array1<i32>, Array1<Option<i32>>, [0, 1, 2], [2], 5;
    c19_full_empty_array1_n3_n4: Array1<i32>, Array1<Option<i32>>, [3, 4], [], 7;
    c19_full_empty_array1_n5: Array1<i32>, Array1<Option<i32>>, [5], [], 8;
);

/// full with the float null keeps the null (NaN) in every slot
#[kani::proof]
#[kani::stub(std::fmt::format, crate::util::fmt_stub)]
#[kani::unwind(8)]
pub fn c19_full_nan_vec_n5() {
    let v: Vec<f64> = Vec1::full(5, f64::NAN);
    assert!(v.len() == 5, "full(5, NaN): five elements");
    let mut i = 0usize;
    while i < 5 {
        assert!(v[i].is_nan(), "full(5, NaN): every element is NaN");
        i += 1;
    }
}

// ---------------------------------------------------------------------------------------------
// collectors
// ---------------------------------------------------------------------------------------------

macro_rules! same {
    ($o:expr, $x:expr, $n:expr, $mlen:literal, $melt:literal) => {{
        assert!($o.olen() == $n, $mlen);
        let mut i = 0usize;
        while i < $n {
            assert!($o.oget(i) == $x[i], $melt);
            i += 1;
        }
    }};
}

/// infallible collectors of i32 items
fn collect_plain_law<O: Vec1<i32> + Out<i32>, const N: usize>() {
    let x: [i32; N] = kani::any();
    let o: O = x.iter().cloned().collect_vec1();
    same!(o, x, N, "collect_vec1: length preserved", "collect_vec1: order and content preserved");
    let o: O = x.iter().cloned().collect_trusted_vec1();
    same!(o, x, N, "collect_trusted_vec1: length preserved", "collect_trusted_vec1: order and content preserved");
    // an iterator without a usable size hint (filter) collected with the explicit length
    let o: O = x.iter().cloned().filter(|_| true).collect_vec1_with_len(N);
    same!(o, x, N, "collect_vec1_with_len: length preserved", "collect_vec1_with_len: order and content preserved");
}

/// Option items into a null-encoded container of Option<i32> (None -> None, Some(v) -> v)
fn collect_opt_law<O: Vec1<Option<i32>> + Out<Option<i32>>, const N: usize>() -> bool {
    let x: [Option<Option<i32>>; N] = kani::any();
    let o: O = x.iter().cloned().collect_vec1_opt();
    assert!(o.olen() == N, "collect_vec1_opt<Option<i32>>: length preserved");
    let mut saw_none = false;
    let mut i = 0usize;
    while i < N {
        match x[i] {
            None => {
                saw_none = true;
                assert!(o.oget(i).is_none(), "collect_vec1_opt<Option<i32>>: None becomes the null");
            },
            Some(v) => assert!(o.oget(i) == v, "collect_vec1_opt<Option<i32>>: Some(v) becomes v"),
        }
        i += 1;
    }
    saw_none
}

/// Option<f64> items into a container of f64 (None -> NaN)
fn collect_opt_f64_law<O: Vec1<f64> + Out<f64>, const N: usize>() -> bool {
    let mut x: [Option<f64>; N] = [None; N];
    let mut i = 0usize;
    while i < N {
        if kani::any() {
            x[i] = Some(small_i32(-9, 9) as f64);
        }
        i += 1;
    }
    let o: O = x.iter().cloned().collect_vec1_opt();
    assert!(o.olen() == N, "collect_vec1_opt<f64>: length preserved");
    let mut saw_none = false;
    let mut i = 0usize;
    while i < N {
        match x[i] {
            None => {
                saw_none = true;
                assert!(o.oget(i).is_nan(), "collect_vec1_opt<f64>: None becomes NaN");
            },
            Some(v) => assert!(o.oget(i) == v, "collect_vec1_opt<f64>: Some(v) becomes v"),
        }
        i += 1;
    }
    saw_none
}

/// fallible collectors: item i is Err(IdxOut { idx: i, len: N }) wherever mask[i]; the first masked position
/// must be the error that comes back, otherwise Ok with the items in order.
fn collect_try_law<O: Vec1<i32> + Out<i32>, const N: usize>(trusted: bool) -> (bool, bool) {
    let x: [i32; N] = kani::any();
    let mask: [bool; N] = kani::any();
    let mut first = N; // N = no error
    let mut nerr = 0usize;
    let mut i = N;
    while i > 0 {
        i -= 1;
        if mask[i] {
            first = i;
            nerr += 1;
        }
    }
    let src = x.iter().enumerate().map(|(i, v)| if mask[i] { Err(TError::IdxOut { idx: i, len: N }) } else { Ok(*v) });
    let r: TResult<O> = if trusted { src.try_collect_trusted_vec1() } else { src.try_collect_vec1() };
    match r {
        Ok(o) => {
            assert!(first == N, "try_collect: Ok only when no item is an error");
            same!(o, x, N, "try_collect: length preserved", "try_collect: order and content preserved");
            std::mem::forget(o);
        },
        Err(e) => {
            assert!(first < N, "try_collect: Err only when some item is an error");
            match &e {
                TError::IdxOut { idx, len } => {
                    assert!(*idx == first, "try_collect: the first error is returned");
                    assert!(*len == N, "try_collect: the error is passed through unchanged");
                },
                _ => assert!(false, "try_collect: the error keeps its variant"),
            }
            std::mem::forget(e);
        },
    }
    (nerr >= 2, first == N)
}

/// infallible collectors + the trusted fallible collector, one source length
fn collect_infallible_all<O, P, F, const N: usize>() -> (bool, bool, bool)
where
    O: Vec1<i32> + Out<i32>,
    P: Vec1<Option<i32>> + Out<Option<i32>>,
    F: Vec1<f64> + Out<f64>,
{
    collect_plain_law::<O, N>();
    let none1 = collect_opt_law::<P, N>();
    let none2 = collect_opt_f64_law::<F, N>();
    let (two, ok) = collect_try_law::<O, N>(true);
    (none1 && none2, two, ok)
}

macro_rules! collect_h {
    (@covers c0 $r:ident) => {
        kani::cover!($r.2, "try_collect_trusted_vec1: no error item");
    };
    (@covers c1 $r:ident) => {
        kani::cover!($r.0, "a None item");
        kani::cover!(!$r.2, "try_collect_trusted_vec1: an error item");
        kani::cover!($r.2, "try_collect_trusted_vec1: no error item");
    };
    (@covers c2 $r:ident) => {
        collect_h!(@covers c1 $r);
        kani::cover!($r.1, "try_collect_trusted_vec1: two error items (first one must win)");
    };
    ($($(#[$m:meta])* $name:ident: $o:ty, $p:ty, $f:ty, $n:expr, $c:ident, $unw:expr);* $(;)?) => {$(
        $(#[$m])*
        #[kani::proof]
        #[kani::stub(std::fmt::format, crate::util::fmt_stub)]
        #[kani::unwind($unw)]
        pub fn $name() {
            let r = collect_infallible_all::<$o, $p, $f, $n>();
            collect_h!(@covers $c r);
        }
    )*};
}

collect_h!(
    c19_collect_vec_n0: Vec<i32>, Vec<Option<i32>>, Vec<f64>, 0, c0, 3;
    c19_collect_vec_n1: Vec<i32>, Vec<Option<i32>>, Vec<f64>, 1, c1, 3;
    c19_collect_vec_n2: Vec<i32>, Vec<Option<i32>>, Vec<f64>, 2, c2, 4;
    c19_collect_vec_n3: Vec<i32>, Vec<Option<i32>>, Vec<f64>, 3, c2, 5;
    c19_collect_vec_n4: Vec<i32>, Vec<Option<i32>>, Vec<f64>, 4, c2, 6;
    c19_collect_vecdeque_n0: VecDeque<i32>, VecDeque<Option<i32>>, VecDeque<f64>, 0, c0, 3;
    #[cfg(feature = "thorough")] c19_collect_vecdeque_n1: VecDeque<i32>, VecDeque<Option<i32>>, VecDeque<f64>, 1, c1, 3;
    c19_collect_vecdeque_n2: VecDeque<i32>, VecDeque<Option<i32>>, VecDeque<f64>, 2, c2, 4;
    #[cfg(feature = "thorough")] c19_collect_vecdeque_n3: VecDeque<i32>, VecDeque<Option<i32>>, VecDeque<f64>, 3, c2, 5;
    c19_collect_vecdeque_n4: VecDeque<i32>, VecDeque<Option<i32>>, VecDeque<f64>, 4, c2, 6;
    #[cfg(feature = "thorough")] c19_collect_array1_n0: Array1<i32>, Array1<Option<i32>>, Array1<f64>, 0, c0, 3;
    c19_collect_array1_n1: Array1<i32>, Array1<Option<i32>>, Array1<f64>, 1, c1, 3;
    #[cfg(feature = "thorough")] c19_collect_array1_n2: Array1<i32>, Array1<Option<i32>>, Array1<f64>, 2, c2, 4;
    #[cfg(feature = "thorough")] c19_collect_array1_n3: Array1<i32>, Array1<Option<i32>>, Array1<f64>, 3, c2, 5;
    c19_collect_array1_n4: Array1<i32>, Array1<Option<i32>>, Array1<f64>, 4, c2, 6;
);

/// the untrusted fallible collector (`Result<_, _>: FromIterator` underneath) is by far the most expensive
/// piece for CBMC (nested short-circuiting adaptor loops): own harness per container and length.
macro_rules! try_collect_h {
    (@covers c0 $two:ident $ok:ident) => {
        kani::cover!($ok, "try_collect_vec1: no error item");
    };
    (@covers c1 $two:ident $ok:ident) => {
        kani::cover!($ok, "try_collect_vec1: no error item");
        kani::cover!(!$ok, "try_collect_vec1: an error item");
    };
    (@covers c2 $two:ident $ok:ident) => {
        try_collect_h!(@covers c1 $two $ok);
        kani::cover!($two, "try_collect_vec1: two error items (first one must win)");
    };
    ($($(#[$m:meta])* $name:ident: $o:ty, $n:expr, $c:ident, $unw:expr);* $(;)?) => {$(
        $(#[$m])*
        #[kani::proof]
        #[kani::stub(std::fmt::format, crate::util::fmt_stub)]
        #[kani::unwind($unw)]
        pub fn $name() {
            let (two, ok) = collect_try_law::<$o, $n>(false);
            try_collect_h!(@covers $c two ok);
        }
    )*};
}

try_collect_h!(
    c19_try_collect_vec_n0: Vec<i32>, 0, c0, 3;
    c19_try_collect_vec_n1: Vec<i32>, 1, c1, 3;
    c19_try_collect_vec_n2: Vec<i32>, 2, c2, 4;
    #[cfg(feature = "thorough")] c19_try_collect_vec_n3: Vec<i32>, 3, c2, 5;
    c19_try_collect_vec_n4: Vec<i32>, 4, c2, 6;
    c19_try_collect_vecdeque_n2: VecDeque<i32>, 2, c2, 4;
    c19_try_collect_array1_n2: Array1<i32>, 2, c2, 4;
    #[cfg(feature = "thorough")] c19_try_collect_vecdeque_n0: VecDeque<i32>, 0, c0, 3;
    #[cfg(feature = "thorough")] c19_try_collect_vecdeque_n1: VecDeque<i32>, 1, c1, 3;
    #[cfg(feature = "thorough")] c19_try_collect_vecdeque_n3: VecDeque<i32>, 3, c2, 5;
    #[cfg(feature = "thorough")] c19_try_collect_vecdeque_n4: VecDeque<i32>, 4, c2, 6;
    #[cfg(feature = "thorough")] c19_try_collect_array1_n0: Array1<i32>, 0, c0, 3;
    #[cfg(feature = "thorough")] c19_try_collect_array1_n1: Array1<i32>, 1, c1, 3;
    #[cfg(feature = "thorough")] c19_try_collect_array1_n3: Array1<i32>, 3, c2, 5;
    #[cfg(feature = "thorough")] c19_try_collect_array1_n4: Array1<i32>, 4, c2, 6;
);

// ---------------------------------------------------------------------------------------------
// write_trust_iter
// ---------------------------------------------------------------------------------------------

/// An `UninitRefMut` that counts the writes per slot (the trait is public, so any out-buffer type may be
/// handed to `WriteTrustIter::write`); an out-of-range slot index is a harness failure.
pub struct LogBuf<const N: usize> {
    pub cnt: [u8; N],
    pub val: [i32; N],
}

impl<const N: usize> GetLen for LogBuf<N> {
    fn len(&self) -> usize {
        N
    }
}

impl<const N: usize> UninitRefMut<i32> for LogBuf<N> {
    unsafe fn uset(&mut self, idx: usize, v: i32) {
        assert!(idx < N, "write_trust_iter: slot index within the buffer");
        self.cnt[idx] += 1;
        self.val[idx] = v;
    }
}

/// what slot i must hold after writing an iterator of M items into N slots
fn want_at<const N: usize, const M: usize>(y: &[i32; M], i: usize) -> i32 {
    let ys: &[i32] = y;
    if M == N { ys[i] } else { ys[0] }
}

/// buffer of N slots against an iterator of M items
fn write_law<const N: usize, const M: usize>() {
    let y: [i32; M] = kani::any();
    let must_fill = N == 0 || M == N || M == 1;
    // (1) logging buffer, through WriteTrustIter::write
    let mut lb = LogBuf::<N> { cnt: [0; N], val: [0; N] };
    let r = y.iter().cloned().write(&mut lb);
    match r {
        Ok(()) => {
            assert!(must_fill, "write: a length mismatch (iterator neither 1 nor len items) is reported");
            let mut i = 0usize;
            while i < N {
                assert!(lb.cnt[i] == 1, "write: every slot written exactly once");
                assert!(lb.val[i] == want_at::<N, M>(&y, i), "write: slot i holds item i (or the single item)");
                i += 1;
            }
        },
        Err(e) => {
            assert!(!must_fill, "write: no error when the lengths agree or a single item is broadcast");
            let mut i = 0usize;
            while i < N {
                assert!(lb.cnt[i] == 0, "write: no slot touched when the length mismatch is reported");
                i += 1;
            }
            std::mem::forget(e);
        },
    }
    // (2) the real uninitialised buffers, through UninitRefMut::write_trust_iter
    let mut buf = <Vec<i32> as Vec1<i32>>::uninit(N);
    let r = Vec::<i32>::uninit_ref_mut(&mut buf).write_trust_iter(y.iter().cloned());
    match r {
        Ok(()) => {
            assert!(must_fill, "write(Vec): a length mismatch is reported");
            let v: Vec<i32> = unsafe { buf.assume_init() };
            assert!(v.len() == N, "write(Vec): buffer keeps its length");
            let mut i = 0usize;
            while i < N {
                assert!(v[i] == want_at::<N, M>(&y, i), "write(Vec): slot i holds item i (or the single item)");
                i += 1;
            }
        },
        Err(e) => {
            assert!(!must_fill, "write(Vec): no error when the lengths agree or a single item is broadcast");
            std::mem::forget(e);
        },
    }
}

fn write_law_deque<const N: usize, const M: usize>() {
    let y: [i32; M] = kani::any();
    let must_fill = N == 0 || M == N || M == 1;
    let mut buf = <VecDeque<i32> as Vec1<i32>>::uninit(N);
    let r = y.iter().cloned().write(&mut VecDeque::<i32>::uninit_ref_mut(&mut buf));
    match r {
        Ok(()) => {
            assert!(must_fill, "write(VecDeque): a length mismatch is reported");
            let v: VecDeque<i32> = unsafe { buf.assume_init() };
            assert!(v.len() == N, "write(VecDeque): buffer keeps its length");
            let mut i = 0usize;
            while i < N {
                assert!(v[i] == want_at::<N, M>(&y, i), "write(VecDeque): slot i holds item i (or the single item)");
                i += 1;
            }
        },
        Err(e) => {
            assert!(!must_fill, "write(VecDeque): no error when the lengths agree or a single item is broadcast");
            std::mem::forget(e);
        },
    }
}

fn write_law_array<const N: usize, const M: usize>() {
    let y: [i32; M] = kani::any();
    let must_fill = N == 0 || M == N || M == 1;
    let mut buf = <Array1<i32> as Vec1<i32>>::uninit(N);
    let r = y.iter().cloned().write(&mut Array1::<i32>::uninit_ref_mut(&mut buf));
    match r {
        Ok(()) => {
            assert!(must_fill, "write(Array1): a length mismatch is reported");
            let v: Array1<i32> = unsafe { UninitVec::assume_init(buf) };
            assert!(v.len() == N, "write(Array1): buffer keeps its length");
            let mut i = 0usize;
            while i < N {
                assert!(v[i] == want_at::<N, M>(&y, i), "write(Array1): slot i holds item i (or the single item)");
                i += 1;
            }
        },
        Err(e) => {
            assert!(!must_fill, "write(Array1): no error when the lengths agree or a single item is broadcast");
            std::mem::forget(e);
        },
    }
}

macro_rules! write_h {
    ($($(#[$m:meta])* $name:ident: $law:ident, [$(($n:expr, $k:expr)),*]);* $(;)?) => {$(
        $(#[$m])*
        #[kani::proof]
        #[kani::stub(std::fmt::format, crate::util::fmt_stub)]
        #[kani::unwind(7)]
        pub fn $name() {
            // (buffer length, iterator length): iterators of length 0, 1, len, one shorter, one longer
            $( $law::<$n, $k>(); )*
        }
    )*};
}

write_h!(
    c19_write_log_vec_n0_n1: write_law, [(0, 0), (0, 1), (0, 2), (1, 0), (1, 1), (1, 2)];
    c19_write_log_vec_n2: write_law, [(2, 0), (2, 1), (2, 2), (2, 3)];
    c19_write_log_vec_n3: write_law, [(3, 0), (3, 1), (3, 2), (3, 3), (3, 4)];
    c19_write_log_vec_n4: write_law, [(4, 0), (4, 1), (4, 3), (4, 4), (4, 5)];
    c19_write_vecdeque_n3: write_law_deque, [(3, 0), (3, 1), (3, 2), (3, 3), (3, 4)];
    c19_write_array1_n3: write_law_array, [(3, 0), (3, 1), (3, 2), (3, 3), (3, 4)];
    #[cfg(feature = "thorough")] c19_write_log_vec_n4_other: write_law, [(4, 2), (3, 5), (2, 4), (2, 5), (1, 3), (1, 5), (0, 5)];
    #[cfg(feature = "thorough")] c19_write_vecdeque_n0_to_n2: write_law_deque, [(0, 0), (0, 1), (0, 2), (1, 0), (1, 1), (1, 2), (2, 0), (2, 1), (2, 2), (2, 3)];
    #[cfg(feature = "thorough")] c19_write_vecdeque_n4: write_law_deque, [(4, 0), (4, 1), (4, 3), (4, 4), (4, 5)];
    #[cfg(feature = "thorough")] c19_write_array1_n0_to_n2: write_law_array, [(0, 0), (0, 1), (0, 2), (1, 0), (1, 1), (1, 2), (2, 0), (2, 1), (2, 2), (2, 3)];
    #[cfg(feature = "thorough")] c19_write_array1_n4: write_law_array, [(4, 0), (4, 1), (4, 3), (4, 4), (4, 5)];
);

// ---------------------------------------------------------------------------------------------
// trusted collection of an iterator with an explicit length (`to_trust`) after items were taken from BOTH ends: order and
// content of what is left are preserved and the result has exactly that many elements (added after seeded change C19-m6; the
// length bookkeeping itself is C09's)
// ---------------------------------------------------------------------------------------------

#[kani::proof]
#[kani::unwind(7)]
pub fn c19_collect_trust_after_back_n4() {
    let x: [i32; 4] = kani::any();
    let mut it = x.iter().cloned().to_trust(4);
    let front: bool = kani::any();
    let back: bool = kani::any();
    let (mut lo, mut hi) = (0usize, 4usize);
    if front {
        assert!(it.next() == Some(x[0]), "to_trust: next yields the first element");
        lo = 1;
    }
    if back {
        assert!(it.next_back() == Some(x[3]), "to_trust: next_back yields the last element");
        hi = 3;
    }
    let o: Vec<i32> = it.collect_trusted_vec1();
    assert!(o.len() == hi - lo, "collect_trusted_vec1 after partial consumption: as many elements as are left");
    let mut i = 0usize;
    while i < o.len() && lo + i < hi {
        assert!(o[i] == x[lo + i], "collect_trusted_vec1 after partial consumption: order and content preserved");
        i += 1;
    }
    kani::cover!(front && back, "one item taken from each end");
    kani::cover!(back && !front, "only the last item taken");
}
