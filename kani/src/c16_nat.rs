// C16, clause "NaT is absorbed by every operation" — included at the end of c16.rs (same module).
//
// One operand is fixed to NaT (DateTime::nat() / TimeDelta::nat() / Time::nat()), the other one is
// fully symbolic:
//   * DateTime<U>: any i64 (including NaT itself),
//   * TimeDelta:   any i32 month count (including i32::MIN = NaT itself) and a chrono::Duration built from
//                  symbolic (secs, nanos) with |secs| <= 2^40, 0 <= nanos < 10^9 (chrono's own representation
//                  invariant; `Duration::new` performs no division),
//   * Time:        any i64.
// The law: the result is NaT (`is_nat()`), and nothing panics. On all these paths the NaT guard is taken
// before chrono's calendar code is reached, so CBMC never enters it.
//
// Operator inventory of tea-time/src/impls/impl_ops.rs (complete): DateTime<U> + TimeDelta, DateTime<U> - TimeDelta,
// DateTime<U> - DateTime<U>, -TimeDelta, TimeDelta + TimeDelta, TimeDelta - TimeDelta, TimeDelta * i32,
// TimeDelta / TimeDelta (-> i32), Time + TimeDelta, Time - TimeDelta.  There is no `Time - Time`, no `* i64`,
// no `TimeDelta / i32` and no `*Assign` impl in the crate.
// `TimeDelta / TimeDelta` returns an `i32` count, which has no NaT; the implementation panics on purpose with
// "not support div TimeDelta when one of them is nat". It is neither addition, subtraction, negation nor scaling
// and is left outside the absorption law (no harness; to be listed under `outside` in props/c16.py).
use tea_time::{Time, TimeDelta};

/// symbolic chrono::Duration, |secs| <= 2^40, every sub-second part
fn natop_any_duration() -> chrono::Duration {
    let secs: i64 = kani::any();
    let nanos: u32 = kani::any();
    kani::assume(secs >= -(1i64 << 40) && secs <= (1i64 << 40));
    kani::assume(nanos < 1_000_000_000);
    match chrono::Duration::new(secs, nanos) {
        Some(d) => d,
        None => unreachable!(),
    }
}

/// fully symbolic TimeDelta (may itself be NaT)
fn natop_any_delta() -> TimeDelta {
    TimeDelta { months: kani::any(), inner: natop_any_duration() }
}

/// DateTime<U> operators, conversions and field getters with a NaT operand.
fn natop_datetime_law<U: TimeUnitTrait>()
where
    DateTime<U>: From<chrono::DateTime<chrono::Utc>> + TryInto<chrono::DateTime<chrono::Utc>>,
{
    let nat = DateTime::<U>::nat();
    let d = natop_any_delta();
    let t = DateTime::<U>::new(kani::any());
    kani::cover!(t.is_not_nat() && d.is_not_nat() && d.months != 0, "valid other operand with months");
    kani::cover!(t.is_not_nat() && d.is_not_nat() && d.months == 0, "valid month-free other operand");
    // NaT date-time on the left
    assert!((nat + d).is_nat(), "NaT date-time + duration is NaT");
    assert!((nat - d).is_nat(), "NaT date-time - duration is NaT");
    // NaT duration on the right
    assert!((t + TimeDelta::nat()).is_nat(), "date-time + NaT duration is NaT");
    assert!((t - TimeDelta::nat()).is_nat(), "date-time - NaT duration is NaT");
    // differences
    assert!((nat - t).is_nat(), "NaT date-time - date-time is NaT");
    assert!((t - nat).is_nat(), "date-time - NaT date-time is NaT");
    // conversions to optional integer / calendar value
    assert!(nat.into_opt_i64().is_none(), "NaT date-time has no integer value");
    assert!(nat.as_cr().is_none(), "NaT date-time has no calendar value");
    assert!(nat.time().is_none(), "NaT date-time has no time of day");
    assert!(nat.year().is_none(), "NaT date-time has no year");
    assert!(nat.month().is_none(), "NaT date-time has no month");
    assert!(nat.day().is_none(), "NaT date-time has no day");
    assert!(nat.hour().is_none(), "NaT date-time has no hour");
    assert!(nat.minute().is_none(), "NaT date-time has no minute");
    assert!(nat.second().is_none(), "NaT date-time has no second");
    // truncation keeps NaT whatever the duration is
    assert!(nat.duration_trunc(d).is_nat(), "truncating NaT gives NaT");
    // constructors from absent values
    assert!(DateTime::<U>::from_opt_i64(None).is_nat(), "from_opt_i64(None) is NaT");
    assert!(<DateTime<U> as From<Option<i64>>>::from(None).is_nat(), "From<Option<i64>>(None) is NaT");
    assert!(<DateTime<U> as From<Option<chrono::NaiveDateTime>>>::from(None).is_nat(), "From<Option<NaiveDateTime>>(None) is NaT");
    assert!(DateTime::<U>::default().is_nat(), "default date-time is NaT");
}

#[kani::proof]
#[kani::stub(std::fmt::format, crate::util::fmt_stub)]
pub fn c16_natop_datetime_ns() {
    natop_datetime_law::<Nanosecond>()
}

#[kani::proof]
#[kani::stub(std::fmt::format, crate::util::fmt_stub)]
pub fn c16_natop_datetime_us() {
    natop_datetime_law::<Microsecond>()
}

#[kani::proof]
#[kani::stub(std::fmt::format, crate::util::fmt_stub)]
pub fn c16_natop_datetime_ms() {
    natop_datetime_law::<Millisecond>()
}

#[kani::proof]
#[kani::stub(std::fmt::format, crate::util::fmt_stub)]
pub fn c16_natop_datetime_s() {
    natop_datetime_law::<Second>()
}

/// TimeDelta + - neg * with a NaT operand; constructors from absent values.
#[kani::proof]
#[kani::stub(std::fmt::format, crate::util::fmt_stub)]
pub fn c16_natop_timedelta() {
    let nat = TimeDelta::nat();
    let d = natop_any_delta();
    let k: i32 = kani::any();
    kani::cover!(d.is_not_nat() && d.months != 0, "valid other operand with months");
    kani::cover!(d.is_not_nat() && d.months == 0 && d.inner < chrono::Duration::zero(), "valid negative month-free other operand");
    assert!((nat + d).is_nat(), "NaT duration + duration is NaT");
    assert!((d + nat).is_nat(), "duration + NaT duration is NaT");
    assert!((nat - d).is_nat(), "NaT duration - duration is NaT");
    assert!((d - nat).is_nat(), "duration - NaT duration is NaT");
    assert!((-nat).is_nat(), "-NaT duration is NaT");
    assert!((nat * k).is_nat(), "NaT duration * i32 is NaT");
    assert!(TimeDelta::from(i64::MIN).is_nat(), "From<i64>(i64::MIN) is NaT");
    assert!(TimeDelta::from(None::<i64>).is_nat(), "From<Option<i64>>(None) is NaT");
    assert!(TimeDelta::from(None::<chrono::Duration>).is_nat(), "From<Option<Duration>>(None) is NaT");
    assert!(TimeDelta::default().is_nat(), "default duration is NaT");
}

/// Time ± NaT duration, conversions of a NaT time of day.
#[kani::proof]
#[kani::stub(std::fmt::format, crate::util::fmt_stub)]
pub fn c16_natop_time_rhs_nat() {
    let t = Time(kani::any());
    kani::cover!(t.is_not_nat() && t.0 >= 0 && t.0 < 86_400_000_000_000, "valid time of day");
    assert!((t + TimeDelta::nat()).is_nat(), "time + NaT duration is NaT");
    assert!((t - TimeDelta::nat()).is_nat(), "time - NaT duration is NaT");
    let nat = Time::nat();
    assert!(nat.as_cr().is_none(), "NaT time has no calendar value");
    let x: u32 = kani::any();
    assert!(tea_time::Timelike::with_hour(&nat, x).is_none(), "NaT time with_hour is None");
    assert!(tea_time::Timelike::with_minute(&nat, x).is_none(), "NaT time with_minute is None");
    assert!(tea_time::Timelike::with_second(&nat, x).is_none(), "NaT time with_second is None");
    assert!(tea_time::Timelike::with_nanosecond(&nat, x).is_none(), "NaT time with_nanosecond is None");
    assert!(Time::from(None::<i64>).is_nat(), "From<Option<i64>>(None) is NaT");
    assert!(Time::from(i64::MIN).is_nat(), "From<i64>(i64::MIN) is NaT");
}

/// month-free valid duration for the time-of-day operators (a month-carrying duration is rejected by a
/// documented panic, tested as such in the repository).
fn natop_month_free_delta() -> TimeDelta {
    TimeDelta { months: 0, inner: natop_any_duration() }
}

/// NaT time of day on the left of `+` (isolated: the design probe saw `Time::nat() + 1s` not being NaT).
#[kani::proof]
#[kani::stub(std::fmt::format, crate::util::fmt_stub)]
pub fn c16_natop_time_add_lhs_nat() {
    let d = natop_month_free_delta();
    kani::cover!(d.inner > chrono::Duration::zero(), "positive duration");
    kani::cover!(d.inner < chrono::Duration::zero(), "negative duration");
    let r = Time::nat() + d;
    assert!(r.is_nat(), "NaT time + duration is NaT");
}

/// NaT time of day on the left of `-` (isolated).
#[kani::proof]
#[kani::stub(std::fmt::format, crate::util::fmt_stub)]
pub fn c16_natop_time_sub_lhs_nat() {
    let d = natop_month_free_delta();
    kani::cover!(d.inner > chrono::Duration::zero(), "positive duration");
    kani::cover!(d.inner < chrono::Duration::zero(), "negative duration");
    let r = Time::nat() - d;
    assert!(r.is_nat(), "NaT time - duration is NaT");
}
