//! C20 harnesses (see /verif/tools/HARNESS_GUIDE.md).
