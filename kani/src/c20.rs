//! C20 — composite analytics terminate within range and respect their defining relations.
//!
//! Stubs (part of the claim, DESIGN 1.1): the correlation used by `half_life` and the aggregates used by
//! `winsorize` are replaced by *recording oracles*. A trait default method can only be stubbed by a method of a
//! local blanket-implemented trait with the same generic parameter list, hence `StubAgg` / `StubVecAgg`.
//!
//!   * `c20_half_life_*`  the Pearson correlation is replaced by `table[lag]` (NaN beyond the series), `table` symbolic:
//!                        (any)     arbitrary table incl. NaN/inf: terminates (unwinding assertions are violations
//!                                  for this property), no panic, result in 1..=N-1, 0 iff N < 2;        N = 0..=9
//!                        (first)   table above 0.5 exactly up to a symbolic lag L*, strictly below afterwards:
//!                                  result == min(L*+1, N-1);                                            N = 2..=9
//!                        (tie)     the same with "not above" = `<= 0.5 or NaN` after L*, L* restricted to
//!                                  {0,1,2,4,8} so that the bisection only ever moves its upper end;     N = 2..=9
//!                        In these three families `vshift` is replaced by a lag recorder as well (the real one
//!                        returns one of four boxed iterator types; with a symbolic lag CBMC needs 460 s at N = 2).
//!                        (wiring)  REAL `vshift`, the oracle recovers the lag from the leading nulls of the shifted
//!                                  copy; concrete tables 0.75/0.25 for every L*;                        N = 2..=6 (8)
//!                        (witness) concrete data paired with the table of its own autocorrelations: the same
//!                                  assertion holds or fails under Kani (oracle) and natively (real correlation).
//!   * `c20_winsorize_*`  the bound computations are recorders that assert their arguments and return symbolic
//!                        bounds; the harness asserts clip semantics w.r.t. the documented interval.
//!   * `c20_rank_*`       two series with the same order relation have identical `vrank` outputs;
//!   * `c20_spearman_*`   `vcorr(.., Spearman)` hands exactly the two rank vectors and min_periods to Pearson
//!                        and returns its result (recorder stub).
use tea_agg::{QuantileMethod, VecAggValidExt};
use tea_core::prelude::*;
use tea_map::{MapValidBasic, MapValidVec};
use tevec::agg::{AggValidFinal, CorrMethod};
use tevec::map::{MapValidFinal, WinsorizeMethod};

use crate::util::*;

pub const TMAX: usize = 16;

/// Harnesses that depend on an oracle stub are meaningless in a native replay (Kani stubs do not exist there).
/// In a native run they only drain the recorded symbolic values (the replay driver panics on left-over as well
/// as on missing values) and return, so that a native run can never "confirm" a counterexample it did not
/// execute. Native evidence for half_life comes from the `c20_half_life_witness_*` harnesses.
#[cfg(feature = "playback")]
pub fn native_run() -> bool {
    let hook = std::panic::take_hook();
    std::panic::set_hook(Box::new(|_| {}));
    loop {
        // every call pops one recorded value (and panics when its size is not 1, or when none is left)
        let r = std::panic::catch_unwind(|| kani::any::<u8>());
        if let Err(e) = r {
            let msg = if let Some(s) = e.downcast_ref::<String>() { s.clone() }
                      else if let Some(s) = e.downcast_ref::<&str>() { s.to_string() } else { String::new() };
            if msg.contains("Not enough det vals") {
                break;
            }
        }
    }
    std::panic::set_hook(hook);
    true
}
#[cfg(not(feature = "playback"))]
pub fn native_run() -> bool {
    false
}

// ---- oracle state (Kani harnesses are single-threaded; native replays run with --test-threads 1) ----------
pub static mut TABLE: [f64; TMAX] = [0.0; TMAX];
pub static mut SERIES_LEN: usize = 0;
pub static mut EXPECT_MP: usize = 0;
pub static mut CALLS: usize = 0;
// hand-over from the `vshift` recorder to the correlation oracle
pub static mut PENDING: bool = false;
pub static mut PENDING_LAG: i32 = 0;
// recorder for the Spearman harness
pub static mut REC_A: [f64; TMAX] = [0.0; TMAX];
pub static mut REC_B: [f64; TMAX] = [0.0; TMAX];
pub static mut REC_LEN_A: usize = 0;
pub static mut REC_LEN_B: usize = 0;
pub static mut REC_MP: usize = 0;
pub static mut REC_RET: f64 = 0.0;
// expectations / answers of the winsorize recorders
pub static mut W_DATA: [f64; TMAX] = [0.0; TMAX];
pub static mut W_LEN: usize = 0;
pub static mut W_Q: f64 = 0.0; // expected first quantile argument
pub static mut W_LO: f64 = 0.0; // answer to the first bound query (q-quantile / median / mean)
pub static mut W_HI: f64 = 0.0; // answer to the second bound query (1-q quantile / MAD / variance)

/// same float, NaN == NaN
pub fn same_f64(a: f64, b: f64) -> bool {
    if a.is_nan() { b.is_nan() } else { a == b }
}

/// Stand-ins for default methods of `tea_core::prelude::AggValidBasic<T>` (same generic lists).
pub trait StubAgg<T: IsNone>: IntoIterator<Item = T> + Sized {
    /// lag oracle for `half_life`: `other` is `self` shifted right by `lag` positions with null fill.
    fn vcorr_pearson_lag_oracle<O, V2: IntoIterator<Item = T2>, T2: IsNone>(self, other: V2, min_periods: usize) -> O
    where
        T::Inner: Number,
        T2::Inner: Number,
        f64: Cast<O>,
    {
        let mut lag = 0usize;
        let mut total = 0usize;
        let mut leading = true;
        for v in other {
            if leading && v.is_none() {
                lag += 1;
            } else {
                leading = false;
            }
            total += 1;
        }
        let (len, mp) = unsafe { (SERIES_LEN, EXPECT_MP) };
        assert!(total == len, "half_life correlates against a shifted copy as long as the series");
        assert!(lag >= 1, "half_life never asks for the lag-0 autocorrelation");
        assert!(min_periods == mp, "half_life passes min_periods (default len/2) to the correlation");
        unsafe {
            CALLS += 1;
        }
        let c = if lag < len && lag < TMAX { unsafe { TABLE[lag] } } else { f64::NAN };
        c.cast()
    }

    /// lag oracle for `half_life` when `vshift` is replaced by `StubMap::vshift_recorder` as well: the lag is
    /// the one recorded by the shift that produced `other`.
    fn vcorr_pearson_pending_oracle<O, V2: IntoIterator<Item = T2>, T2: IsNone>(self, other: V2, min_periods: usize) -> O
    where
        T::Inner: Number,
        T2::Inner: Number,
        f64: Cast<O>,
    {
        let _ = other;
        let (len, mp, pending, n) = unsafe { (SERIES_LEN, EXPECT_MP, PENDING, PENDING_LAG) };
        assert!(pending, "half_life correlates the series with a freshly shifted copy of itself");
        assert!(n >= 1, "half_life never asks for the autocorrelation at lag 0 or a negative lag");
        assert!(min_periods == mp, "half_life passes min_periods (default len/2) on to the correlation");
        let lag = n as usize;
        unsafe {
            PENDING = false;
            CALLS += 1;
        }
        let c = if lag < len && lag < TMAX { unsafe { TABLE[lag] } } else { f64::NAN };
        c.cast()
    }

    /// recorder for the Spearman branch of `vcorr`
    fn vcorr_pearson_recorder<O, V2: IntoIterator<Item = T2>, T2: IsNone>(self, other: V2, min_periods: usize) -> O
    where
        T::Inner: Number,
        T2::Inner: Number,
        f64: Cast<O>,
    {
        let mut i = 0usize;
        for v in self {
            let x = if v.is_none() { f64::NAN } else { v.unwrap().f64() };
            if i < TMAX {
                unsafe {
                    REC_A[i] = x;
                }
            }
            i += 1;
        }
        let mut j = 0usize;
        for v in other {
            let x = if v.is_none() { f64::NAN } else { v.unwrap().f64() };
            if j < TMAX {
                unsafe {
                    REC_B[j] = x;
                }
            }
            j += 1;
        }
        unsafe {
            REC_LEN_A = i;
            REC_LEN_B = j;
            REC_MP = min_periods;
            CALLS += 1;
            REC_RET.cast()
        }
    }

    /// recorder for the Sigma method of `winsorize`
    fn vmean_var_recorder(self, min_periods: usize) -> (f64, f64)
    where
        T::Inner: Number,
    {
        assert!(min_periods == 2, "winsorize(Sigma): mean and variance are computed with min_periods 2");
        let mut i = 0usize;
        for v in self {
            let x = if v.is_none() { f64::NAN } else { v.unwrap().f64() };
            let want = if i < TMAX { unsafe { W_DATA[i] } } else { f64::NAN };
            assert!(same_f64(x, want), "winsorize(Sigma): mean and variance are computed over the input itself");
            i += 1;
        }
        assert!(i == unsafe { W_LEN }, "winsorize(Sigma): mean and variance are computed over the whole input");
        unsafe {
            CALLS += 1;
            (W_LO, W_HI)
        }
    }
}
impl<I: IntoIterator<Item = T>, T: IsNone> StubAgg<T> for I {}

/// Stand-in for `tea_map::MapValidBasic<T>::vshift` (half_life harnesses with a symbolic table only): records
/// the lag and hands the unshifted iterator on; the correlation oracle picks the lag up from the record.
/// Reason (measured): the real `vshift` returns one of four boxed iterator types; with a symbolic lag CBMC has to
/// explore all of them at every `next()` inside three nested loops (N = 2: 460 s, N = 5: no answer in 600 s).
pub trait StubMap<T: IsNone>: TrustedLen<Item = T> + Sized {
    fn vshift_recorder<'a>(self, n: i32, value: Option<T>) -> Box<dyn TrustedLen<Item = T> + 'a>
    where
        T: Clone + 'a,
        Self: 'a,
    {
        assert!(value.is_none(), "half_life shifts with the null fill value");
        assert!(!unsafe { PENDING }, "every shifted copy is consumed by exactly one correlation");
        assert!(TrustedLen::len(&self) == unsafe { SERIES_LEN }, "half_life shifts the series itself");
        unsafe {
            PENDING = true;
            PENDING_LAG = n;
        }
        Box::new(self)
    }
}
impl<T: IsNone, I: TrustedLen<Item = T>> StubMap<T> for I {}

/// Stand-ins for default methods of `tea_agg::VecAggValidExt<T>`.
pub trait StubVecAgg<T: IsNone>: Vec1View<T> {
    /// recorder for the Quantile method of `winsorize`: first call q, second call 1-q, both Linear
    fn vquantile_recorder(&self, q: f64, method: QuantileMethod) -> TResult<f64>
    where
        T: Cast<f64>,
        T::Inner: Number,
    {
        assert!(matches!(method, QuantileMethod::Linear), "winsorize(Quantile): linear interpolation");
        check_is_input(self, false);
        let call = unsafe { CALLS };
        unsafe {
            CALLS += 1;
        }
        let wq = unsafe { W_Q };
        if call == 0 {
            assert!(q == wq, "winsorize(Quantile): the lower bound is the q-quantile");
            Ok(unsafe { W_LO })
        } else {
            assert!(call == 1, "winsorize(Quantile): exactly two quantiles are computed");
            assert!(q == 1. - wq, "winsorize(Quantile): the upper bound is the (1-q)-quantile");
            Ok(unsafe { W_HI })
        }
    }

    /// recorder for the Median method of `winsorize`: first call on the input (answer: median), second call on
    /// the absolute deviations from that median (answer: MAD)
    fn vmedian_recorder(&self) -> f64
    where
        T: Cast<f64>,
        T::Inner: Number,
    {
        let call = unsafe { CALLS };
        unsafe {
            CALLS += 1;
        }
        if call == 0 {
            check_is_input(self, false);
            unsafe { W_LO }
        } else {
            assert!(call == 1, "winsorize(Median): exactly two medians are computed");
            check_is_input(self, true);
            unsafe { W_HI }
        }
    }
}
impl<V: Vec1View<T>, T: IsNone> StubVecAgg<T> for V {}

/// the view handed to a recorder holds the harness input (or, `dev`, its absolute deviations from W_LO)
fn check_is_input<T: IsNone + Cast<f64>, V: Vec1View<T> + ?Sized>(v: &V, dev: bool) {
    let n = unsafe { W_LEN };
    assert!(v.len() == n, "winsorize: the bound is computed over the whole input");
    let med = unsafe { W_LO };
    let mut i = 0usize;
    while i < n {
        let x: f64 = v.get(i).unwrap().cast();
        let d = unsafe { W_DATA[i] };
        if dev {
            assert!(same_f64(x, (d - med).abs()), "winsorize(Median): the second median is taken over |x - median|");
        } else {
            assert!(same_f64(x, d), "winsorize: the bound is computed over the input itself");
        }
        i += 1;
    }
}

// ---------------------------------------------------------------------------------------------
// half_life
// ---------------------------------------------------------------------------------------------

/// a null-free series of length N (its values are irrelevant under the oracle)
fn ramp<const N: usize>() -> Vec<f64> {
    let mut v = Vec::with_capacity(N);
    let mut i = 0usize;
    while i < N {
        v.push((i + 1) as f64);
        i += 1;
    }
    v
}

/// symbolic min_periods: omitted or 1..=N+1
fn any_mp<const N: usize>() -> Option<usize> {
    if kani::any() {
        None
    } else {
        let m: usize = kani::any();
        kani::assume(m >= 1 && m <= N + 1);
        Some(m)
    }
}

fn run_half_life<const N: usize>(v: &Vec<f64>, mp: Option<usize>) -> usize {
    unsafe {
        SERIES_LEN = N;
        EXPECT_MP = mp.unwrap_or(N / 2);
        CALLS = 0;
        PENDING = false;
    }
    let r = v.half_life(mp);
    assert!(!unsafe { PENDING }, "half_life: no shifted copy left unused");
    r
}

/// (any) arbitrary autocorrelation table, incl. NaN and infinities
fn half_life_any<const N: usize>() {
    if native_run() {
        return;
    }
    let mut l = 1usize;
    while l < N {
        let c: f64 = kani::any();
        unsafe {
            TABLE[l] = c;
        }
        l += 1;
    }
    let v = ramp::<N>();
    let mp = any_mp::<N>();
    let r = run_half_life::<N>(&v, mp);
    if N < 2 {
        assert!(r == 0, "half_life: 0 for a series shorter than two");
    } else {
        assert!(r >= 1, "half_life: at least 1 for a series of two or more");
        assert!(r <= N - 1, "half_life: at most len-1");
    }
}

/// table above 0.5 exactly up to lag `lstar`; afterwards strictly below 0.5 (`strict`) or `<= 0.5` / NaN
fn half_life_profile<const N: usize>(lstar: usize, strict: bool) -> (usize, bool, bool) {
    if native_run() {
        return (if lstar + 1 < N - 1 { lstar + 1 } else { N - 1 }, false, false);
    }
    let (mut nan, mut tie) = (false, false);
    let mut l = 1usize;
    while l < N {
        let c: f64 = kani::any();
        if l <= lstar {
            kani::assume(c > 0.5);
        } else if strict {
            kani::assume(c < 0.5);
        } else {
            kani::assume(!(c > 0.5));
            nan |= c.is_nan();
            tie |= c == 0.5;
        }
        unsafe {
            TABLE[l] = c;
        }
        l += 1;
    }
    let v = ramp::<N>();
    let mp = any_mp::<N>();
    (run_half_life::<N>(&v, mp), nan, tie)
}

/// (wiring) every table "above 0.5 exactly up to lag L*, below afterwards", L* = 0..N-1, with the REAL `vshift`
/// (only the correlation is an oracle; it recovers the lag from the leading nulls of the shifted copy).
/// The tables are concrete (0.75 / 0.25 — half_life looks at a correlation only through `<= 0.5`, `< 0.5`,
/// `> 0.5` and `is_nan`), so that the lags stay concrete for CBMC.
fn half_life_wiring<const N: usize>() {
    if native_run() {
        return;
    }
    let v = ramp::<N>();
    let mp = any_mp::<N>();
    let mut lstar = 0usize;
    while lstar < N {
        let mut l = 1usize;
        while l < N {
            unsafe {
                TABLE[l] = if l <= lstar { 0.75 } else { 0.25 };
            }
            l += 1;
        }
        let r = run_half_life::<N>(&v, mp);
        let want = if lstar + 1 < N - 1 { lstar + 1 } else { N - 1 };
        assert!(r == want, "half_life (real vshift): the first lag whose autocorrelation is not above 0.5, capped at len-1");
        lstar += 1;
    }
}

macro_rules! half_life_h {
    (@covers small $nan:ident $tie:ident) => {};
    (@covers big $nan:ident $tie:ident) => {
        kani::cover!($nan, "a NaN autocorrelation after L*");
        kani::cover!($tie, "an autocorrelation of exactly 0.5 after L*");
    };
    ($n:expr, $unw:expr, $c:ident, $any:ident, $first:ident, $(#[$tm:meta])* $tie:ident) => {
        #[kani::proof]
        #[kani::stub(std::fmt::format, crate::util::fmt_stub)]
        #[kani::stub(tea_core::prelude::AggValidBasic::vcorr_pearson, StubAgg::vcorr_pearson_pending_oracle)]
        #[kani::stub(tea_map::MapValidBasic::vshift, StubMap::vshift_recorder)]
        #[kani::unwind($unw)]
        pub fn $any() {
            half_life_any::<$n>();
        }

        #[kani::proof]
        #[kani::stub(std::fmt::format, crate::util::fmt_stub)]
        #[kani::stub(tea_core::prelude::AggValidBasic::vcorr_pearson, StubAgg::vcorr_pearson_pending_oracle)]
        #[kani::stub(tea_map::MapValidBasic::vshift, StubMap::vshift_recorder)]
        #[kani::unwind($unw)]
        pub fn $first() {
            if native_run() {
                return;
            }
            let lstar: usize = kani::any();
            kani::assume(lstar < $n);
            kani::cover!(lstar == 0, "autocorrelation not above 0.5 already at lag 1");
            kani::cover!(lstar == $n - 1, "autocorrelation above 0.5 at every lag (capped at len-1)");
            let (r, _, _) = half_life_profile::<$n>(lstar, true);
            let want = if lstar + 1 < $n - 1 { lstar + 1 } else { $n - 1 };
            assert!(r == want, "half_life: the first lag whose autocorrelation is not above 0.5, capped at len-1");
        }

        $(#[$tm])*
        #[kani::proof]
        #[kani::stub(std::fmt::format, crate::util::fmt_stub)]
        #[kani::stub(tea_core::prelude::AggValidBasic::vcorr_pearson, StubAgg::vcorr_pearson_pending_oracle)]
        #[kani::stub(tea_map::MapValidBasic::vshift, StubMap::vshift_recorder)]
        #[kani::unwind($unw)]
        pub fn $tie() {
            // L* a power of two (or 0): the bisection then only ever moves its upper end, which keeps this
            // family independent of the upper-half bracket update checked by the `first` family
            if native_run() {
                return;
            }
            let lstar: usize = kani::any();
            kani::assume(lstar < $n);
            kani::assume(lstar == 0 || lstar == 1 || lstar == 2 || lstar == 4 || lstar == 8);
            let (r, nan, tie) = half_life_profile::<$n>(lstar, false);
            let want = if lstar + 1 < $n - 1 { lstar + 1 } else { $n - 1 };
            assert!(r == want, "half_life: a tie (== 0.5) or NaN counts as not above 0.5; first such lag, capped at len-1");
            half_life_h!(@covers $c nan tie);
        }
    };
}

// unwind bound (termination claim): the doubling loop runs at most floor(log2(N-1))+2 times, the bisection at
// most ceil(log2 N) times, every other loop (oracle, shifted iterator, harness loops) at most N times;
// N+4 covers all of them for N <= 9. An unwinding-assertion failure is reported as a violation (non-termination).
half_life_h!(2, 6, small, c20_half_life_any_n2, c20_half_life_first_n2, c20_half_life_tie_n2);
half_life_h!(3, 7, big, c20_half_life_any_n3, c20_half_life_first_n3, #[cfg(feature = "thorough")] c20_half_life_tie_n3);
half_life_h!(4, 8, big, c20_half_life_any_n4, c20_half_life_first_n4, #[cfg(feature = "thorough")] c20_half_life_tie_n4);
half_life_h!(5, 9, big, c20_half_life_any_n5, c20_half_life_first_n5, c20_half_life_tie_n5);
half_life_h!(6, 10, big, c20_half_life_any_n6, c20_half_life_first_n6, #[cfg(feature = "thorough")] c20_half_life_tie_n6);
half_life_h!(7, 11, big, c20_half_life_any_n7, c20_half_life_first_n7, #[cfg(feature = "thorough")] c20_half_life_tie_n7);
half_life_h!(8, 12, big, c20_half_life_any_n8, c20_half_life_first_n8, #[cfg(feature = "thorough")] c20_half_life_tie_n8);
half_life_h!(9, 13, big, c20_half_life_any_n9, c20_half_life_first_n9, c20_half_life_tie_n9);

macro_rules! wiring_h {
    ($($(#[$m:meta])* $name:ident: $n:expr, $unw:expr);* $(;)?) => {$(
        $(#[$m])*
        #[kani::proof]
        #[kani::stub(std::fmt::format, crate::util::fmt_stub)]
        #[kani::stub(tea_core::prelude::AggValidBasic::vcorr_pearson, StubAgg::vcorr_pearson_lag_oracle)]
        #[kani::unwind($unw)]
        pub fn $name() {
            half_life_wiring::<$n>();
        }
    )*};
}
wiring_h!(
    c20_half_life_wiring_n2: 2, 6;
    c20_half_life_wiring_n3: 3, 7;
    c20_half_life_wiring_n4: 4, 8;
    c20_half_life_wiring_n5: 5, 9;
    c20_half_life_wiring_n6: 6, 10;
    #[cfg(feature = "thorough")] c20_half_life_wiring_n7: 7, 11;
    #[cfg(feature = "thorough")] c20_half_life_wiring_n8: 8, 12;
);

#[kani::proof]
#[kani::stub(std::fmt::format, crate::util::fmt_stub)]
#[kani::stub(tea_core::prelude::AggValidBasic::vcorr_pearson, StubAgg::vcorr_pearson_pending_oracle)]
#[kani::stub(tea_map::MapValidBasic::vshift, StubMap::vshift_recorder)]
#[kani::unwind(5)]
pub fn c20_half_life_any_n0_n1() {
    half_life_any::<0>();
    half_life_any::<1>();
}

/// Native witnesses. Stubs exist only inside Kani, so a counterexample of the oracle harnesses cannot be
/// replayed natively. These two harnesses pair a concrete series with the table of ITS OWN autocorrelations:
/// under Kani the oracle answers from the table, in a native replay the real correlation computes the same
/// classes from the data — the same assertion is evaluated in both worlds.
fn half_life_witness<const N: usize>(data: [f64; N], table: [f64; N]) -> usize {
    let mut l = 1usize;
    while l < N {
        unsafe {
            TABLE[l] = table[l];
        }
        l += 1;
    }
    // None and Some(len/2) are the same request; the choice keeps one symbolic input for the replay generator
    let mp: Option<usize> = if kani::any() { None } else { Some(N / 2) };
    let v: Vec<f64> = data.to_vec();
    #[cfg(feature = "playback")]
    {
        // native run: the table really is the autocorrelation of the data (class by class)
        let mut l = 1usize;
        while l < N {
            let c: f64 = v.titer().vcorr_pearson(v.titer().vshift(l as i32, None), N / 2);
            assert!(c.is_nan() == table[l].is_nan() && (c > 0.5) == (table[l] > 0.5) && (c < 0.5) == (table[l] < 0.5),
                    "witness table does not describe the data");
            l += 1;
        }
    }
    run_half_life::<N>(&v, mp)
}

/// ramp 1..=5: autocorrelation 1 at lags 1..3, NaN (a single pair) at lag 4: the answer is 4 (= len-1)
#[kani::proof]
#[kani::stub(std::fmt::format, crate::util::fmt_stub)]
#[kani::stub(tea_core::prelude::AggValidBasic::vcorr_pearson, StubAgg::vcorr_pearson_lag_oracle)]
#[kani::unwind(9)]
pub fn c20_half_life_witness_ramp_n5() {
    let r = half_life_witness::<5>([1., 2., 3., 4., 5.], [1., 1., 1., 1., f64::NAN]);
    assert!(r == 4, "half_life([1,2,3,4,5]): autocorrelation above 0.5 at lags 1..3, null at lag 4: expected 4");
}

/// autocorrelation 0.58, 0.85, 0.53, 0.70 at lags 1..4, 0.09 at lag 5, NaN (fewer than len/2 pairs) from lag 6:
/// the first lag not above 0.5 is 5
#[kani::proof]
#[kani::stub(std::fmt::format, crate::util::fmt_stub)]
#[kani::stub(tea_core::prelude::AggValidBasic::vcorr_pearson, StubAgg::vcorr_pearson_lag_oracle)]
#[kani::unwind(13)]
pub fn c20_half_life_witness_nan_midpoint_n9() {
    let r = half_life_witness::<9>(
        [4., 2., 6., 6., 7., 7., 8., 7., 9.],
        [1., 0.58, 0.85, 0.53, 0.70, 0.09, f64::NAN, f64::NAN, f64::NAN],
    );
    assert!(r == 5, "half_life([4,2,6,6,7,7,8,7,9]): autocorrelation above 0.5 at lags 1..4, 0.09 at lag 5, null from lag 6: expected 5");
}

// ---------------------------------------------------------------------------------------------
// winsorize
// ---------------------------------------------------------------------------------------------

/// half-integer in lo/2 ..= hi/2 or NaN
fn half_or_nan(lo: i32, hi: i32) -> f64 {
    if kani::any() { f64::NAN } else { small_i32(lo, hi) as f64 * 0.5 }
}

pub struct WFlags {
    pub below: bool,
    pub above: bool,
    pub inside: bool,
    pub null: bool,
    pub one_sided: bool,
    pub unbounded: bool,
}

/// input of length N registered with the recorders
fn w_input<const N: usize>() -> [f64; N] {
    let mut x = [0.0f64; N];
    let mut i = 0usize;
    while i < N {
        x[i] = small_f64_or_nan(-9, 9);
        unsafe {
            W_DATA[i] = x[i];
        }
        i += 1;
    }
    unsafe {
        W_LEN = N;
        CALLS = 0;
    }
    x
}

/// clip semantics of `out` w.r.t. the interval [lo, hi] (a NaN bound = no bound on that side; lo <= hi)
fn check_clip<const N: usize>(x: &[f64; N], out: Box<dyn TrustedLen<Item = f64> + '_>, lo: f64, hi: f64) -> WFlags {
    let mut f = WFlags { below: false, above: false, inside: false, null: false, one_sided: lo.is_nan() != hi.is_nan(),
                         unbounded: lo.is_nan() && hi.is_nan() };
    assert!(out.len() == N, "winsorize: announces one value per input");
    let mut y = [0.0f64; N];
    let mut n = 0usize;
    for v in out {
        assert!(n < N, "winsorize: yields no more values than inputs");
        y[n] = v;
        n += 1;
    }
    assert!(n == N, "winsorize: yields one value per input");
    let mut i = 0usize;
    while i < N {
        if x[i].is_nan() {
            f.null = true;
            assert!(y[i].is_nan(), "winsorize: null stays null");
        } else if x[i] < lo {
            f.below = true;
            assert!(y[i] == lo, "winsorize: a value below the interval moves onto the lower bound");
        } else if x[i] > hi {
            f.above = true;
            assert!(y[i] == hi, "winsorize: a value above the interval moves onto the upper bound");
        } else {
            f.inside = true;
            assert!(y[i] == x[i], "winsorize: a value inside the interval is unchanged");
        }
        i += 1;
    }
    // order preserving
    let mut i = 0usize;
    while i < N {
        let mut j = 0usize;
        while j < N {
            if !x[i].is_nan() && !x[j].is_nan() && x[i] <= x[j] {
                assert!(y[i] <= y[j], "winsorize: order preserving on the non-null values");
            }
            j += 1;
        }
        i += 1;
    }
    f
}

/// the input must come back unchanged (degenerate branches)
fn check_unchanged<const N: usize>(x: &[f64; N], out: Box<dyn TrustedLen<Item = f64> + '_>) {
    assert!(out.len() == N, "winsorize (degenerate): announces one value per input");
    let mut n = 0usize;
    for v in out {
        assert!(n < N, "winsorize (degenerate): yields no more values than inputs");
        assert!(same_f64(v, x[n]), "winsorize (degenerate): input returned unchanged");
        n += 1;
    }
    assert!(n == N, "winsorize (degenerate): yields one value per input");
}

fn winsorize_quantile<const N: usize>() -> WFlags {
    if native_run() {
        return WFlags { below: false, above: false, inside: false, null: false, one_sided: false, unbounded: false };
    }
    let x = w_input::<N>();
    // q in {0, 0.05, .., 0.5} or omitted (0.01)
    let q: Option<f64> = if kani::any() { None } else { Some(small_i32(0, 10) as f64 * 0.05) };
    let (lo, hi) = (half_or_nan(-20, 20), half_or_nan(-20, 20));
    kani::assume(lo.is_nan() || hi.is_nan() || lo <= hi); // quantiles are monotone in q (C12)
    unsafe {
        W_Q = q.unwrap_or(0.01);
        W_LO = lo;
        W_HI = hi;
    }
    let v: Vec<f64> = x.to_vec();
    let out = v.winsorize(WinsorizeMethod::Quantile, q);
    assert!(out.is_ok(), "winsorize(Quantile): q in [0, 0.5] is accepted");
    let f = check_clip::<N>(&x, out.unwrap(), lo, hi);
    assert!(unsafe { CALLS } == 2, "winsorize(Quantile): two quantiles are computed");
    f
}

/// Median method. `med` (the recorder's answer to the first median) is CONCRETE per call: whether it is null
/// decides which boxed iterator type comes back, and CBMC explores the nested `Box<dyn TrustedLen>` recursion of
/// every type it cannot exclude syntactically (measured: with a symbolic null flag no answer / out of memory
/// even for the empty input). MAD, multiplier and data stay symbolic.
fn winsorize_median<const N: usize>(med: f64) -> WFlags {
    let nof = WFlags { below: false, above: false, inside: false, null: false, one_sided: false, unbounded: false };
    if native_run() {
        return nof;
    }
    let x = w_input::<N>();
    let k: Option<f64> = if kani::any() { None } else { Some(small_i32(0, 8) as f64 * 0.5) };
    let mad = half_or_nan(0, 12);
    unsafe {
        W_LO = med;
        W_HI = mad;
    }
    let v: Vec<f64> = x.to_vec();
    let out = v.winsorize(WinsorizeMethod::Median, k);
    assert!(out.is_ok(), "winsorize(Median): never an error");
    let out = out.unwrap();
    let kk = k.unwrap_or(3.);
    if med.is_nan() {
        check_unchanged::<N>(&x, out);
        assert!(unsafe { CALLS } == 1, "winsorize(Median): no MAD when there is no median");
        nof
    } else {
        let f = check_clip::<N>(&x, out, med - kk * mad, med + kk * mad);
        assert!(unsafe { CALLS } == 2, "winsorize(Median): median, then median of the absolute deviations");
        f
    }
}

/// Sigma method; `mean` and `var` (the recorder's answer) are CONCRETE per call for the same reason; `std` is
/// the exact square root of `var`.
fn winsorize_sigma<const N: usize>(mean: f64, var: f64, std: f64) -> WFlags {
    let nof = WFlags { below: false, above: false, inside: false, null: false, one_sided: false, unbounded: false };
    if native_run() {
        return nof;
    }
    let x = w_input::<N>();
    let k: Option<f64> = if kani::any() { None } else { Some(small_i32(0, 8) as f64 * 0.5) };
    unsafe {
        W_LO = mean;
        W_HI = var;
    }
    let v: Vec<f64> = x.to_vec();
    let out = v.winsorize(WinsorizeMethod::Sigma, k);
    assert!(out.is_ok(), "winsorize(Sigma): never an error");
    let out = out.unwrap();
    assert!(unsafe { CALLS } == 1, "winsorize(Sigma): one mean/variance computation");
    let kk = k.unwrap_or(3.);
    if mean.is_nan() || var.is_nan() || !(var > EPS) {
        check_unchanged::<N>(&x, out);
        nof
    } else {
        check_clip::<N>(&x, out, mean - kk * std, mean + kk * std)
    }
}

/// empty input: every method returns the empty sequence (bounds: whatever the recorders answer)
fn winsorize_empty(method: WinsorizeMethod, lo: f64, hi: f64) {
    if native_run() {
        return;
    }
    let k: Option<f64> = if kani::any() { None } else { Some(small_i32(0, 8) as f64 * 0.5) };
    unsafe {
        W_LEN = 0;
        CALLS = 0;
        W_Q = k.unwrap_or(0.01);
        W_LO = lo;
        W_HI = hi;
    }
    // not a Vec: creating a zero-capacity Vec inside a harness that also carries these stubs makes Kani 0.68
    // read the constant `RawVecInner::ZERO_CAP` as the bit pattern of a NaN (spurious dealloc failures)
    let v: [f64; 0] = [];
    let out = v.winsorize(method, k);
    assert!(out.is_ok(), "winsorize(empty input): no error");
    let mut out = out.unwrap();
    assert!(out.len() == 0, "winsorize(empty input): announces no value");
    assert!(out.next().is_none(), "winsorize(empty input): yields no value");
}

macro_rules! winsorize_h {
    (@covers full $f:ident) => {
        kani::cover!($f.below && $f.above && $f.inside, "values below, inside and above the interval");
        kani::cover!($f.null && $f.below, "a null next to a clipped value");
    };
    (@covers one $f:ident) => {
        kani::cover!($f.below, "a value below the interval");
        kani::cover!($f.above, "a value above the interval");
        kani::cover!($f.null, "a null");
    };
    (@covers none $f:ident) => {};
    ($($(#[$m:meta])* $q:ident, $med:ident, $sig:ident: $n:expr, $c:ident, $unw:expr);* $(;)?) => {$(
        $(#[$m])*
        #[kani::proof]
        #[kani::stub(std::fmt::format, crate::util::fmt_stub)]
        #[kani::stub(tea_agg::VecAggValidExt::vquantile, StubVecAgg::vquantile_recorder)]
        #[kani::unwind($unw)]
        pub fn $q() {
            let f = winsorize_quantile::<$n>();
            winsorize_h!(@covers $c f);
            kani::cover!(f.one_sided, "only one bound is non-null");
            kani::cover!(f.unbounded, "both bounds null (no valid data): unchanged");
        }

        $(#[$m])*
        #[kani::proof]
        #[kani::stub(std::fmt::format, crate::util::fmt_stub)]
        #[kani::stub(tea_agg::VecAggValidExt::vmedian, StubVecAgg::vmedian_recorder)]
        #[kani::unwind($unw)]
        pub fn $med() {
            // no median (all null): unchanged
            winsorize_median::<$n>(f64::NAN);
            let f = winsorize_median::<$n>(1.5);
            winsorize_h!(@covers $c f);
            kani::cover!(f.unbounded, "MAD null: unchanged");
        }

        $(#[$m])*
        #[kani::proof]
        #[kani::stub(std::fmt::format, crate::util::fmt_stub)]
        #[kani::stub(tea_core::prelude::AggValidBasic::vmean_var, StubAgg::vmean_var_recorder)]
        #[kani::unwind($unw)]
        pub fn $sig() {
            // degenerate answers: null mean, null variance, zero variance, variance exactly at the floor
            winsorize_sigma::<$n>(f64::NAN, 2.25, 1.5);
            winsorize_sigma::<$n>(0.5, f64::NAN, f64::NAN);
            winsorize_sigma::<$n>(0.5, 0.0, 0.0);
            winsorize_sigma::<$n>(0.5, EPS, 1e-7);
            // variance above the floor
            let f = winsorize_sigma::<$n>(0.5, 2.25, 1.5);
            winsorize_h!(@covers $c f);
        }
    )*};
}

winsorize_h!(
    #[cfg(feature = "thorough")] c20_winsorize_quantile_n1, c20_winsorize_median_n1, c20_winsorize_sigma_n1: 1, one, 5;
    c20_winsorize_quantile_n2, c20_winsorize_median_n2, c20_winsorize_sigma_n2: 2, one, 6;
    #[cfg(feature = "thorough")] c20_winsorize_quantile_n3, c20_winsorize_median_n3, c20_winsorize_sigma_n3: 3, full, 7;
    c20_winsorize_quantile_n4, c20_winsorize_median_n4, c20_winsorize_sigma_n4: 4, full, 8;
);

#[kani::proof]
#[kani::stub(std::fmt::format, crate::util::fmt_stub)]
#[kani::stub(tea_agg::VecAggValidExt::vquantile, StubVecAgg::vquantile_recorder)]
#[kani::unwind(4)]
pub fn c20_winsorize_quantile_n0() {
    winsorize_empty(WinsorizeMethod::Quantile, f64::NAN, f64::NAN);
    winsorize_empty(WinsorizeMethod::Quantile, -1.0, 2.5);
}

#[kani::proof]
#[kani::stub(std::fmt::format, crate::util::fmt_stub)]
#[kani::stub(tea_agg::VecAggValidExt::vmedian, StubVecAgg::vmedian_recorder)]
#[kani::unwind(4)]
pub fn c20_winsorize_median_n0() {
    winsorize_empty(WinsorizeMethod::Median, f64::NAN, f64::NAN);
}

#[kani::proof]
#[kani::stub(std::fmt::format, crate::util::fmt_stub)]
#[kani::stub(tea_core::prelude::AggValidBasic::vmean_var, StubAgg::vmean_var_recorder)]
#[kani::unwind(4)]
pub fn c20_winsorize_sigma_n0() {
    winsorize_empty(WinsorizeMethod::Sigma, f64::NAN, f64::NAN);
    winsorize_empty(WinsorizeMethod::Sigma, 0.5, 2.25);
}

/// end to end, nothing stubbed: `winsorize(Quantile, 0.25)` of [a, null, b] (every placement of the null) clips to the
/// 0.25- and 0.75-quantile of the two valid values. The stubbed harnesses above decide the wiring for every input; this one
/// ties the wiring to the real `vquantile` on a series WITH a null (added after seeded change C20-m4, a defect of `vquantile`
/// that only C12 / C08 saw).
fn winsorize_e2e(pos: usize) {
    let (a, b) = (small_i32(-8, 8), small_i32(-8, 8));
    let (af, bf) = (a as f64, b as f64);
    let x: [f64; 3] = match pos {
        0 => [f64::NAN, af, bf],
        1 => [af, f64::NAN, bf],
        _ => [af, bf, f64::NAN],
    };
    let (lo_v, hi_v) = if af <= bf { (af, bf) } else { (bf, af) };
    let lo = lo_v + (hi_v - lo_v) * 0.25;
    let hi = lo_v + (hi_v - lo_v) * 0.75;
    let v = x.to_vec();
    match v.winsorize(WinsorizeMethod::Quantile, Some(0.25)) {
        Ok(out) => {
            let f = check_clip::<3>(&x, out, lo, hi);
            kani::cover!(f.below && f.above, "both valid values are clipped");
        },
        Err(e) => {
            std::mem::forget(e);
            assert!(false, "winsorize(Quantile): no error on two valid values");
        },
    }
}

#[kani::proof]
#[kani::stub(std::fmt::format, crate::util::fmt_stub)]
#[kani::unwind(8)]
pub fn c20_winsorize_quantile_e2e_null_first() {
    winsorize_e2e(0);
}

#[kani::proof]
#[kani::stub(std::fmt::format, crate::util::fmt_stub)]
#[kani::unwind(8)]
pub fn c20_winsorize_quantile_e2e_null_mid() {
    winsorize_e2e(1);
}

// ---------------------------------------------------------------------------------------------
// Spearman = Pearson of the average ranks; ranks depend on the order relation only
// ---------------------------------------------------------------------------------------------

/// two Option<i32> series with the same null positions and the same order relation have identical ranks
fn rank_relational<const N: usize>() -> (bool, bool) {
    let a: [Option<i32>; N] = kani::any();
    let b: [Option<i32>; N] = kani::any();
    let (mut tie, mut null) = (false, false);
    let mut i = 0usize;
    while i < N {
        kani::assume(a[i].is_none() == b[i].is_none());
        null |= a[i].is_none();
        let mut j = 0usize;
        while j < N {
            if let (Some(ai), Some(aj), Some(bi), Some(bj)) = (a[i], a[j], b[i], b[j]) {
                kani::assume((ai < aj) == (bi < bj));
                kani::assume((ai == aj) == (bi == bj));
                tie |= i != j && ai == aj;
            }
            j += 1;
        }
        i += 1;
    }
    let (va, vb) = (a.to_vec(), b.to_vec());
    let ra: Vec<f64> = va.vrank(false, false);
    let rb: Vec<f64> = vb.vrank(false, false);
    assert!(ra.len() == N && rb.len() == N, "vrank: one rank per element");
    let mut i = 0usize;
    while i < N {
        assert!(same_f64(ra[i], rb[i]), "vrank: depends on the order relation only (invariant under increasing maps)");
        // "the average ranks" of the Spearman clause: 2 * rank = 2 * #smaller + #equal + 1 (added after seeded change C20-m3)
        match a[i] {
            None => assert!(ra[i] != ra[i], "vrank: a null element has a null rank"),
            Some(x) => {
                let (mut less, mut eq) = (0usize, 0usize);
                let mut j = 0usize;
                while j < N {
                    if let Some(y) = a[j] {
                        if y < x {
                            less += 1;
                        } else if y == x {
                            eq += 1;
                        }
                    }
                    j += 1;
                }
                assert!(ra[i] * 2.0 == (2 * less + eq + 1) as f64, "vrank: the rank is the average rank of the tie group");
            },
        }
        i += 1;
    }
    (tie, null)
}

macro_rules! rank_h {
    ($($(#[$m:meta])* $name:ident: $n:expr, $unw:expr);* $(;)?) => {$(
        $(#[$m])*
        #[kani::proof]
        #[kani::stub(std::fmt::format, crate::util::fmt_stub)]
        #[kani::unwind($unw)]
        pub fn $name() {
            let (tie, null) = rank_relational::<$n>();
            kani::cover!(tie, "a tie");
            kani::cover!(null, "a null");
        }
    )*};
}

rank_h!(
    c20_rank_relational_n2: 2, 6;
    c20_rank_relational_n3: 3, 7;
    #[cfg(feature = "thorough")] c20_rank_relational_n4: 4, 8;
);

/// `vcorr(.., Spearman)` hands the two rank vectors and min_periods (default len/2) to Pearson, returns its answer
fn spearman_wiring<const N: usize>() {
    if native_run() {
        return;
    }
    let a: [Option<i32>; N] = kani::any();
    let b: [Option<i32>; N] = kani::any();
    let mp = any_mp::<N>();
    let ret: f64 = kani::any();
    unsafe {
        CALLS = 0;
        REC_RET = ret;
    }
    let (va, vb) = (a.to_vec(), b.to_vec());
    let r: Option<f64> = va.vcorr(&vb, mp, CorrMethod::Spearman);
    let (la, lb, m, calls) = unsafe { (REC_LEN_A, REC_LEN_B, REC_MP, CALLS) };
    assert!(calls == 1, "vcorr(Spearman): exactly one Pearson correlation");
    assert!(la == N && lb == N, "vcorr(Spearman): Pearson sees one rank per element of each series");
    assert!(m == mp.unwrap_or(N / 2), "vcorr(Spearman): min_periods (default len/2) is passed on");
    let ra: Vec<f64> = va.vrank(false, false);
    let rb: Vec<f64> = vb.vrank(false, false);
    let mut i = 0usize;
    while i < N {
        let (xa, xb) = unsafe { (REC_A[i], REC_B[i]) };
        assert!(same_f64(xa, ra[i]), "vcorr(Spearman): first Pearson argument is vrank(self)");
        assert!(same_f64(xb, rb[i]), "vcorr(Spearman): second Pearson argument is vrank(other)");
        i += 1;
    }
    let want: Option<f64> = if ret.is_nan() { None } else { Some(ret) };
    assert!(r == want, "vcorr(Spearman): returns the Pearson correlation of the ranks");
}

macro_rules! spearman_h {
    ($($(#[$m:meta])* $name:ident: $n:expr, $unw:expr);* $(;)?) => {$(
        $(#[$m])*
        #[kani::proof]
        #[kani::stub(std::fmt::format, crate::util::fmt_stub)]
        #[kani::stub(tea_core::prelude::AggValidBasic::vcorr_pearson, StubAgg::vcorr_pearson_recorder)]
        #[kani::unwind($unw)]
        pub fn $name() {
            spearman_wiring::<$n>();
        }
    )*};
}

spearman_h!(
    c20_spearman_wiring_n0: 0, 4;
    c20_spearman_wiring_n2: 2, 6;
    #[cfg(feature = "thorough")] c20_spearman_wiring_n3: 3, 7;
);
