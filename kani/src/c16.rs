//! C16 — NaT is absorbing, unit changes agree with the calendar (floor toward the past).
use tea_dtype::Cast;
use tea_time::unit::*;
use tea_time::{DateTime, TimeUnitTrait};

fn per_sec<U: TimeUnitTrait>() -> i64 {
    use tea_time::TimeUnit::*;
    match U::unit() {
        Second => 1,
        Millisecond => 1_000,
        Microsecond => 1_000_000,
        Nanosecond => 1_000_000_000,
        _ => unreachable!(),
    }
}

/// NaT converts to NaT for every unit pair.
fn nat_law<F: TimeUnitTrait, T: TimeUnitTrait>() {
    let y: DateTime<T> = DateTime::<F>::nat().into_unit::<T>();
    assert!(y.is_nat(), "NaT must convert to NaT");
    let o: Option<i64> = DateTime::<F>::nat().into_opt_i64();
    assert!(o.is_none(), "NaT has no integer value");
}

/// Coarser target: the instant truncated toward the past — chrono's documented contract for
/// `timestamp_millis()/micros()/nanos()/timestamp()` is the floor of the instant in that unit.
fn coarser_law<F: TimeUnitTrait, T: TimeUnitTrait>() {
    let v: i64 = kani::any();
    kani::assume(v != i64::MIN);
    let r = per_sec::<F>() / per_sec::<T>();
    // Bound (stated in evidence): a 64-bit divider against any independent statement of "floor"
    // (second divider, or 128-bit multiplication) does not come back from the SAT back end within
    // 300 s; the full-range law is discharged by Engine M over mathematical integers instead.
    kani::assume(v > -(r << 12) && v < (r << 12));
    let y: DateTime<T> = DateTime::<F>::new(v).into_unit::<T>();
    kani::cover!(v < 0 && v % r != 0, "negative non-divisible");
    kani::cover!(v > 0 && v % r != 0, "positive non-divisible");
    // floor without a second divider circuit: y is the floor of v/r iff y*r <= v < (y+1)*r
    let (yy, vv, rr) = (y.0, v, r);
    assert!(yy > -(1 << 13) && yy < (1 << 13), "quotient in range");
    assert!(yy * rr <= vv && vv < (yy + 1) * rr, "coarser unit truncates toward the past (floor)");
    assert!(!y.is_nat(), "valid stays valid");
}

/// Finer (or same) target: exact multiplication whenever the instant is representable.
fn finer_law<F: TimeUnitTrait, T: TimeUnitTrait>() {
    let v: i64 = kani::any();
    let r = per_sec::<T>() / per_sec::<F>();
    // representable range of the finer unit, as constants (no symbolic overflow detection needed)
    kani::assume(v >= -(i64::MAX / r) && v <= i64::MAX / r);
    let y: DateTime<T> = DateTime::<F>::new(v).into_unit::<T>();
    kani::cover!(v < 0, "negative");
    kani::cover!(v == i64::MAX / r, "upper limit");
    assert!(y.0 == v.wrapping_mul(r), "finer unit is exact multiplication");
}

/// Finer-then-back is the identity. It is the composition of finer_law and coarser_law
/// (floor(v*r / r) == v); the 64-bit multiply-then-divide circuit does not come back from the SAT
/// solver at full width, so the composed form is asserted on |v| < 2^20 (ratio 10^3) / 2^7 (ratios 10^6, 10^9) only.
fn roundtrip_law<F: TimeUnitTrait, T: TimeUnitTrait>() {
    let v: i64 = kani::any();
    let r = per_sec::<T>() / per_sec::<F>();
    let lim: i64 = if r == 1000 { 1 << 20 } else { 1 << 7 };
    kani::assume(v > -lim && v < lim);
    let y: DateTime<T> = DateTime::<F>::new(v).into_unit::<T>();
    let back: DateTime<F> = y.into_unit::<F>();
    kani::cover!(v < 0, "negative");
    assert!(back.0 == v, "finer-then-back identity");
}

#[kani::proof]
pub fn c16_nat_ns_ns() {
    nat_law::<Nanosecond, Nanosecond>()
}

#[kani::proof]
pub fn c16_nat_ns_us() {
    nat_law::<Nanosecond, Microsecond>()
}

#[kani::proof]
pub fn c16_nat_ns_ms() {
    nat_law::<Nanosecond, Millisecond>()
}

#[kani::proof]
pub fn c16_nat_ns_s() {
    nat_law::<Nanosecond, Second>()
}

#[kani::proof]
pub fn c16_nat_us_ns() {
    nat_law::<Microsecond, Nanosecond>()
}

#[kani::proof]
pub fn c16_nat_us_us() {
    nat_law::<Microsecond, Microsecond>()
}

#[kani::proof]
pub fn c16_nat_us_ms() {
    nat_law::<Microsecond, Millisecond>()
}

#[kani::proof]
pub fn c16_nat_us_s() {
    nat_law::<Microsecond, Second>()
}

#[kani::proof]
pub fn c16_nat_ms_ns() {
    nat_law::<Millisecond, Nanosecond>()
}

#[kani::proof]
pub fn c16_nat_ms_us() {
    nat_law::<Millisecond, Microsecond>()
}

#[kani::proof]
pub fn c16_nat_ms_ms() {
    nat_law::<Millisecond, Millisecond>()
}

#[kani::proof]
pub fn c16_nat_ms_s() {
    nat_law::<Millisecond, Second>()
}

#[kani::proof]
pub fn c16_nat_s_ns() {
    nat_law::<Second, Nanosecond>()
}

#[kani::proof]
pub fn c16_nat_s_us() {
    nat_law::<Second, Microsecond>()
}

#[kani::proof]
pub fn c16_nat_s_ms() {
    nat_law::<Second, Millisecond>()
}

#[kani::proof]
pub fn c16_nat_s_s() {
    nat_law::<Second, Second>()
}

#[kani::proof]
pub fn c16_floor_ns_us() {
    coarser_law::<Nanosecond, Microsecond>()
}

#[kani::proof]
pub fn c16_floor_ns_ms() {
    coarser_law::<Nanosecond, Millisecond>()
}

#[kani::proof]
pub fn c16_floor_ns_s() {
    coarser_law::<Nanosecond, Second>()
}

#[kani::proof]
pub fn c16_floor_us_ms() {
    coarser_law::<Microsecond, Millisecond>()
}

#[kani::proof]
pub fn c16_floor_us_s() {
    coarser_law::<Microsecond, Second>()
}

#[kani::proof]
pub fn c16_floor_ms_s() {
    coarser_law::<Millisecond, Second>()
}

#[kani::proof]
pub fn c16_mul_ns_ns() {
    finer_law::<Nanosecond, Nanosecond>()
}

#[kani::proof]
pub fn c16_mul_us_us() {
    finer_law::<Microsecond, Microsecond>()
}

#[kani::proof]
pub fn c16_mul_ms_ms() {
    finer_law::<Millisecond, Millisecond>()
}

#[kani::proof]
pub fn c16_mul_s_s() {
    finer_law::<Second, Second>()
}

#[kani::proof]
pub fn c16_mul_us_ns() {
    finer_law::<Microsecond, Nanosecond>()
}

#[kani::proof]
pub fn c16_mul_ms_ns() {
    finer_law::<Millisecond, Nanosecond>()
}

#[kani::proof]
pub fn c16_mul_ms_us() {
    finer_law::<Millisecond, Microsecond>()
}

#[kani::proof]
pub fn c16_mul_s_ns() {
    finer_law::<Second, Nanosecond>()
}

#[kani::proof]
pub fn c16_mul_s_us() {
    finer_law::<Second, Microsecond>()
}

#[kani::proof]
pub fn c16_mul_s_ms() {
    finer_law::<Second, Millisecond>()
}

#[kani::proof]
pub fn c16_back_us_ns() {
    roundtrip_law::<Microsecond, Nanosecond>()
}

#[kani::proof]
pub fn c16_back_ms_ns() {
    roundtrip_law::<Millisecond, Nanosecond>()
}

#[kani::proof]
pub fn c16_back_ms_us() {
    roundtrip_law::<Millisecond, Microsecond>()
}

#[kani::proof]
pub fn c16_back_s_ns() {
    roundtrip_law::<Second, Nanosecond>()
}

#[kani::proof]
pub fn c16_back_s_us() {
    roundtrip_law::<Second, Microsecond>()
}

#[kani::proof]
pub fn c16_back_s_ms() {
    roundtrip_law::<Second, Millisecond>()
}

include!("c16_nat.rs");
