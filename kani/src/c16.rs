//! C16 — NaT is absorbing, unit changes agree with the calendar (floor toward the past).
use tea_dtype::Cast;
use tea_time::unit::*;
use tea_time::{DateTime, TimeUnitTrait};

fn per_sec<U: TimeUnitTrait>() -> i64 {
    use tea_time::TimeUnit::*;
    match U::unit() {
        Second => 1,
        Millisecond => 1_000,
        Microsecond => 1_000_000,
        Nanosecond => 1_000_000_000,
        _ => unreachable!(),
    }
}

/// NaT converts to NaT for every unit pair.
fn nat_law<F: TimeUnitTrait, T: TimeUnitTrait>() {
    let y: DateTime<T> = DateTime::<F>::nat().into_unit::<T>();
    assert!(y.is_nat(), "NaT must convert to NaT");
    let o: Option<i64> = DateTime::<F>::nat().into_opt_i64();
    assert!(o.is_none(), "NaT has no integer value");
}

/// Coarser target: the instant truncated toward the past — chrono's documented contract for
/// `timestamp_millis()/micros()/nanos()/timestamp()` is the floor of the instant in that unit.
fn coarser_law<F: TimeUnitTrait, T: TimeUnitTrait>() {
    let v: i64 = kani::any();
    kani::assume(v != i64::MIN);
    let r = per_sec::<F>() / per_sec::<T>();
    // Bound (stated in evidence): a 64-bit divider against any independent statement of "floor"
    // (second divider, or 128-bit multiplication) does not come back from the SAT back end within
    // 300 s; the full-range law is discharged by Engine M over mathematical integers instead.
    kani::assume(v > -(r << 12) && v < (r << 12));
    let y: DateTime<T> = DateTime::<F>::new(v).into_unit::<T>();
    kani::cover!(v < 0 && v % r != 0, "negative non-divisible");
    kani::cover!(v > 0 && v % r != 0, "positive non-divisible");
    // floor without a second divider circuit: y is the floor of v/r iff y*r <= v < (y+1)*r
    let (yy, vv, rr) = (y.0, v, r);
    assert!(yy > -(1 << 13) && yy < (1 << 13), "quotient in range");
    assert!(yy * rr <= vv && vv < (yy + 1) * rr, "coarser unit truncates toward the past (floor)");
    assert!(!y.is_nat(), "valid stays valid");
}

/// Finer (or same) target: exact multiplication whenever the instant is representable.
fn finer_law<F: TimeUnitTrait, T: TimeUnitTrait>() {
    let v: i64 = kani::any();
    let r = per_sec::<T>() / per_sec::<F>();
    // representable range of the finer unit, as constants (no symbolic overflow detection needed)
    kani::assume(v >= -(i64::MAX / r) && v <= i64::MAX / r);
    let y: DateTime<T> = DateTime::<F>::new(v).into_unit::<T>();
    kani::cover!(v < 0, "negative");
    kani::cover!(v == i64::MAX / r, "upper limit");
    assert!(y.0 == v.wrapping_mul(r), "finer unit is exact multiplication");
}

/// Finer-then-back is the identity. It is the composition of finer_law and coarser_law
/// (floor(v*r / r) == v); the 64-bit multiply-then-divide circuit does not come back from the SAT
/// solver at full width, so the composed form is asserted on |v| < 2^20 (ratio 10^3) / 2^7 (ratios 10^6, 10^9) only.
fn roundtrip_law<F: TimeUnitTrait, T: TimeUnitTrait>() {
    let v: i64 = kani::any();
    let r = per_sec::<T>() / per_sec::<F>();
    let lim: i64 = if r == 1000 { 1 << 20 } else { 1 << 7 };
    kani::assume(v > -lim && v < lim);
    let y: DateTime<T> = DateTime::<F>::new(v).into_unit::<T>();
    let back: DateTime<F> = y.into_unit::<F>();
    kani::cover!(v < 0, "negative");
    assert!(back.0 == v, "finer-then-back identity");
}

macro_rules! h {
    ($law:ident: $($name:ident: $f:ident => $t:ident),* $(,)?) => {$(
        #[kani::proof]
        pub fn $name() { $law::<$f, $t>() }
    )*};
}

h!(nat_law:
    c16_nat_ns_ns: Nanosecond => Nanosecond,
    c16_nat_ns_us: Nanosecond => Microsecond,
    c16_nat_ns_ms: Nanosecond => Millisecond,
    c16_nat_ns_s: Nanosecond => Second,
    c16_nat_us_ns: Microsecond => Nanosecond,
    c16_nat_us_us: Microsecond => Microsecond,
    c16_nat_us_ms: Microsecond => Millisecond,
    c16_nat_us_s: Microsecond => Second,
    c16_nat_ms_ns: Millisecond => Nanosecond,
    c16_nat_ms_us: Millisecond => Microsecond,
    c16_nat_ms_ms: Millisecond => Millisecond,
    c16_nat_ms_s: Millisecond => Second,
    c16_nat_s_ns: Second => Nanosecond,
    c16_nat_s_us: Second => Microsecond,
    c16_nat_s_ms: Second => Millisecond,
    c16_nat_s_s: Second => Second,
);
h!(coarser_law:
    c16_floor_ns_us: Nanosecond => Microsecond,
    c16_floor_ns_ms: Nanosecond => Millisecond,
    c16_floor_ns_s: Nanosecond => Second,
    c16_floor_us_ms: Microsecond => Millisecond,
    c16_floor_us_s: Microsecond => Second,
    c16_floor_ms_s: Millisecond => Second,
);
h!(finer_law:
    c16_mul_ns_ns: Nanosecond => Nanosecond,
    c16_mul_us_us: Microsecond => Microsecond,
    c16_mul_ms_ms: Millisecond => Millisecond,
    c16_mul_s_s: Second => Second,
    c16_mul_us_ns: Microsecond => Nanosecond,
    c16_mul_ms_ns: Millisecond => Nanosecond,
    c16_mul_ms_us: Millisecond => Microsecond,
    c16_mul_s_ns: Second => Nanosecond,
    c16_mul_s_us: Second => Microsecond,
    c16_mul_s_ms: Second => Millisecond,
);
h!(roundtrip_law:
    c16_back_us_ns: Microsecond => Nanosecond,
    c16_back_ms_ns: Millisecond => Nanosecond,
    c16_back_ms_us: Millisecond => Microsecond,
    c16_back_s_ns: Second => Nanosecond,
    c16_back_s_us: Second => Microsecond,
    c16_back_s_ms: Second => Millisecond,
);
