//! C11 — aggregations equal their textbook definitions over the non-null elements (Engine K part).
//!
//! Shape of every harness: the input is described by an array of integer *keys* `[Option<i32>; N]`
//! (`None` = null); the element array handed to tevec is derived from it (`Option<i32>` as is,
//! `Option<i64>` widened, `f64` as `key as f64` / NaN, `i32` for null-free series). Oracles work on
//! the keys only and are written as definitions: a count is a plain loop, a minimum is "attained and
//! a lower bound of every valid key", an arg-minimum is "a valid position, nothing valid below it,
//! nothing valid equal to it before it".
//!
//! Iterator sources (`mk` closures build a fresh iterator for every call):
//!   own  — the owned `Vec<E>` (`into_iter`)
//!   tit  — `vec.titer()`
//!   opt  — `&vec.opt()` (`OptIter`, boxed trusted iterator, items `Option<E::Inner>`)
//!   optt — `vec.opt().titer()` (the double-ended form, needed by `vlast` / `last`)
//!
//! Families: `fam_valid_cmp` (+ `fam_valid_last`), `fam_valid_sum`, `fam_plain_cmp`, `fam_plain_sum`,
//! `fam_plain_cmp_f64`, `fam_bool_*`, `fam_masked`, `perm_*` (relational: symbolic transposition),
//! `fold_protocol` / `fold2_protocol` (recording closures; Engine M's loop summaries rest on them,
//! DESIGN 1.3; harness names `c11_fold_protocol_*`).
//!
//! Harness size: CBMC time grows much faster than linearly with the amount of instantiated code in
//! one harness (three lengths in one harness cost 5-9x one length), so there is one length per
//! harness beyond the cheap families; tools/gen_c11.py assigns lengths to tiers.
//!
//! Isolated (suspected defect of the pinned tree, see `plain_extrema_nan`): `c11_plain_nan_{min,max,
//! argmin,argmax}_*` — the null-unaware `min / max / argmin / argmax` on a float series whose FIRST
//! element is NaN return NaN / position 0, while a NaN in any later position is skipped.
use tea_agg::AggValidExt;
use tea_core::prelude::*;

use crate::util::*;

// ---------------------------------------------------------------------------------------------
// keys, elements
// ---------------------------------------------------------------------------------------------

#[derive(Clone, Copy, PartialEq)]
pub enum Alpha {
    /// -2..=2: forces ties
    Small,
    /// unconstrained i32
    Any,
    /// -1000..=1000: i32 sums cannot overflow
    Sum,
}

pub fn keys<const N: usize>(alpha: Alpha, nullable: bool) -> [Option<i32>; N] {
    let mut k = [Some(0); N];
    let mut i = 0;
    while i < N {
        let v: i32 = match alpha {
            Alpha::Small => small_i32(-2, 2),
            Alpha::Any => kani::any(),
            Alpha::Sum => small_i32(-1000, 1000),
        };
        k[i] = if nullable && kani::any() { None } else { Some(v) };
        i += 1;
    }
    k
}

/// inner (never-null) value types: exact images of i32 / i64 integers
pub trait IKey: Copy + PartialOrd {
    fn of(v: i32) -> Self;
    /// `v` is a sum of at most 5 keys and fits the type by the choice of alphabet
    fn of64(v: i64) -> Self;
}
impl IKey for i32 {
    fn of(v: i32) -> Self {
        v
    }
    fn of64(v: i64) -> Self {
        v as i32
    }
}
impl IKey for i64 {
    fn of(v: i32) -> Self {
        v as i64
    }
    fn of64(v: i64) -> Self {
        v
    }
}
impl IKey for f64 {
    fn of(v: i32) -> Self {
        v as f64
    }
    fn of64(v: i64) -> Self {
        v as f64
    }
}

/// element types; nullness is judged by the harness' own definition (NaN / None), not by `IsNone`
pub trait Elt: Copy + IsNone + 'static
where
    Self::Inner: IKey,
{
    /// for the never-null element types the key must be `Some`
    fn from_key(k: Option<i32>) -> Self;
    fn is_key(self, k: Option<i32>) -> bool;
}

impl Elt for i32 {
    fn from_key(k: Option<i32>) -> Self {
        match k {
            Some(v) => v,
            None => 0,
        }
    }
    fn is_key(self, k: Option<i32>) -> bool {
        k == Some(self)
    }
}
impl Elt for i64 {
    fn from_key(k: Option<i32>) -> Self {
        match k {
            Some(v) => v as i64,
            None => 0,
        }
    }
    fn is_key(self, k: Option<i32>) -> bool {
        match k {
            Some(v) => self == v as i64,
            None => false,
        }
    }
}
impl Elt for Option<i32> {
    fn from_key(k: Option<i32>) -> Self {
        k
    }
    fn is_key(self, k: Option<i32>) -> bool {
        self == k
    }
}
impl Elt for Option<i64> {
    fn from_key(k: Option<i32>) -> Self {
        match k {
            Some(v) => Some(v as i64),
            None => None,
        }
    }
    fn is_key(self, k: Option<i32>) -> bool {
        match (self, k) {
            (None, None) => true,
            (Some(a), Some(b)) => a == b as i64,
            _ => false,
        }
    }
}
impl Elt for f64 {
    fn from_key(k: Option<i32>) -> Self {
        match k {
            Some(v) => v as f64,
            None => f64::NAN,
        }
    }
    fn is_key(self, k: Option<i32>) -> bool {
        match k {
            None => self != self,
            Some(b) => self == b as f64,
        }
    }
}
impl Elt for Option<f64> {
    fn from_key(k: Option<i32>) -> Self {
        match k {
            Some(v) => Some(v as f64),
            None => None,
        }
    }
    fn is_key(self, k: Option<i32>) -> bool {
        match (self, k) {
            (None, None) => true,
            (Some(a), Some(b)) => a == b as f64,
            _ => false,
        }
    }
}

pub fn to_vec<E: Elt, const N: usize>(k: &[Option<i32>; N]) -> Vec<E>
where
    E::Inner: IKey,
{
    // array first, then one exact allocation + copy (no growth path of `push` for CBMC)
    let mut a = [E::from_key(Some(0)); N];
    let mut i = 0;
    while i < N {
        a[i] = E::from_key(k[i]);
        i += 1;
    }
    a.to_vec()
}

// ---------------------------------------------------------------------------------------------
// definitions on keys
// ---------------------------------------------------------------------------------------------

pub fn n_valid<const N: usize>(k: &[Option<i32>; N]) -> usize {
    let mut n = 0;
    let mut i = 0;
    while i < N {
        if k[i].is_some() {
            n += 1;
        }
        i += 1;
    }
    n
}

pub fn sum_valid<const N: usize>(k: &[Option<i32>; N]) -> i64 {
    let mut s = 0i64;
    let mut i = 0;
    while i < N {
        if let Some(x) = k[i] {
            s += x as i64;
        }
        i += 1;
    }
    s
}

pub fn n_equal<const N: usize>(k: &[Option<i32>; N], val: Option<i32>) -> usize {
    let mut n = 0;
    let mut i = 0;
    while i < N {
        if k[i] == val {
            n += 1;
        }
        i += 1;
    }
    n
}

/// position of the first / last valid key
pub fn first_valid<const N: usize>(k: &[Option<i32>; N]) -> Option<usize> {
    let mut i = 0;
    while i < N {
        if k[i].is_some() {
            return Some(i);
        }
        i += 1;
    }
    None
}

pub fn last_valid<const N: usize>(k: &[Option<i32>; N]) -> Option<usize> {
    let mut i = N;
    while i > 0 {
        i -= 1;
        if k[i].is_some() {
            return Some(i);
        }
    }
    None
}

/// `m` is the minimum (maximum for `max`) of the valid keys: attained, and a bound of every valid key
pub fn is_extremum<X: IKey, const N: usize>(k: &[Option<i32>; N], m: X, max: bool) -> bool {
    let mut attained = false;
    let mut bound = true;
    let mut i = 0;
    while i < N {
        if let Some(y) = k[i] {
            let y = X::of(y);
            if y == m {
                attained = true;
            }
            if (!max && y < m) || (max && y > m) {
                bound = false;
            }
        }
        i += 1;
    }
    attained && bound
}

/// `r` is the position of the first minimum (maximum) among the valid keys; `None` iff no key is valid
pub fn is_arg_extremum<const N: usize>(k: &[Option<i32>; N], r: Option<usize>, max: bool) -> bool {
    match r {
        None => n_valid(k) == 0,
        Some(p) => {
            if p >= N {
                return false;
            }
            let m = match k[p] {
                Some(m) => m,
                None => return false,
            };
            let mut ok = true;
            let mut i = 0;
            while i < N {
                if let Some(y) = k[i] {
                    let beats = if max { y > m } else { y < m };
                    if beats || (y == m && i < p) {
                        ok = false;
                    }
                }
                i += 1;
            }
            ok
        },
    }
}

#[derive(Default)]
pub struct Fl {
    /// a null and a valid element in the same series
    pub mixed: bool,
    /// the minimum or the maximum occurs at least twice
    pub tie: bool,
    /// N > 0 and no valid element
    pub all_null: bool,
    /// a null in the first slot and a valid element behind it
    pub null_first: bool,
}

pub fn witness<const N: usize>(k: &[Option<i32>; N], fl: &mut Fl) {
    let nv = n_valid(k);
    if nv > 0 && nv < N {
        fl.mixed = true;
    }
    if N > 0 && nv == 0 {
        fl.all_null = true;
    }
    if N > 0 && k[0].is_none() && nv > 0 {
        fl.null_first = true;
    }
    let mut i = 0;
    while i < N {
        if let Some(x) = k[i] {
            if is_extremum::<i32, N>(k, x, false) || is_extremum::<i32, N>(k, x, true) {
                let mut j = i + 1;
                while j < N {
                    if k[j] == Some(x) {
                        fl.tie = true;
                    }
                    j += 1;
                }
            }
        }
        i += 1;
    }
}

// ---------------------------------------------------------------------------------------------
// null-aware comparison family: counts, first, extrema, arg-extrema
// ---------------------------------------------------------------------------------------------

pub fn fam_valid_cmp<E: Elt, I: IntoIterator<Item = E>, const N: usize>(k: &[Option<i32>; N], mk: impl Fn() -> I, fl: &mut Fl)
where
    E::Inner: IKey + Number,
{
    let nv = n_valid(k);
    witness(k, fl);
    assert!(AggValidBasic::count_valid(mk()) == nv, "count_valid is the number of non-null elements");
    assert!(AggValidBasic::count_none(mk()) == N - nv, "count_none is the number of null elements");
    // searched value: null, or any value of the alphabet (it need not occur)
    let val: Option<i32> = if kani::any() { None } else { Some(kani::any()) };
    assert!(
        AggValidBasic::vcount_value(mk(), E::from_key(val)) == n_equal(k, val),
        "vcount_value counts the elements equal to the value (null counts the nulls)"
    );
    match AggValidBasic::vfirst(mk()) {
        None => assert!(nv == 0, "vfirst is null only when no element is valid"),
        Some(e) => match first_valid(k) {
            None => assert!(false, "vfirst is null when no element is valid"),
            Some(p) => assert!(e.is_key(k[p]), "vfirst is the first non-null element"),
        },
    }
    match AggBasic::first(mk()) {
        None => assert!(N == 0, "first is null only for the empty series"),
        Some(e) => assert!(N > 0 && e.is_key(k[0]), "first is element 0, null or not"),
    }
    match AggValidBasic::vmin(mk()) {
        None => assert!(nv == 0, "vmin is null only when no element is valid"),
        Some(m) => assert!(nv > 0 && is_extremum(k, m, false), "vmin is the least valid element"),
    }
    match AggValidBasic::vmax(mk()) {
        None => assert!(nv == 0, "vmax is null only when no element is valid"),
        Some(m) => assert!(nv > 0 && is_extremum(k, m, true), "vmax is the greatest valid element"),
    }
    assert!(
        is_arg_extremum(k, AggValidBasic::vargmin(mk()), false),
        "vargmin is the position of the first minimum among the valid elements, null iff none"
    );
    assert!(
        is_arg_extremum(k, AggValidBasic::vargmax(mk()), true),
        "vargmax is the position of the first maximum among the valid elements, null iff none"
    );
}

/// the two aggregations that need a double-ended iterator
pub fn fam_valid_last<E: Elt, I: IntoIterator<Item = E>, const N: usize>(k: &[Option<i32>; N], mk: impl Fn() -> I)
where
    E::Inner: IKey,
    I::IntoIter: DoubleEndedIterator,
{
    match AggValidBasic::vlast(mk()) {
        None => assert!(n_valid(k) == 0, "vlast is null only when no element is valid"),
        Some(e) => match last_valid(k) {
            None => assert!(false, "vlast is null when no element is valid"),
            Some(p) => assert!(e.is_key(k[p]), "vlast is the last non-null element"),
        },
    }
    match AggBasic::last(mk()) {
        None => assert!(N == 0, "last is null only for the empty series"),
        Some(e) => assert!(N > 0 && e.is_key(k[N - 1]), "last is element N-1, null or not"),
    }
}

// ---------------------------------------------------------------------------------------------
// null-aware sums and means on integers
// ---------------------------------------------------------------------------------------------

pub fn fam_valid_sum<E: Elt, I: IntoIterator<Item = E>, const N: usize>(k: &[Option<i32>; N], mk: impl Fn() -> I, fl: &mut Fl)
where
    E::Inner: IKey + Number,
{
    let nv = n_valid(k);
    let s = sum_valid(k);
    witness(k, fl);
    match AggValidBasic::vsum(mk()) {
        None => assert!(nv == 0, "vsum is null only when no element is valid"),
        Some(r) => assert!(nv > 0 && r == E::Inner::of64(s), "vsum is the sum of the valid elements"),
    }
    let m = AggValidBasic::vmean(mk());
    if nv == 0 {
        assert!(m != m, "vmean is null when no element is valid");
    } else {
        assert!(m == (s as f64) / (nv as f64), "vmean is the sum of the valid elements over their number");
    }
}

// ---------------------------------------------------------------------------------------------
// null-unaware family on null-free integer series
// ---------------------------------------------------------------------------------------------

/// `T` is i32 or i64 (never null): every element counts. Comparison part.
pub fn fam_plain_cmp<T: Elt<Inner = T> + IKey + Number + PartialEq, I: IntoIterator<Item = T>, const N: usize>(
    k: &[Option<i32>; N],
    mk: impl Fn() -> I,
    fl: &mut Fl,
) where
    I::IntoIter: DoubleEndedIterator,
{
    witness(k, fl);
    let val: i32 = kani::any();
    assert!(AggBasic::count_value(mk(), T::of(val)) == n_equal(k, Some(val)), "count_value counts the elements equal to the value");
    match AggBasic::first(mk()) {
        None => assert!(N == 0, "first is null only for the empty series"),
        Some(e) => assert!(N > 0 && e.is_key(k[0]), "first is element 0"),
    }
    match AggBasic::last(mk()) {
        None => assert!(N == 0, "last is null only for the empty series"),
        Some(e) => assert!(N > 0 && e.is_key(k[N - 1]), "last is element N-1"),
    }
    match AggBasic::min(mk()) {
        None => assert!(N == 0, "min is null only for the empty series"),
        Some(m) => assert!(N > 0 && is_extremum(k, m, false), "min is the least element"),
    }
    match AggBasic::max(mk()) {
        None => assert!(N == 0, "max is null only for the empty series"),
        Some(m) => assert!(N > 0 && is_extremum(k, m, true), "max is the greatest element"),
    }
    assert!(is_arg_extremum(k, AggBasic::argmin(mk()), false), "argmin is the position of the first minimum, null iff empty");
    assert!(is_arg_extremum(k, AggBasic::argmax(mk()), true), "argmax is the position of the first maximum, null iff empty");
    // the null-aware forms on a type without nulls see every element
    assert!(AggValidBasic::count_valid(mk()) == N, "count_valid of a null-free series is its length");
    assert!(AggValidBasic::count_none(mk()) == 0, "count_none of a null-free series is 0");
    assert!(is_arg_extremum(k, AggValidBasic::vargmin(mk()), false), "vargmin of a null-free series is argmin");
    assert!(is_arg_extremum(k, AggValidBasic::vargmax(mk()), true), "vargmax of a null-free series is argmax");
}

/// Sum part: the keys come from an alphabet whose sums fit `T`.
pub fn fam_plain_sum<T: Elt<Inner = T> + IKey + Number + PartialEq, I: IntoIterator<Item = T>, const N: usize>(
    k: &[Option<i32>; N],
    mk: impl Fn() -> I,
) {
    let s = sum_valid(k);
    match AggBasic::sum(mk()) {
        None => assert!(N == 0, "sum is null only for the empty series"),
        Some(r) => assert!(N > 0 && r == T::of64(s), "sum is the sum of all elements"),
    }
    match AggBasic::n_sum(mk()) {
        (n, None) => assert!(N == 0 && n == 0, "n_sum is (0, null) only for the empty series"),
        (n, Some(r)) => assert!(N > 0 && n == N && r == T::of64(s), "n_sum is (length, sum of all elements)"),
    }
    match AggBasic::mean(mk()) {
        None => assert!(N == 0, "mean is null only for the empty series"),
        Some(m) => assert!(N > 0 && m == (s as f64) / (N as f64), "mean is the sum of all elements over the length"),
    }
    match AggValidBasic::vsum(mk()) {
        None => assert!(N == 0, "vsum of a null-free series is null only when empty"),
        Some(r) => assert!(N > 0 && r == T::of64(s), "vsum of a null-free series is sum"),
    }
    let m = AggValidBasic::vmean(mk());
    if N == 0 {
        assert!(m != m, "vmean of the empty series is null");
    } else {
        assert!(m == (s as f64) / (N as f64), "vmean of a null-free series is mean");
    }
}

/// null-unaware comparisons on a float series WITHOUT NaN (keys all `Some`)
pub fn fam_plain_cmp_f64<I: IntoIterator<Item = f64>, const N: usize>(k: &[Option<i32>; N], mk: impl Fn() -> I, fl: &mut Fl)
where
    I::IntoIter: DoubleEndedIterator,
{
    witness(k, fl);
    let val: i32 = small_i32(-3, 3);
    assert!(AggBasic::count_value(mk(), val as f64) == n_equal(k, Some(val)), "count_value counts the float elements equal to the value");
    match AggBasic::first(mk()) {
        None => assert!(N == 0, "first is null only for the empty float series"),
        Some(e) => assert!(N > 0 && e.is_key(k[0]), "first is float element 0"),
    }
    match AggBasic::last(mk()) {
        None => assert!(N == 0, "last is null only for the empty float series"),
        Some(e) => assert!(N > 0 && e.is_key(k[N - 1]), "last is float element N-1"),
    }
    match AggBasic::min(mk()) {
        None => assert!(N == 0, "min is null only for the empty float series"),
        Some(m) => assert!(N > 0 && is_extremum(k, m, false), "min is the least float element"),
    }
    match AggBasic::max(mk()) {
        None => assert!(N == 0, "max is null only for the empty float series"),
        Some(m) => assert!(N > 0 && is_extremum(k, m, true), "max is the greatest float element"),
    }
    assert!(is_arg_extremum(k, AggBasic::argmin(mk()), false), "argmin is the position of the first float minimum");
    assert!(is_arg_extremum(k, AggBasic::argmax(mk()), true), "argmax is the position of the first float maximum");
}

/// ISOLATED: the null-unaware `min / max / argmin / argmax` on a float series that contains NaN.
/// The statement evaluates every aggregation "on the non-null elements" and demands permutation
/// invariance of min / max; the repository's own `test_cmp` expects `max([1, 3, NaN, 2, 5]) == 5`.
/// One function per harness (`which`): a failed assertion hides the inputs of the later ones.
pub fn plain_extrema_nan<const N: usize>(k: &[Option<i32>; N], which: u8, fl: &mut Fl) {
    let v: Vec<f64> = to_vec(k);
    let nv = n_valid(k);
    witness(k, fl);
    match which {
        0 => match AggBasic::min(v.titer()) {
            None => assert!(N == 0, "float min is null only for the empty series"),
            Some(m) => {
                if nv == 0 {
                    assert!(m != m, "float min of an all-NaN series is NaN");
                } else {
                    assert!(is_extremum(k, m, false), "float min ignores NaN wherever it stands (least non-NaN element)");
                }
            },
        },
        1 => match AggBasic::max(v.titer()) {
            None => assert!(N == 0, "float max is null only for the empty series"),
            Some(m) => {
                if nv == 0 {
                    assert!(m != m, "float max of an all-NaN series is NaN");
                } else {
                    assert!(is_extremum(k, m, true), "float max ignores NaN wherever it stands (greatest non-NaN element)");
                }
            },
        },
        2 => {
            if nv > 0 {
                assert!(
                    is_arg_extremum(k, AggBasic::argmin(v.titer()), false),
                    "float argmin never points at a NaN while a non-NaN element exists (first least non-NaN element)"
                );
            }
        },
        _ => {
            if nv > 0 {
                assert!(
                    is_arg_extremum(k, AggBasic::argmax(v.titer()), true),
                    "float argmax never points at a NaN while a non-NaN element exists (first greatest non-NaN element)"
                );
            }
        },
    }
}

// ---------------------------------------------------------------------------------------------
// booleans
// ---------------------------------------------------------------------------------------------

#[derive(Default)]
pub struct BFl {
    pub any_true: bool,
    pub all_true: bool,
    pub mixed_null: bool,
}

/// b[i]: None = null, Some(flag)
pub fn bool_defs<const N: usize>(b: &[Option<bool>; N], fl: &mut BFl) -> (bool, bool) {
    let (mut any, mut all, mut nv) = (false, true, 0usize);
    let mut i = 0;
    while i < N {
        if let Some(x) = b[i] {
            nv += 1;
            if x {
                any = true;
            } else {
                all = false;
            }
        }
        i += 1;
    }
    if any {
        fl.any_true = true;
    }
    if all && nv > 0 {
        fl.all_true = true;
    }
    if nv > 0 && nv < N {
        fl.mixed_null = true;
    }
    (any, all)
}

/// `Vec<bool>`: any / all / vany / vall, owned and borrowed
pub fn fam_bool_plain<const N: usize>(fl: &mut BFl) {
    let x: [bool; N] = kani::any();
    let mut b = [None; N];
    let mut i = 0;
    while i < N {
        b[i] = Some(x[i]);
        i += 1;
    }
    let (any, all) = bool_defs(&b, fl);
    let v: Vec<bool> = x.to_vec();
    assert!(AggBasic::any(v.titer()) == any, "any: some element is true (false for the empty series)");
    assert!(AggBasic::all(v.titer()) == all, "all: every element is true (true for the empty series)");
    assert!(AggValidBasic::vany(v.titer()) == any, "vany on plain bools is any");
    assert!(AggValidBasic::vall(v.titer()) == all, "vall on plain bools is all");
    let o = v.opt();
    assert!(AggValidBasic::vany(&o) == any, "vany over the option view of plain bools is any");
    assert!(AggValidBasic::vall(&o) == all, "vall over the option view of plain bools is all");
    assert!(AggBasic::any(v.clone()) == any, "any on the owned vector");
    assert!(AggBasic::all(v) == all, "all on the owned vector");
}

/// `Vec<Option<bool>>`: vany / vall skip the nulls
pub fn fam_bool_opt<const N: usize>(fl: &mut BFl) {
    let b: [Option<bool>; N] = kani::any();
    let (any, all) = bool_defs(&b, fl);
    let v: Vec<Option<bool>> = b.to_vec();
    assert!(AggValidBasic::vany(v.titer()) == any, "vany: some valid element is true (false when none is valid)");
    assert!(AggValidBasic::vall(v.titer()) == all, "vall: every valid element is true (true when none is valid)");
    let o = v.opt();
    assert!(AggValidBasic::vany(&o) == any, "vany over the option view skips nulls");
    assert!(AggValidBasic::vall(&o) == all, "vall over the option view skips nulls");
    assert!(AggValidBasic::vany(v.clone()) == any, "vany on the owned vector");
    assert!(AggValidBasic::vall(v) == all, "vall on the owned vector");
}

// ---------------------------------------------------------------------------------------------
// masked sum / mean
// ---------------------------------------------------------------------------------------------

#[derive(Default)]
pub struct MFl {
    /// a valid element excluded by the mask
    pub excluded: bool,
    /// a null element selected by the mask
    pub null_selected: bool,
    /// mean null because of min_periods although something was selected
    pub short: bool,
    pub value: bool,
    pub null_mask: bool,
}

/// mask as `Vec<bool>` (`opt_mask == false`) or `Vec<Option<bool>>` (a null mask entry excludes)
pub fn fam_masked<E: Elt, I: IntoIterator<Item = E>, const N: usize>(k: &[Option<i32>; N], mk: impl Fn() -> I, opt_mask: bool, fl: &mut MFl)
where
    E::Inner: IKey + Number,
{
    let mask: [Option<bool>; N] = kani::any();
    let mp: usize = kani::any();
    kani::assume(mp <= N + 1);
    let (mut n, mut s) = (0usize, 0i64);
    let mut plain: Vec<bool> = Vec::with_capacity(N);
    let mut i = 0;
    while i < N {
        if !opt_mask {
            kani::assume(mask[i].is_some());
        }
        let sel = mask[i] == Some(true);
        plain.push(sel);
        match k[i] {
            Some(x) => {
                if sel {
                    n += 1;
                    s += x as i64;
                } else {
                    fl.excluded = true;
                }
            },
            None => {
                if sel {
                    fl.null_selected = true;
                }
            },
        }
        if mask[i].is_none() {
            fl.null_mask = true;
        }
        i += 1;
    }
    let omask: Vec<Option<bool>> = mask.to_vec();
    let (rn, rs) = if opt_mask { AggValidExt::n_vsum_filter(mk(), omask.titer()) } else { AggValidExt::n_vsum_filter(mk(), plain.titer()) };
    assert!(rn == n, "n_vsum_filter counts the valid elements selected by the mask");
    assert!(rs == E::Inner::of64(s), "n_vsum_filter sums the valid elements selected by the mask");
    let r = if opt_mask { AggValidExt::n_sum_filter(mk(), omask.titer()) } else { AggValidExt::n_sum_filter(mk(), plain.titer()) };
    match r {
        None => assert!(n == 0, "n_sum_filter is null only when nothing valid is selected"),
        Some(r) => assert!(n > 0 && r == E::Inner::of64(s), "n_sum_filter is the sum of the valid selected elements"),
    }
    let m = if opt_mask { AggValidExt::vmean_filter(mk(), omask.titer(), mp) } else { AggValidExt::vmean_filter(mk(), plain.titer(), mp) };
    if n < mp || n == 0 {
        if n > 0 {
            fl.short = true;
        }
        assert!(m != m, "vmean_filter is null when fewer than max(min_periods, 1) valid elements are selected");
    } else {
        fl.value = true;
        assert!(m == (s as f64) / (n as f64), "vmean_filter is the sum of the valid selected elements over their number");
    }
}

// ---------------------------------------------------------------------------------------------
// permutation invariance (relational): y = x with positions i < j exchanged
// ---------------------------------------------------------------------------------------------

pub fn transposed<T: Copy, const N: usize>(x: &[T; N]) -> ([T; N], usize, usize) {
    let i: usize = kani::any();
    let j: usize = kani::any();
    kani::assume(i < j && j < N);
    let mut y = *x;
    let mut p = 0;
    while p < N {
        if p == i {
            y[p] = x[j];
        } else if p == j {
            y[p] = x[i];
        }
        p += 1;
    }
    (y, i, j)
}

fn same_opt_f64(a: f64, b: f64) -> bool {
    (a != a && b != b) || a == b
}

/// null-aware symmetric aggregations on `E` (keys from `alpha`; sums only when `sums`)
pub fn perm_valid<E: Elt, const N: usize>(alpha: Alpha, sums: bool) -> bool
where
    E::Inner: IKey + Number,
{
    let x = keys::<N>(alpha, true);
    let (y, i, j) = transposed(&x);
    let (a, b): (Vec<E>, Vec<E>) = (to_vec(&x), to_vec(&y));
    assert!(a.titer().count_valid() == b.titer().count_valid(), "count_valid is invariant under a transposition");
    assert!(a.titer().count_none() == b.titer().count_none(), "count_none is invariant under a transposition");
    let val: Option<i32> = if kani::any() { None } else { Some(kani::any()) };
    assert!(
        a.titer().vcount_value(E::from_key(val)) == b.titer().vcount_value(E::from_key(val)),
        "vcount_value is invariant under a transposition"
    );
    assert!(a.titer().vmin() == b.titer().vmin(), "vmin is invariant under a transposition");
    assert!(a.titer().vmax() == b.titer().vmax(), "vmax is invariant under a transposition");
    if sums {
        assert!(a.titer().vsum() == b.titer().vsum(), "vsum is invariant under a transposition");
        assert!(same_opt_f64(a.titer().vmean(), b.titer().vmean()), "vmean is invariant under a transposition");
    }
    x[i] != x[j]
}

/// null-unaware symmetric aggregations on a null-free integer series
pub fn perm_plain<const N: usize>(sums: bool) -> bool {
    let x: [i32; N] = kani::any();
    if sums {
        let mut p = 0;
        while p < N {
            kani::assume(x[p] >= -1000 && x[p] <= 1000);
            p += 1;
        }
    }
    let (y, i, j) = transposed(&x);
    let (a, b): (Vec<i32>, Vec<i32>) = (x.to_vec(), y.to_vec());
    let val: i32 = kani::any();
    assert!(AggBasic::count_value(a.titer(), val) == AggBasic::count_value(b.titer(), val), "count_value is invariant under a transposition");
    assert!(AggBasic::min(a.titer()) == AggBasic::min(b.titer()), "min is invariant under a transposition");
    assert!(AggBasic::max(a.titer()) == AggBasic::max(b.titer()), "max is invariant under a transposition");
    if sums {
        assert!(AggBasic::sum(a.titer()) == AggBasic::sum(b.titer()), "sum is invariant under a transposition");
        assert!(AggBasic::mean(a.titer()) == AggBasic::mean(b.titer()), "mean is invariant under a transposition");
    }
    x[i] != x[j]
}

pub fn perm_bool<const N: usize>() -> bool {
    let x: [Option<bool>; N] = kani::any();
    let (y, i, j) = transposed(&x);
    let (a, b): (Vec<Option<bool>>, Vec<Option<bool>>) = (x.to_vec(), y.to_vec());
    assert!(a.titer().vany() == b.titer().vany(), "vany is invariant under a transposition");
    assert!(a.titer().vall() == b.titer().vall(), "vall is invariant under a transposition");
    let mut p = 0;
    let (mut pa, mut pb): (Vec<bool>, Vec<bool>) = (Vec::with_capacity(N), Vec::with_capacity(N));
    while p < N {
        pa.push(x[p] == Some(true));
        pb.push(y[p] == Some(true));
        p += 1;
    }
    assert!(AggBasic::any(pa.titer()) == AggBasic::any(pb.titer()), "any is invariant under a transposition");
    assert!(AggBasic::all(pa.titer()) == AggBasic::all(pb.titer()), "all is invariant under a transposition");
    x[i] != x[j]
}

// ---------------------------------------------------------------------------------------------
// fold protocols (DESIGN 1.3): f is applied to exactly the non-null items, in order, once each
// ---------------------------------------------------------------------------------------------

/// item types of the folds; values are unconstrained bit patterns (floats: every non-NaN value,
/// NaN of any payload is the null), nullness judged by the harness
pub trait FElem: Copy + IsNone + kani::Arbitrary {
    /// canonical nulls only (DESIGN 5.4): excludes `Some(NaN)`
    fn canonical(&self) -> bool;
    fn null(&self) -> bool;
    fn same_item(&self, o: &Self) -> bool;
    /// `o` is the unwrapped value of `self` (self is not null)
    fn same_inner(&self, o: &Self::Inner) -> bool;
    fn opt(&self) -> Option<Self::Inner>;
}

impl FElem for i32 {
    fn canonical(&self) -> bool {
        true
    }
    fn null(&self) -> bool {
        false
    }
    fn same_item(&self, o: &Self) -> bool {
        self == o
    }
    fn same_inner(&self, o: &i32) -> bool {
        self == o
    }
    fn opt(&self) -> Option<i32> {
        Some(*self)
    }
}
impl FElem for Option<i32> {
    fn canonical(&self) -> bool {
        true
    }
    fn null(&self) -> bool {
        matches!(self, None)
    }
    fn same_item(&self, o: &Self) -> bool {
        self == o
    }
    fn same_inner(&self, o: &i32) -> bool {
        *self == Some(*o)
    }
    fn opt(&self) -> Option<i32> {
        *self
    }
}
impl FElem for f64 {
    fn canonical(&self) -> bool {
        true
    }
    fn null(&self) -> bool {
        self.is_nan()
    }
    fn same_item(&self, o: &Self) -> bool {
        self.to_bits() == o.to_bits()
    }
    fn same_inner(&self, o: &f64) -> bool {
        self.to_bits() == o.to_bits()
    }
    fn opt(&self) -> Option<f64> {
        if self.is_nan() { None } else { Some(*self) }
    }
}
impl FElem for Option<f64> {
    fn canonical(&self) -> bool {
        match self {
            Some(v) => !v.is_nan(),
            None => true,
        }
    }
    fn null(&self) -> bool {
        matches!(self, None)
    }
    fn same_item(&self, o: &Self) -> bool {
        match (self, o) {
            (None, None) => true,
            (Some(a), Some(b)) => a.to_bits() == b.to_bits(),
            _ => false,
        }
    }
    fn same_inner(&self, o: &f64) -> bool {
        match self {
            Some(a) => a.to_bits() == o.to_bits(),
            None => false,
        }
    }
    fn opt(&self) -> Option<f64> {
        *self
    }
}

pub fn any_items<J: FElem, const N: usize>() -> [J; N] {
    let x: [J; N] = kani::any();
    let mut i = 0;
    while i < N {
        kani::assume(x[i].canonical());
        i += 1;
    }
    x
}

/// expected items of the option view over `x`
pub fn opt_items<J: FElem, const N: usize>(x: &[J; N]) -> [Option<J::Inner>; N]
where
    J::Inner: Copy,
{
    let mut o = [None; N];
    let mut i = 0;
    while i < N {
        o[i] = x[i].opt();
        i += 1;
    }
    o
}

/// The recorder walks the expected items with its own cursor: at every call the cursor skips the
/// nulls, must not run off the end (f called too often / on a null), and must stand on the item just
/// received (order, nothing skipped); at the end it must have consumed every non-null item.
pub struct Rec<'a, J: FElem, const N: usize> {
    pub x: &'a [J; N],
    /// second series of `vfold2` (same length; an entry counts only when both are non-null)
    pub y: Option<&'a [J; N]>,
    pub pos: usize,
    pub calls: usize,
}

impl<'a, J: FElem, const N: usize> Rec<'a, J, N> {
    pub fn new(x: &'a [J; N], y: Option<&'a [J; N]>) -> Self {
        Rec { x, y, pos: 0, calls: 0 }
    }
    fn skip(&self, p: usize) -> bool {
        self.x[p].null()
            || match self.y {
                Some(y) => y[p].null(),
                None => false,
            }
    }
    fn advance(&mut self) {
        while self.pos < N && self.skip(self.pos) {
            self.pos += 1;
        }
    }
    /// returns the index of the item this call must carry
    fn step(&mut self) -> Option<usize> {
        self.advance();
        self.calls += 1;
        if self.pos < N {
            self.pos += 1;
            Some(self.pos - 1)
        } else {
            None
        }
    }
    pub fn on_item(&mut self, v: J) {
        match self.step() {
            None => assert!(false, "f is never called more often than there are non-null items"),
            Some(p) => assert!(self.x[p].same_item(&v), "call c carries the c-th non-null item (in order, none skipped)"),
        }
    }
    pub fn on_items(&mut self, va: J, vb: J) {
        match (self.step(), self.y) {
            (Some(p), Some(y)) => {
                assert!(self.x[p].same_item(&va) && y[p].same_item(&vb), "call c carries the c-th pairwise non-null pair (in order, none skipped)")
            },
            _ => assert!(false, "f is never called more often than there are pairwise non-null pairs"),
        }
    }
    pub fn on_inner(&mut self, v: J::Inner) {
        match self.step() {
            None => assert!(false, "f is never called more often than there are non-null items (unwrapped form)"),
            Some(p) => assert!(self.x[p].same_inner(&v), "call c carries the unwrapped c-th non-null item (in order, none skipped)"),
        }
    }
    /// number of (pairwise) non-null items, by definition
    pub fn expected(&self) -> usize {
        let mut n = 0;
        let mut p = 0;
        while p < N {
            if !self.skip(p) {
                n += 1;
            }
            p += 1;
        }
        n
    }
    pub fn done(&mut self) -> usize {
        self.advance();
        assert!(self.pos == N, "every non-null item was handed to f");
        assert!(self.calls == self.expected(), "f was called exactly once per non-null item");
        let c = self.calls;
        self.pos = 0;
        self.calls = 0;
        c
    }
}

/// All single-series folds over the item array `x` (what the iterator yields), source `mk`.
/// The accumulator protocol: f receives the value returned by the previous call (the initial value
/// at the first call) and the fold returns the value of the last call — checked by threading the
/// call number.
pub fn fold_protocol<J: FElem, I: IntoIterator<Item = J>, const N: usize>(x: &[J; N], mk: impl Fn() -> I) -> usize {
    let mut r = Rec::new(x, None);
    // vfold
    let out = mk().vfold(0usize, |acc, v| {
        assert!(acc == r.calls, "vfold: f receives the accumulator returned by the previous call");
        r.on_item(v);
        acc + 1
    });
    let n = r.done();
    assert!(out == n, "vfold returns the accumulator of the last call (the initial value when nothing is valid)");
    // vfold_n
    let (cnt, out) = mk().vfold_n(0usize, |acc, v| {
        assert!(acc == r.calls, "vfold_n: f receives the accumulator returned by the previous call");
        r.on_inner(v);
        acc + 1
    });
    let n = r.done();
    assert!(cnt == n, "vfold_n returns the number of non-null items");
    assert!(out == n, "vfold_n returns the accumulator of the last call");
    // vapply
    mk().vapply(|v| r.on_inner(v));
    r.done();
    // vapply_n
    let cnt = mk().vapply_n(|v| r.on_inner(v));
    let n = r.done();
    assert!(cnt == n, "vapply_n returns the number of non-null items");
    n
}

pub fn fold2_protocol<J: FElem, I: IntoIterator<Item = J>, I2: IntoIterator<Item = J>, const N: usize>(
    x: &[J; N],
    y: &[J; N],
    mk: impl Fn() -> I,
    mk2: impl Fn() -> I2,
) -> usize {
    let mut r = Rec::new(x, Some(y));
    let out = mk().vfold2(mk2(), 0usize, |acc, va, vb| {
        assert!(acc == r.calls, "vfold2: f receives the accumulator returned by the previous call");
        r.on_items(va, vb);
        acc + 1
    });
    let n = r.done();
    assert!(out == n, "vfold2 returns the accumulator of the last call");
    n
}

include!("c11_gen.rs");
