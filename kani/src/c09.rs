//! C09 — trusted-length iterators yield exactly as many items as they announce.
//!
//! Three observations are made on every iterator the library hands out as `TrustedLen`
//! (`mk` builds the same iterator again for every observation, parameters are symbolic):
//!
//!  * COLLECT — `collect_trusted_to_vec()` (`collect_trusted_vec1::<Vec<_>>()` is the same code):
//!              the raw `ptr::write`s are seen by Kani's pointer checks; resulting `len == h`.
//!  * TOTAL   — read `size_hint().1 = h` before consumption, consume by plain safe iteration
//!              (front with `next`; back with `next_back` where the type is double-ended) and
//!              assert that exactly `h` items were yielded; shift-like adaptors additionally
//!              announce the input length.
//!  * STEPS   — re-read the hint after every `next`/`next_back` (symbolic interleaving where
//!              double-ended): an item is yielded only while the hint is positive, the hint
//!              drops by exactly one per yielded item and exhaustion happens exactly at hint 0.
//!              By induction over the remaining steps this is "remaining == current hint at
//!              every point of the consumption".
//!
//! "Arbitrary chains": every iterator-to-iterator adaptor is also checked over `AbsIter`, an
//! abstract inner iterator with symbolic remaining length <= 3, nondeterministic items and an exact
//! hint. An adaptor that maps contract-satisfying iterators to contract-satisfying iterators does
//! so at every depth of a pipeline.
//!
//! Lengths of containers are concrete (`const N`), everything else is `kani::any()`.
//!
//! Harness families that fail on the pinned tree are kept apart from the ones that hold:
//!   `c09_shift_*`            — `MapBasic::shift` has no `len <= |n|` guard (D1)
//!   `c09_*_steps*` of every adaptor built on `TrustIter` — `TrustIter::size_hint` keeps
//!                              announcing the initial length after items were taken (D2);
//!                              `c09_trustiter_steps` is the root-cause harness.
use std::collections::VecDeque;
use std::marker::PhantomData;
use std::mem::MaybeUninit;
use std::sync::Arc;

use ndarray::{Array1, ArrayView1, s};
use tea_core::prelude::*;
use tea_map::{MapBasic, MapValidBasic, MapValidVec};

use crate::util::*;

// ---------------------------------------------------------------------------------------------
// abstract inner iterator
// ---------------------------------------------------------------------------------------------

/// Contract-satisfying iterator about which nothing else is known: `rem` items remain, each item
/// is produced by `g` (a `kani::any()` generator, possibly constrained to the documented domain
/// of the adaptor under test), the hint is exact, both ends can be consumed.
pub struct AbsIter<T, G: Fn() -> T> {
    pub rem: usize,
    pub g: G,
}

impl<T, G: Fn() -> T> AbsIter<T, G> {
    pub fn with_len(rem: usize, g: G) -> Self {
        AbsIter { rem, g }
    }
}

impl<T, G: Fn() -> T> Iterator for AbsIter<T, G> {
    type Item = T;
    fn next(&mut self) -> Option<T> {
        if self.rem == 0 {
            None
        } else {
            self.rem -= 1;
            Some((self.g)())
        }
    }
    fn size_hint(&self) -> (usize, Option<usize>) {
        (self.rem, Some(self.rem))
    }
}

impl<T, G: Fn() -> T> DoubleEndedIterator for AbsIter<T, G> {
    fn next_back(&mut self) -> Option<T> {
        if self.rem == 0 {
            None
        } else {
            self.rem -= 1;
            Some((self.g)())
        }
    }
}

unsafe impl<T, G: Fn() -> T> TrustedLen for AbsIter<T, G> {}

/// symbolic remaining length of the abstract inner iterator
pub fn any_rem(max: usize) -> usize {
    let rem: usize = kani::any();
    kani::assume(rem <= max);
    rem
}
pub fn any_i32() -> i32 {
    kani::any()
}
pub fn any_opt() -> Option<i32> {
    kani::any()
}
/// i32 without the type minimum (`abs(i32::MIN)` is undefined in the language, DESIGN 5.6)
pub fn nonmin_i32() -> i32 {
    let v: i32 = kani::any();
    kani::assume(v != i32::MIN);
    v
}
pub fn nonmin_opt() -> Option<i32> {
    let v: Option<i32> = kani::any();
    kani::assume(v != Some(i32::MIN));
    v
}
pub fn small() -> i32 {
    small_i32(-100, 100)
}

// ---------------------------------------------------------------------------------------------
// observations
// ---------------------------------------------------------------------------------------------

/// upper bound of the current hint; a trusted-length iterator must announce one
pub fn hint<I: Iterator + ?Sized>(it: &I) -> usize {
    match it.size_hint().1 {
        Some(h) => h,
        None => {
            assert!(false, "trusted-length iterator announces an upper bound");
            0
        },
    }
}

/// consume from the front by plain iteration; `cap` bounds the harness loop (an over-yielding
/// iterator is stopped after cap+1 items, which is more than any honest hint in the harness).
pub fn total_front<I: Iterator>(mut it: I, cap: usize) -> usize {
    let h = hint(&it);
    assert!(h <= cap, "announced length is within the range expected for the parameters");
    let mut c = 0usize;
    while c <= cap {
        if it.next().is_none() {
            break;
        }
        c += 1;
    }
    assert!(c == h, "front iteration yields exactly the announced number of items");
    h
}

pub fn total_back<I: DoubleEndedIterator>(mut it: I, cap: usize) -> usize {
    let h = hint(&it);
    assert!(h <= cap, "announced length is within the range expected for the parameters");
    let mut c = 0usize;
    while c <= cap {
        if it.next_back().is_none() {
            break;
        }
        c += 1;
    }
    assert!(c == h, "back iteration yields exactly the announced number of items");
    h
}

/// trusted collection: Kani's pointer checks watch the raw writes; length == announced
pub fn collect_len<I: TrustedLen>(it: I) -> usize {
    let h = hint(&it);
    let v: Vec<I::Item> = it.collect_trusted_to_vec();
    assert!(v.len() == h, "collect_trusted_to_vec returns the announced length");
    h
}

/// hint re-read after every step, front only
pub fn steps_front<I: Iterator>(mut it: I, cap: usize) {
    let mut h = hint(&it);
    let mut k = 0usize;
    while k <= cap {
        match it.next() {
            Some(_) => {
                assert!(h >= 1, "an item is yielded only while the current hint is positive");
                let h2 = hint(&it);
                assert!(h2 + 1 == h, "the hint drops by exactly one with every yielded item");
                h = h2;
            },
            None => {
                assert!(h == 0, "the iterator is exhausted only when its current hint is zero");
                break;
            },
        }
        k += 1;
    }
}

/// hint re-read after every step of a symbolic interleaving of `next` and `next_back`;
/// returns true when both ends were used
pub fn steps_both<I: DoubleEndedIterator>(mut it: I, cap: usize) -> bool {
    let mut h = hint(&it);
    let mut k = 0usize;
    let mut mixed = (false, false);
    while k <= cap {
        let back: bool = kani::any();
        let r = if back { it.next_back() } else { it.next() };
        match r {
            Some(_) => {
                assert!(h >= 1, "an item is yielded only while the current hint is positive");
                let h2 = hint(&it);
                assert!(h2 + 1 == h, "the hint drops by exactly one with every yielded item");
                h = h2;
                if back {
                    mixed.1 = true
                } else {
                    mixed.0 = true
                }
            },
            None => {
                assert!(h == 0, "the iterator is exhausted only when its current hint is zero");
                break;
            },
        }
        k += 1;
    }
    mixed.0 && mixed.1
}

pub const COLLECT: u8 = 1;
pub const TOTAL: u8 = 2;
pub const STEPS: u8 = 4;
pub const ALL: u8 = 7;

fn same_len(h: usize, want: Option<usize>) {
    if let Some(w) = want {
        assert!(h == w, "announced length equals the input length");
    }
}

/// the selected observations (`p` is a constant at every call site), each on a fresh iterator.
/// COLLECT runs first so that an out-of-bounds write is reported even where TOTAL fails.
pub fn observe<I: TrustedLen, F: Fn() -> I>(p: u8, mk: F, cap: usize, want: Option<usize>) {
    if p & COLLECT != 0 {
        same_len(collect_len(mk()), want);
    }
    if p & TOTAL != 0 {
        same_len(total_front(mk(), cap), want);
    }
    if p & STEPS != 0 {
        steps_front(mk(), cap);
    }
}

/// all observations for a double-ended iterator (container iterators, mapped views)
pub fn observe_de<I: TIterator, F: Fn() -> I>(mk: F, cap: usize, want: Option<usize>) -> bool {
    same_len(collect_len(mk()), want);
    same_len(total_front(mk(), cap), want);
    total_back(mk(), cap);
    steps_both(mk(), cap)
}

/// `#[kani::proof]` wrapper: `$call` returns the vacuity witness of the instance.
macro_rules! h {
    ($(#[$m:meta])* $name:ident, $unwind:literal, $call:expr) => {
        $(#[$m])*
        #[kani::proof]
        #[kani::unwind($unwind)]
        pub fn $name() {
            let w: bool = $call;
            kani::cover!(w, "interesting region of the parameter space reached and passed");
        }
    };
}

// ---------------------------------------------------------------------------------------------
// 1. container iterators
// ---------------------------------------------------------------------------------------------

pub fn titer_vec<const N: usize>() -> bool {
    let x: [i32; N] = kani::any();
    let v: Vec<i32> = x.to_vec();
    let w = observe_de(|| v.titer(), N + 1, Some(N));
    observe_de(|| x.titer(), N + 1, Some(N));
    let sl: &[i32] = &x[..];
    observe_de(|| sl.titer(), N + 1, Some(N));
    w
}

pub fn titer_into<const N: usize>() -> bool {
    let x: [i32; N] = kani::any();
    let v: Vec<i32> = x.to_vec();
    let w = observe_de(|| v.clone().into_titer(), N + 1, Some(N));
    let h = hint(&v.titer());
    let c: Vec<i32> = v.titer().collect_trusted_vec1();
    assert!(c.len() == h, "collect_trusted_vec1 returns the announced length");
    w
}

pub fn titer_arc<const N: usize>() -> bool {
    let x: [i32; N] = kani::any();
    let v = Arc::new(x.to_vec());
    observe_de(|| v.titer(), N + 1, Some(N))
}

pub fn titer_deque<const N: usize>() -> bool {
    let x: [i32; N] = kani::any();
    let rot: usize = kani::any();
    kani::assume(rot <= N);
    let v = deque_rot(&x[..], rot);
    kani::cover!(rot > 0 || N == 0, "ring buffer rotated");
    observe_de(|| v.titer(), N + 1, Some(N))
}

pub fn titer_nd<const N: usize>() -> bool {
    let x: [i32; N] = kani::any();
    let a = nd_owned(&x[..]);
    let w = observe_de(|| a.titer(), N + 1, Some(N));
    let view = a.view();
    observe_de(|| view.titer(), N + 1, Some(N));
    w
}

pub fn titer_nd_rev<const N: usize>() -> bool {
    let x: [i32; N] = kani::any();
    let st = nd_rev_storage(&x[..]);
    let rv = st.slice(s![..;-1]);
    observe_de(|| rv.titer(), N + 1, Some(N))
}

pub fn titer_nd_step<const N: usize>() -> bool {
    let x: [i32; N] = kani::any();
    let st2 = nd_step_storage(&x[..], 2);
    let sv = st2.slice(s![..;2]);
    observe_de(|| sv.titer(), N + 1, Some(N))
}

pub fn titer_opt<const N: usize>() -> bool {
    let x: [Option<i32>; N] = kani::any();
    let v: Vec<Option<i32>> = x.to_vec();
    let o = v.opt();
    let w = observe_de(|| o.titer(), N + 1, Some(N));
    observe(ALL, || (&o).into_iter(), N + 1, Some(N));
    w
}

/// the mapped views of Vec1View / TIter (`titer().map(..)`)
pub fn titer_mapped<const N: usize>() -> bool {
    let x: [Option<i32>; N] = kani::any();
    let v: Vec<Option<i32>> = x.to_vec();
    let w = observe_de(|| v.to_opt_iter(), N + 1, Some(N));
    observe_de(|| v.opt_iter_cast::<i64>(), N + 1, Some(N));
    observe_de(|| TIter::map(&v, |e| e.is_some()), N + 1, Some(N));
    let y: [i32; N] = kani::any();
    observe_de(|| y.iter_cast::<i64>(), N + 1, Some(N));
    w
}

h!(c09_titer_vec_n0, 6, {
    titer_vec::<0>();
    titer_into::<0>();
    titer_arc::<0>();
    titer_opt::<0>();
    true
});
h!(c09_titer_vec_n1, 6, {
    titer_vec::<1>();
    titer_into::<1>();
    true
});
h!(c09_titer_vec_n3, 8, titer_vec::<3>());
h!(c09_titer_into_n3, 8, titer_into::<3>());
h!(c09_titer_arc_n3, 8, titer_arc::<3>());
h!(c09_titer_deque_n3, 8, titer_deque::<3>());
h!(c09_titer_nd_n0, 6, {
    titer_nd::<0>();
    titer_deque::<0>();
    true
});
h!(c09_titer_nd_n3, 8, titer_nd::<3>());
h!(c09_titer_ndrev_n3, 8, titer_nd_rev::<3>());
h!(c09_titer_ndstep_n3, 8, titer_nd_step::<3>());
h!(c09_titer_opt_n3, 8, titer_opt::<3>());
h!(c09_titer_mapped_n2, 7, titer_mapped::<2>());

h!(#[cfg(feature = "thorough")] c09_titer_vec_n4, 9, titer_vec::<4>());
h!(#[cfg(feature = "thorough")] c09_titer_deque_n4, 9, titer_deque::<4>());
h!(#[cfg(feature = "thorough")] c09_titer_nd_n4, 9, titer_nd::<4>());
h!(#[cfg(feature = "thorough")] c09_titer_ndrev_n4, 9, titer_nd_rev::<4>());
h!(#[cfg(feature = "thorough")] c09_titer_ndstep_n4, 9, titer_nd_step::<4>());
h!(#[cfg(feature = "thorough")] c09_titer_opt_n4, 9, titer_opt::<4>());
h!(#[cfg(feature = "thorough")] c09_titer_mapped_n4, 9, titer_mapped::<4>());

// ---------------------------------------------------------------------------------------------
// 2. TrustIter itself (root of every `to_trust(len)` adaptor)
// ---------------------------------------------------------------------------------------------

/// `to_trust(len)` around an iterator that really has `len` items: totals and collection.
pub fn trustiter_total() -> bool {
    let len = any_rem(3);
    observe(COLLECT | TOTAL, || (0..len).to_trust(len), 4, Some(len));
    total_back((0..len).to_trust(len), 4);
    len == 3
}

/// ... and the hint after partial consumption (D2).
pub fn trustiter_steps() -> bool {
    let len = any_rem(3);
    steps_both((0..len).to_trust(len), 4)
}

h!(c09_trustiter_total, 7, trustiter_total());
h!(c09_trustiter_steps, 7, trustiter_steps());

// ---------------------------------------------------------------------------------------------
// 3. MapBasic::shift (unguarded), lag in -len-3..=len+3
// ---------------------------------------------------------------------------------------------

/// `within`: only lags with |n| <= len (where D1 does not strike)
pub fn shift_params(len: usize, within: bool) -> (i32, i32, bool) {
    let n = small_i32(-(len as i32) - 3, len as i32 + 3);
    let fill: i32 = kani::any();
    let na = n.unsigned_abs() as usize;
    if within {
        kani::assume(na <= len);
    } else {
        kani::cover!(na > len && n < 0, "n < -len");
        kani::cover!(na > len && n > 0, "n > len");
    }
    kani::cover!(n == 0, "n == 0");
    (n, fill, if len >= 2 { na > 0 && na < len } else { na >= len })
}

pub fn shift_vec<const N: usize>(p: u8, within: bool) -> bool {
    let x: [i32; N] = kani::any();
    let (n, fill, w) = shift_params(N, within);
    observe(p, || x.titer().shift(n, fill), N + 1, Some(N));
    w
}

pub fn shift_abs(p: u8, within: bool) -> bool {
    let rem = any_rem(3);
    let (n, fill, w) = shift_params(rem, within);
    observe(p, || AbsIter::with_len(rem, any_i32).shift(n, fill), 4, Some(rem));
    w
}

// D1: expected to fail on the pinned tree (n < -len over-yields, n > len underflows `len - n_abs`)
h!(c09_shift_total_vec_n0, 7, shift_vec::<0>(TOTAL, false));
h!(c09_shift_total_vec_n2, 9, shift_vec::<2>(TOTAL, false));
h!(c09_shift_collect_vec_n1, 8, shift_vec::<1>(COLLECT, false));
// the in-range lags on their own: hold
h!(c09_shift_within_vec_n3, 8, shift_vec::<3>(COLLECT | TOTAL, true));
// D2 through shift
h!(c09_shift_steps_vec_n2, 7, shift_vec::<2>(STEPS, true));

h!(#[cfg(feature = "thorough")] c09_shift_total_vec_n1, 8, shift_vec::<1>(COLLECT | TOTAL, false));
h!(#[cfg(feature = "thorough")] c09_shift_total_vec_n3, 10, shift_vec::<3>(COLLECT | TOTAL, false));
h!(#[cfg(feature = "thorough")] c09_shift_total_vec_n4, 11, shift_vec::<4>(COLLECT | TOTAL, false));
h!(#[cfg(feature = "thorough")] c09_shift_total_abs, 10, shift_abs(COLLECT | TOTAL, false));
h!(#[cfg(feature = "thorough")] c09_shift_within_abs, 8, shift_abs(COLLECT | TOTAL, true));
h!(#[cfg(feature = "thorough")] c09_shift_steps_abs, 8, shift_abs(STEPS, true));

// ---------------------------------------------------------------------------------------------
// 4. vshift (guarded), lag over the full i32 range
// ---------------------------------------------------------------------------------------------

pub fn lag_params(len: usize) -> (i32, bool) {
    let n: i32 = kani::any();
    kani::cover!(n == i32::MIN, "lag i32::MIN");
    kani::cover!(n == i32::MAX, "lag i32::MAX");
    kani::cover!(n.unsigned_abs() as usize > len, "|n| > len");
    kani::cover!(n == 0, "n == 0");
    let na = n.unsigned_abs() as usize;
    (n, if len >= 2 { na > 0 && na < len } else { na >= len })
}

pub fn vshift_vec<const N: usize>(p: u8) -> bool {
    let x: [Option<i32>; N] = kani::any();
    let (n, w) = lag_params(N);
    let fill: Option<Option<i32>> = kani::any();
    observe(p, || x.titer().vshift(n, fill), N + 1, Some(N));
    w
}

pub fn vshift_abs(p: u8) -> bool {
    let rem = any_rem(3);
    let (n, w) = lag_params(rem);
    let fill: Option<Option<i32>> = kani::any();
    observe(p, || AbsIter::with_len(rem, any_opt).vshift(n, fill), 4, Some(rem));
    w
}

h!(c09_vshift_total_vec_n012, 7, {
    vshift_vec::<0>(COLLECT | TOTAL);
    vshift_vec::<1>(TOTAL);
    vshift_vec::<2>(TOTAL)
});
h!(c09_vshift_total_vec_n3, 8, vshift_vec::<3>(TOTAL));
h!(c09_vshift_collect_vec_n2, 7, vshift_vec::<2>(COLLECT));
h!(c09_vshift_total_abs, 8, vshift_abs(TOTAL));
h!(c09_vshift_steps_vec_n2, 7, vshift_vec::<2>(STEPS));

h!(#[cfg(feature = "thorough")] c09_vshift_total_vec_n4, 9, vshift_vec::<4>(TOTAL));
h!(#[cfg(feature = "thorough")] c09_vshift_collect_vec_n3, 8, vshift_vec::<3>(COLLECT));
h!(#[cfg(feature = "thorough")] c09_vshift_collect_vec_n4, 9, vshift_vec::<4>(COLLECT));
h!(#[cfg(feature = "thorough")] c09_vshift_collect_abs, 8, vshift_abs(COLLECT));
h!(#[cfg(feature = "thorough")] c09_vshift_steps_abs, 8, vshift_abs(STEPS));

// ---------------------------------------------------------------------------------------------
// 5. vdiff / vpct_change (views), lag over the full i32 range
// ---------------------------------------------------------------------------------------------

pub fn small_arr<const N: usize>() -> [i32; N] {
    let x: [i32; N] = kani::any();
    let mut i = 0;
    while i < N {
        kani::assume(x[i] >= -100 && x[i] <= 100);
        i += 1;
    }
    x
}

/// i32 elements in -100..=100 (the subtraction cannot overflow), non-null fill
pub fn vdiff_vec<const N: usize>(p: u8) -> bool {
    let x: [i32; N] = small_arr();
    let (n, w) = lag_params(N);
    let fill = small();
    observe(p, || x.vdiff(n, Some(fill)), N + 1, Some(N));
    w
}

pub fn vpct_vec<const N: usize>(p: u8) -> bool {
    let x: [i32; N] = small_arr();
    let (n, w) = lag_params(N);
    observe(p, || x.vpct_change(n), N + 1, Some(N));
    w
}

h!(c09_vdiff_total_vec_n012, 7, {
    vdiff_vec::<0>(COLLECT | TOTAL);
    vdiff_vec::<1>(TOTAL);
    vdiff_vec::<2>(TOTAL)
});
h!(c09_vdiff_total_vec_n3, 8, vdiff_vec::<3>(TOTAL));
h!(c09_vdiff_collect_vec_n2, 7, vdiff_vec::<2>(COLLECT));
h!(c09_vdiff_steps_vec_n2, 7, vdiff_vec::<2>(STEPS));
h!(c09_vpct_total_vec_n012, 7, {
    vpct_vec::<0>(COLLECT | TOTAL);
    vpct_vec::<1>(TOTAL);
    vpct_vec::<2>(TOTAL)
});
h!(c09_vpct_total_vec_n3, 8, vpct_vec::<3>(TOTAL));
h!(c09_vpct_collect_vec_n2, 7, vpct_vec::<2>(COLLECT));
h!(c09_vpct_steps_vec_n2, 7, vpct_vec::<2>(STEPS));

h!(#[cfg(feature = "thorough")] c09_vdiff_total_vec_n4, 9, vdiff_vec::<4>(TOTAL));
h!(#[cfg(feature = "thorough")] c09_vdiff_collect_vec_n3, 8, vdiff_vec::<3>(COLLECT));
h!(#[cfg(feature = "thorough")] c09_vpct_total_vec_n4, 9, vpct_vec::<4>(TOTAL));
h!(#[cfg(feature = "thorough")] c09_vpct_collect_vec_n3, 8, vpct_vec::<3>(COLLECT));

// ---------------------------------------------------------------------------------------------
// 6. map-based adaptors: abs/vabs, ffill(_mask), bfill(_mask), fill(_mask), vclip
//    (all three observations; concrete array input and abstract inner iterator)
// ---------------------------------------------------------------------------------------------

pub fn nonmin_arr<const N: usize>() -> [i32; N] {
    let x: [i32; N] = kani::any();
    let mut i = 0;
    while i < N {
        kani::assume(x[i] != i32::MIN);
        i += 1;
    }
    x
}

pub fn abs_vec<const N: usize>() -> bool {
    let x: [i32; N] = nonmin_arr();
    observe(ALL, || x.titer().abs(), N + 1, Some(N));
    let y: [Option<i32>; N] = kani::any();
    let mut i = 0;
    while i < N {
        kani::assume(y[i] != Some(i32::MIN));
        i += 1;
    }
    observe(ALL, || y.titer().vabs(), N + 1, Some(N));
    true
}

pub fn abs_abs() -> bool {
    let rem = any_rem(3);
    observe(ALL, || AbsIter::with_len(rem, nonmin_i32).abs(), 4, Some(rem));
    observe(ALL, || AbsIter::with_len(rem, nonmin_opt).vabs(), 4, Some(rem));
    rem == 3
}

pub fn ffill_vec<const N: usize>() -> bool {
    let x: [Option<i32>; N] = kani::any();
    let d: Option<Option<i32>> = kani::any();
    let k: Option<i32> = kani::any();
    observe(ALL, || x.titer().ffill(d), N + 1, Some(N));
    observe(ALL, || x.titer().ffill_mask(move |e: &Option<i32>| *e == k, d), N + 1, Some(N));
    true
}

pub fn ffill_abs() -> bool {
    let rem = any_rem(3);
    let d: Option<Option<i32>> = kani::any();
    let k: Option<i32> = kani::any();
    observe(ALL, || AbsIter::with_len(rem, any_opt).ffill(d), 4, Some(rem));
    observe(ALL, || AbsIter::with_len(rem, any_opt).ffill_mask(move |e: &Option<i32>| *e == k, d), 4, Some(rem));
    rem == 3
}

pub fn bfill_vec<const N: usize>() -> bool {
    let x: [Option<i32>; N] = kani::any();
    let d: Option<Option<i32>> = kani::any();
    let k: Option<i32> = kani::any();
    observe(ALL, || x.titer().bfill(d), N + 1, Some(N));
    observe(ALL, || x.titer().bfill_mask(move |e: &Option<i32>| *e == k, d), N + 1, Some(N));
    true
}

pub fn bfill_abs() -> bool {
    let rem = any_rem(3);
    let d: Option<Option<i32>> = kani::any();
    let k: Option<i32> = kani::any();
    observe(ALL, || AbsIter::with_len(rem, any_opt).bfill(d), 4, Some(rem));
    observe(ALL, || AbsIter::with_len(rem, any_opt).bfill_mask(move |e: &Option<i32>| *e == k, d), 4, Some(rem));
    rem == 3
}

pub fn fill_vec<const N: usize>() -> bool {
    let x: [Option<i32>; N] = kani::any();
    let d: Option<i32> = kani::any();
    let k: Option<i32> = kani::any();
    observe(ALL, || x.titer().fill(d), N + 1, Some(N));
    observe(ALL, || x.titer().fill_mask(move |e: &Option<i32>| *e == k, d), N + 1, Some(N));
    true
}

pub fn fill_abs() -> bool {
    let rem = any_rem(3);
    let d: Option<i32> = kani::any();
    let k: Option<i32> = kani::any();
    observe(ALL, || AbsIter::with_len(rem, any_opt).fill(d), 4, Some(rem));
    observe(ALL, || AbsIter::with_len(rem, any_opt).fill_mask(move |e: &Option<i32>| *e == k, d), 4, Some(rem));
    rem == 3
}

pub fn vclip_vec<const N: usize>() -> bool {
    let x: [Option<i32>; N] = kani::any();
    let lo: Option<i32> = kani::any();
    let hi: Option<i32> = kani::any();
    kani::cover!(lo.is_none() && hi.is_none(), "no bounds");
    kani::cover!(lo.is_some() && hi.is_none(), "lower bound only");
    kani::cover!(lo.is_none() && hi.is_some(), "upper bound only");
    kani::cover!(lo.is_some() && hi.is_some(), "both bounds");
    observe(ALL, || x.titer().vclip(lo, hi), N + 1, Some(N));
    true
}

pub fn vclip_abs() -> bool {
    let rem = any_rem(3);
    let lo: Option<i32> = kani::any();
    let hi: Option<i32> = kani::any();
    observe(ALL, || AbsIter::with_len(rem, any_opt).vclip(lo, hi), 4, Some(rem));
    rem == 3
}

/// the tail of `winsorize`: `iter_cast::<f64>().vclip(min, max)` with arbitrary (also NaN) bounds
pub fn winsor_tail<const N: usize>() -> bool {
    let x: [i32; N] = kani::any();
    let lo: f64 = kani::any();
    let hi: f64 = kani::any();
    kani::cover!(lo.is_nan() && !hi.is_nan(), "lower bound null");
    observe(ALL, || x.iter_cast::<f64>().vclip(lo, hi), N + 1, Some(N));
    true
}

h!(c09_abs_vec_n03, 8, {
    abs_vec::<0>();
    abs_vec::<3>()
});
h!(c09_abs_abs, 8, abs_abs());
h!(c09_ffill_vec_n03, 8, {
    ffill_vec::<0>();
    ffill_vec::<3>()
});
h!(c09_ffill_abs, 8, ffill_abs());
h!(c09_bfill_vec_n03, 8, {
    bfill_vec::<0>();
    bfill_vec::<3>()
});
h!(c09_bfill_abs, 8, bfill_abs());
h!(c09_fill_vec_n03, 8, {
    fill_vec::<0>();
    fill_vec::<3>()
});
h!(c09_fill_abs, 8, fill_abs());
h!(c09_vclip_vec_n03, 8, {
    vclip_vec::<0>();
    vclip_vec::<3>()
});
h!(c09_vclip_abs, 8, vclip_abs());
h!(c09_winsor_tail_n2, 7, winsor_tail::<2>());

h!(#[cfg(feature = "thorough")] c09_abs_vec_n4, 9, abs_vec::<4>());
h!(#[cfg(feature = "thorough")] c09_ffill_vec_n4, 9, ffill_vec::<4>());
h!(#[cfg(feature = "thorough")] c09_bfill_vec_n4, 9, bfill_vec::<4>());
h!(#[cfg(feature = "thorough")] c09_fill_vec_n4, 9, fill_vec::<4>());
h!(#[cfg(feature = "thorough")] c09_vclip_vec_n4, 9, vclip_vec::<4>());

// ---------------------------------------------------------------------------------------------
// 7. vcut (1-2 values, 2 edges; label count right or wrong)
// ---------------------------------------------------------------------------------------------

pub fn vcut_vec<const N: usize, const L: usize>() -> bool {
    let x: [i32; N] = kani::any();
    let bins: Vec<i32> = kani::any::<[i32; 2]>().to_vec();
    let labels: Vec<i32> = kani::any::<[i32; L]>().to_vec();
    let right: bool = kani::any();
    let add_bounds: bool = kani::any();
    let fits = if add_bounds { L == 3 } else { L == 1 };
    let ok = x.titer().vcut(&bins, &labels, right, add_bounds).is_ok();
    assert!(ok == fits, "vcut accepts exactly the matching number of labels");
    if ok {
        observe(
            ALL,
            || match x.titer().vcut(&bins, &labels, right, add_bounds) {
                Ok(it) => it,
                Err(_) => unreachable!(),
            },
            N + 1,
            Some(N),
        );
    }
    ok
}

h!(#[kani::stub(std::fmt::format, crate::util::fmt_stub)] c09_vcut_n1_l1, 7, vcut_vec::<1, 1>());
h!(#[kani::stub(std::fmt::format, crate::util::fmt_stub)] c09_vcut_n1_l3, 7, vcut_vec::<1, 3>());
h!(#[cfg(feature = "thorough")] #[kani::stub(std::fmt::format, crate::util::fmt_stub)] c09_vcut_n2_l3, 8, vcut_vec::<2, 3>());
h!(#[cfg(feature = "thorough")] #[kani::stub(std::fmt::format, crate::util::fmt_stub)] c09_vcut_n2_l1, 8, vcut_vec::<2, 1>());
h!(#[cfg(feature = "thorough")] #[kani::stub(std::fmt::format, crate::util::fmt_stub)] c09_vcut_n0_l3, 7, vcut_vec::<0, 3>());

// ---------------------------------------------------------------------------------------------
// 8. vpartition / varg_partition: kth in 0..=N+2, sort and rev symbolic
// ---------------------------------------------------------------------------------------------

pub fn part_params(len: usize) -> (usize, bool, bool, bool) {
    let kth: usize = kani::any();
    kani::assume(kth <= len + 2);
    let sort: bool = kani::any();
    let rev: bool = kani::any();
    kani::cover!(kth + 1 > len, "kth + 1 > len");
    (kth, sort, rev, if len >= 2 { kth + 1 < len } else { kth + 1 > len })
}

pub fn part_vec<const N: usize>(p: u8) -> bool {
    let x: [Option<i32>; N] = kani::any();
    let (kth, sort, rev, w) = part_params(N);
    observe(p, || x.vpartition(kth, sort, rev), N + 3, None);
    w
}

pub fn argpart_vec<const N: usize>(p: u8) -> bool {
    let x: [Option<i32>; N] = kani::any();
    let (kth, sort, rev, w) = part_params(N);
    observe(p, || x.varg_partition(kth, sort, rev), N + 3, None);
    w
}

h!(c09_vpartition_total_n01, 7, {
    part_vec::<0>(COLLECT | TOTAL);
    part_vec::<1>(COLLECT | TOTAL)
});
h!(c09_vpartition_total_n2, 8, part_vec::<2>(COLLECT | TOTAL));
h!(c09_vpartition_total_n3, 9, part_vec::<3>(TOTAL));
h!(c09_vpartition_steps_n2, 8, part_vec::<2>(STEPS));
h!(c09_vargpartition_total_n01, 7, {
    argpart_vec::<0>(COLLECT | TOTAL);
    argpart_vec::<1>(COLLECT | TOTAL)
});
h!(c09_vargpartition_total_n2, 8, argpart_vec::<2>(COLLECT | TOTAL));
h!(c09_vargpartition_total_n3, 9, argpart_vec::<3>(TOTAL));
h!(c09_vargpartition_steps_n2, 8, argpart_vec::<2>(STEPS));

h!(#[cfg(feature = "thorough")] c09_vpartition_collect_n3, 9, part_vec::<3>(COLLECT));
h!(#[cfg(feature = "thorough")] c09_vargpartition_collect_n3, 9, argpart_vec::<3>(COLLECT));
h!(#[cfg(feature = "thorough")] c09_vpartition_total_n4, 10, part_vec::<4>(TOTAL));
h!(#[cfg(feature = "thorough")] c09_vargpartition_total_n4, 10, argpart_vec::<4>(TOTAL));

// ---------------------------------------------------------------------------------------------
// 9. rolling_custom_iter: window in 1..=N+2
// ---------------------------------------------------------------------------------------------

pub fn win_param(len: usize) -> (usize, bool) {
    let w: usize = kani::any();
    kani::assume(w >= 1 && w <= len + 2);
    kani::cover!(w > len, "window > len");
    (w, if len >= 2 { w > 1 && w < len } else { w > len })
}

pub fn rolling_vec<const N: usize>(p: u8) -> bool {
    let x: [i32; N] = kani::any();
    let v = x.to_vec();
    let (w, wit) = win_param(N);
    observe(p, || v.rolling_custom_iter(w, |s: &[i32]| s.len()), N + 1, Some(N));
    wit
}

pub fn rolling_deque<const N: usize>(p: u8) -> bool {
    let x: [i32; N] = kani::any();
    let v = deque_rot(&x[..], 1);
    let (w, wit) = win_param(N);
    observe(p, || v.rolling_custom_iter(w, |s| ExactSizeIterator::len(&s)), N + 1, Some(N));
    wit
}

pub fn rolling_nd<const N: usize>(p: u8) -> bool {
    let x: [i32; N] = kani::any();
    let v = nd_owned(&x[..]);
    let (w, wit) = win_param(N);
    observe(p, || v.rolling_custom_iter(w, |s: ArrayView1<'_, i32>| s.len()), N + 1, Some(N));
    wit
}

h!(c09_rolling_total_vec_n03, 8, {
    rolling_vec::<0>(COLLECT | TOTAL);
    rolling_vec::<3>(COLLECT | TOTAL)
});
h!(c09_rolling_steps_vec_n2, 7, rolling_vec::<2>(STEPS));
h!(#[cfg(feature = "thorough")] c09_rolling_total_vec_n4, 9, rolling_vec::<4>(COLLECT | TOTAL));
h!(#[cfg(feature = "thorough")] c09_rolling_total_deque_n2, 7, rolling_deque::<2>(COLLECT | TOTAL));
h!(#[cfg(feature = "thorough")] c09_rolling_total_nd_n2, 7, rolling_nd::<2>(COLLECT | TOTAL));

// ---------------------------------------------------------------------------------------------
// 10. range / linspace generators. `tea_core::linspace` is a private module: the `Linspace`
//     iterator is reached through `Vec1Create::{range, linspace}` of a probing container whose
//     `collect_from_trusted` performs the TOTAL and STEPS observations on the iterator it is
//     handed; the Vec container performs the COLLECT observation.
// ---------------------------------------------------------------------------------------------

pub struct Probe<T> {
    pub h0: usize,
    pub count: usize,
    pub trusted: bool,
    _p: PhantomData<T>,
}

pub const PROBE_CAP: usize = 7;

impl<T> GetLen for Probe<T> {
    fn len(&self) -> usize {
        self.count
    }
}

impl<T: Clone> TIter<T> for Probe<T> {
    fn titer(&self) -> impl TIterator<Item = T> + '_ {
        std::iter::empty()
    }
}

impl<T: Clone> Vec1View<T> for Probe<T> {
    type SliceOutput<'a>
        = &'a [T]
    where
        Self: 'a;

    fn get_backend_name(&self) -> &'static str {
        "probe"
    }

    fn slice<'a>(&'a self, _start: usize, _end: usize) -> TResult<Self::SliceOutput<'a>>
    where
        T: 'a,
    {
        Ok(&[])
    }

    unsafe fn uget(&self, _index: usize) -> T {
        unreachable!()
    }
}

pub struct ProbeUninit<T>(PhantomData<T>);

impl<T> GetLen for ProbeUninit<T> {
    fn len(&self) -> usize {
        0
    }
}

impl<T: Clone> UninitVec<T> for ProbeUninit<T> {
    type Vec = Probe<T>;
    unsafe fn assume_init(self) -> Probe<T> {
        unreachable!()
    }
}

impl<T: Clone> Vec1<T> for Probe<T> {
    type Uninit = ProbeUninit<T>;
    type UninitRefMut<'a>
        = &'a mut [MaybeUninit<T>]
    where
        T: 'a;

    fn collect_from_iter<I: Iterator<Item = T>>(_iter: I) -> Self {
        Probe { h0: 0, count: 0, trusted: false, _p: PhantomData }
    }

    fn uninit(_len: usize) -> Self::Uninit {
        ProbeUninit(PhantomData)
    }

    fn uninit_ref_mut(_u: &mut Self::Uninit) -> Self::UninitRefMut<'_> {
        &mut []
    }

    fn collect_from_trusted<I: TrustedLen<Item = T>>(mut it: I) -> Self {
        let h0 = hint(&it);
        assert!(h0 <= PROBE_CAP, "announced length is within the range expected for the parameters");
        let mut h = h0;
        let mut count = 0usize;
        while count <= PROBE_CAP {
            match it.next() {
                Some(_) => {
                    assert!(h >= 1, "an item is yielded only while the current hint is positive");
                    let h2 = hint(&it);
                    assert!(h2 + 1 == h, "the hint drops by exactly one with every yielded item");
                    h = h2;
                },
                None => {
                    assert!(h == 0, "the iterator is exhausted only when its current hint is zero");
                    break;
                },
            }
            count += 1;
        }
        assert!(count == h0, "front iteration yields exactly the announced number of items");
        Probe { h0, count, trusted: true, _p: PhantomData }
    }
}

/// integer range: start, end in -3..=3, step in {-2,-1,1,2}, direction of the step agrees with the
/// direction of the span (the opposite direction is a C19 question: the count is then negative)
pub fn gen_range_i32() -> bool {
    let a = small_i32(-3, 3);
    let b = small_i32(-3, 3);
    let s = small_i32(-2, 2);
    kani::assume(s != 0);
    kani::assume((b - a) * s >= 0);
    kani::cover!(s < 0 && a > b, "descending range");
    kani::cover!(a == b, "empty range");
    let p: Probe<i32> = Vec1Create::range(Some(a), b, Some(s));
    assert!(p.trusted, "range is collected through the trusted path");
    let v: Vec<i32> = Vec1Create::range(Some(a), b, Some(s));
    assert!(v.len() == p.h0, "Vec::range has the announced length");
    p.h0 >= 2
}

/// float range: small-integer end points, step in {±1/4, ±1/2, ±1, ±2}; a span against the
/// direction of the step gives a negative count that the f64 -> usize cast saturates to 0
pub fn gen_range_f64() -> bool {
    let a = small_i32(-1, 1) as f64;
    let b = small_i32(-1, 1) as f64;
    let k = small_i32(-2, 2);
    kani::assume(k != 0);
    let quarter: bool = kani::any();
    let s = if quarter { k as f64 / 4.0 } else { k as f64 };
    kani::assume((b - a) / s <= 7.0);
    kani::cover!(s < 0.0 && a < b, "step against the span");
    let p: Probe<f64> = Vec1Create::range(Some(a), b, Some(s));
    assert!(p.trusted, "range is collected through the trusted path");
    let v: Vec<f64> = Vec1Create::range(Some(a), b, Some(s));
    assert!(v.len() == p.h0, "Vec::range has the announced length");
    p.h0 >= 2
}

pub fn gen_linspace_i32() -> bool {
    let a = small_i32(-4, 4);
    let b = small_i32(-4, 4);
    let num = any_rem(4);
    kani::cover!(num == 1, "single point");
    let p: Probe<i32> = Vec1Create::linspace(Some(a), b, num);
    assert!(p.trusted && p.h0 == num, "linspace announces the requested number of points");
    let v: Vec<i32> = Vec1Create::linspace(Some(a), b, num);
    assert!(v.len() == num, "Vec::linspace has the requested length");
    num >= 2
}

pub fn gen_linspace_f64() -> bool {
    let a = small_i32(-4, 4) as f64;
    let b = small_i32(-4, 4) as f64;
    let num = any_rem(4);
    let p: Probe<f64> = Vec1Create::linspace(Some(a), b, num);
    assert!(p.trusted && p.h0 == num, "linspace announces the requested number of points");
    let v: Vec<f64> = Vec1Create::linspace(Some(a), b, num);
    assert!(v.len() == num, "Vec::linspace has the requested length");
    num >= 2
}

h!(c09_range_i32, 10, gen_range_i32());
h!(c09_range_f64, 10, gen_range_f64());
h!(c09_linspace_i32, 10, gen_linspace_i32());
h!(c09_linspace_f64, 10, gen_linspace_f64());

// ---------------------------------------------------------------------------------------------
// 11. concrete depth-2 pipelines (sanity witnesses for the induction argument; thorough only)
//     and winsorize itself
// ---------------------------------------------------------------------------------------------

pub fn pipe_vshift2<const N: usize>() -> bool {
    let x: [Option<i32>; N] = kani::any();
    let n1 = small_i32(-(N as i32) - 1, N as i32 + 1);
    let n2 = small_i32(-(N as i32) - 1, N as i32 + 1);
    let f1: Option<Option<i32>> = kani::any();
    let f2: Option<Option<i32>> = kani::any();
    observe(COLLECT | TOTAL, || x.titer().vshift(n1, f1).vshift(n2, f2), N + 1, Some(N));
    n1 != 0 && n2 != 0
}

pub fn pipe_fill_vclip<const N: usize>() -> bool {
    let x: [Option<i32>; N] = kani::any();
    let d: Option<i32> = kani::any();
    let lo: Option<i32> = kani::any();
    let hi: Option<i32> = kani::any();
    let n = small_i32(-(N as i32) - 1, N as i32 + 1);
    observe(ALL, || x.titer().fill(d).vclip(lo, hi), N + 1, Some(N));
    observe(COLLECT | TOTAL, || x.titer().ffill(None).vclip(lo, hi).vshift(n, None), N + 1, Some(N));
    true
}

#[cfg(feature = "thorough")]
pub fn winsorize_vec<const N: usize>() -> bool {
    use tevec::map::{MapValidFinal, WinsorizeMethod};
    let x: [i32; N] = small_arr();
    let v = x.to_vec();
    let m: u8 = kani::any();
    kani::assume(m < 2);
    let method = if m == 0 { WinsorizeMethod::Median } else { WinsorizeMethod::Sigma };
    let q = small_i32(1, 3) as f64;
    let ok = v.winsorize(method, Some(q)).is_ok();
    if ok {
        observe(
            COLLECT | TOTAL,
            || match v.winsorize(method, Some(q)) {
                Ok(it) => it,
                Err(_) => unreachable!(),
            },
            N + 1,
            Some(N),
        );
    }
    ok
}

h!(#[cfg(feature = "thorough")] c09_pipe_vshift_vshift_n2, 7, pipe_vshift2::<2>());
h!(#[cfg(feature = "thorough")] c09_pipe_vshift_vshift_n3, 8, pipe_vshift2::<3>());
h!(#[cfg(feature = "thorough")] c09_pipe_fill_vclip_n3, 8, pipe_fill_vclip::<3>());
h!(#[cfg(feature = "thorough")] #[kani::stub(std::fmt::format, crate::util::fmt_stub)] c09_winsorize_n2, 8, winsorize_vec::<2>());
