//! C09 — trusted-length iterators yield exactly as many items as they announce.
//!
//! Three observations are made on every iterator the library hands out as `TrustedLen`
//! (`mk` builds the same iterator again for every observation, parameters are symbolic):
//!
//!  * COLLECT — `collect_trusted_to_vec()` (`collect_trusted_vec1::<Vec<_>>()` is the same code):
//!              the raw `ptr::write`s are seen by Kani's pointer checks; resulting `len == h`.
//!  * TOTAL   — read `size_hint().1 = h` before consumption, consume by plain safe iteration
//!              (front with `next`; back with `next_back` where the type is double-ended) and
//!              assert that exactly `h` items were yielded; shift-like adaptors additionally
//!              announce the input length.
//!  * STEPS   — re-read the hint after every `next`/`next_back` (symbolic interleaving where
//!              double-ended): an item is yielded only while the hint is positive, the hint
//!              drops by exactly one per yielded item and exhaustion happens exactly at hint 0.
//!              By induction over the remaining steps this is "remaining == current hint at
//!              every point of the consumption".
//!
//! "Arbitrary chains": every iterator-to-iterator adaptor is also checked over `AbsIter`, an
//! abstract inner iterator with symbolic remaining length <= 3, nondeterministic items and an exact
//! hint. An adaptor that maps contract-satisfying iterators to contract-satisfying iterators does
//! so at every depth of a pipeline.
//!
//! Lengths of containers are concrete (`const N`), everything else is `kani::any()`.
//!
//! Harness families that fail on the pinned tree are kept apart from the ones that hold:
//!   `c09_shift_*`            — `MapBasic::shift` has no `len <= |n|` guard (D1)
//!   `c09_*_steps*` of every adaptor built on `TrustIter` — `TrustIter::size_hint` keeps
//!                              announcing the initial length after items were taken (D2);
//!                              `c09_trustiter_steps` is the root-cause harness.
use std::collections::VecDeque;
use std::marker::PhantomData;
use std::mem::MaybeUninit;
use std::sync::Arc;

use ndarray::{Array1, ArrayView1, s};
use tea_core::prelude::*;
use tea_map::{MapBasic, MapValidBasic, MapValidVec};

use crate::util::*;

// ---------------------------------------------------------------------------------------------
// abstract inner iterator
// ---------------------------------------------------------------------------------------------

/// Contract-satisfying iterator about which nothing else is known: `rem` items remain, each item
/// is produced by `g` (a `kani::any()` generator, possibly constrained to the documented domain
/// of the adaptor under test), the hint is exact, both ends can be consumed.
pub struct AbsIter<T, G: Fn() -> T> {
    pub rem: usize,
    pub g: G,
}

impl<T, G: Fn() -> T> AbsIter<T, G> {
    pub fn with_len(rem: usize, g: G) -> Self {
        AbsIter { rem, g }
    }
}

impl<T, G: Fn() -> T> Iterator for AbsIter<T, G> {
    type Item = T;
    fn next(&mut self) -> Option<T> {
        if self.rem == 0 {
            None
        } else {
            self.rem -= 1;
            Some((self.g)())
        }
    }
    fn size_hint(&self) -> (usize, Option<usize>) {
        (self.rem, Some(self.rem))
    }
}

impl<T, G: Fn() -> T> DoubleEndedIterator for AbsIter<T, G> {
    fn next_back(&mut self) -> Option<T> {
        if self.rem == 0 {
            None
        } else {
            self.rem -= 1;
            Some((self.g)())
        }
    }
}

unsafe impl<T, G: Fn() -> T> TrustedLen for AbsIter<T, G> {}

/// symbolic remaining length of the abstract inner iterator
pub fn any_rem(max: usize) -> usize {
    let rem: usize = kani::any();
    kani::assume(rem <= max);
    rem
}
pub fn any_i32() -> i32 {
    kani::any()
}
pub fn any_opt() -> Option<i32> {
    kani::any()
}
/// i32 without the type minimum (`abs(i32::MIN)` is undefined in the language, DESIGN 5.6)
pub fn nonmin_i32() -> i32 {
    let v: i32 = kani::any();
    kani::assume(v != i32::MIN);
    v
}
pub fn nonmin_opt() -> Option<i32> {
    let v: Option<i32> = kani::any();
    kani::assume(v != Some(i32::MIN));
    v
}
pub fn small() -> i32 {
    small_i32(-100, 100)
}

// ---------------------------------------------------------------------------------------------
// observations
// ---------------------------------------------------------------------------------------------

/// upper bound of the current hint; a trusted-length iterator must announce one
pub fn hint<I: Iterator + ?Sized>(it: &I) -> usize {
    match it.size_hint().1 {
        Some(h) => h,
        None => {
            assert!(false, "trusted-length iterator announces an upper bound");
            0
        },
    }
}

/// consume from the front by plain iteration; `cap` bounds the harness loop (an over-yielding
/// iterator is stopped after cap+1 items, which is more than any honest hint in the harness).
pub fn total_front<I: Iterator>(mut it: I, cap: usize) -> usize {
    let h = hint(&it);
    assert!(h <= cap, "announced length is within the range expected for the parameters");
    let mut c = 0usize;
    while c <= cap {
        if it.next().is_none() {
            break;
        }
        c += 1;
    }
    assert!(c == h, "front iteration yields exactly the announced number of items");
    h
}

pub fn total_back<I: DoubleEndedIterator>(mut it: I, cap: usize) -> usize {
    let h = hint(&it);
    assert!(h <= cap, "announced length is within the range expected for the parameters");
    let mut c = 0usize;
    while c <= cap {
        if it.next_back().is_none() {
            break;
        }
        c += 1;
    }
    assert!(c == h, "back iteration yields exactly the announced number of items");
    h
}

/// trusted collection: Kani's pointer checks watch the raw writes; length == announced
pub fn collect_len<I: TrustedLen>(it: I) -> usize {
    let h = hint(&it);
    let v: Vec<I::Item> = it.collect_trusted_to_vec();
    assert!(v.len() == h, "collect_trusted_to_vec returns the announced length");
    h
}

/// One front pass with the hint re-read after every step: an item is yielded only while the hint
/// is positive, the hint drops by exactly one per item, exhaustion happens exactly at hint zero —
/// and therefore (asserted as well) the number of items equals the hint read before consumption.
pub fn walk_front<I: Iterator>(mut it: I, cap: usize) -> usize {
    let h0 = hint(&it);
    assert!(h0 <= cap, "announced length is within the range expected for the parameters");
    let mut h = h0;
    let mut k = 0usize;
    while k <= cap {
        match it.next() {
            Some(_) => {
                assert!(h >= 1, "an item is yielded only while the current hint is positive");
                let h2 = hint(&it);
                assert!(h2 + 1 == h, "the hint drops by exactly one with every yielded item");
                h = h2;
            },
            None => {
                assert!(h == 0, "the iterator is exhausted only when its current hint is zero");
                break;
            },
        }
        k += 1;
    }
    assert!(k == h0, "front iteration yields exactly the announced number of items");
    h0
}

/// The same over a symbolic interleaving of `next` and `next_back` (all-front and all-back are
/// among the interleavings); second component: both ends were used.
pub fn walk_both<I: DoubleEndedIterator>(mut it: I, cap: usize) -> (usize, bool) {
    let h0 = hint(&it);
    assert!(h0 <= cap, "announced length is within the range expected for the parameters");
    let mut h = h0;
    let mut k = 0usize;
    let mut mixed = (false, false);
    while k <= cap {
        let back: bool = kani::any();
        let r = if back { it.next_back() } else { it.next() };
        match r {
            Some(_) => {
                assert!(h >= 1, "an item is yielded only while the current hint is positive");
                let h2 = hint(&it);
                assert!(h2 + 1 == h, "the hint drops by exactly one with every yielded item");
                h = h2;
                if back {
                    mixed.1 = true
                } else {
                    mixed.0 = true
                }
            },
            None => {
                assert!(h == 0, "the iterator is exhausted only when its current hint is zero");
                break;
            },
        }
        k += 1;
    }
    assert!(k == h0, "interleaved iteration yields exactly the announced number of items");
    (h0, mixed.0 && mixed.1)
}

/// Copies of the STEPS observation with the adaptor named in the messages: the adaptors built on
/// `TrustIter` share one harness (`c09_steps_trustiter_adaptors_*`) and must stay distinguishable.
macro_rules! tagged_steps {
    ($name:ident, $m_pos:literal, $m_drop:literal, $m_end:literal) => {
        pub fn $name<I: Iterator>(mut it: I, cap: usize) {
            let mut h = hint(&it);
            let mut k = 0usize;
            while k <= cap {
                match it.next() {
                    Some(_) => {
                        assert!(h >= 1, $m_pos);
                        let h2 = hint(&it);
                        assert!(h2 + 1 == h, $m_drop);
                        h = h2;
                    },
                    None => {
                        assert!(h == 0, $m_end);
                        break;
                    },
                }
                k += 1;
            }
        }
    };
}
tagged_steps!(
    steps_shift,
    "shift: an item is yielded only while the current hint is positive",
    "shift: the hint drops by exactly one with every yielded item",
    "shift: the iterator is exhausted only when its current hint is zero"
);
tagged_steps!(
    steps_vshift,
    "vshift: an item is yielded only while the current hint is positive",
    "vshift: the hint drops by exactly one with every yielded item",
    "vshift: the iterator is exhausted only when its current hint is zero"
);
tagged_steps!(
    steps_vdiff,
    "vdiff: an item is yielded only while the current hint is positive",
    "vdiff: the hint drops by exactly one with every yielded item",
    "vdiff: the iterator is exhausted only when its current hint is zero"
);
tagged_steps!(
    steps_vpct,
    "vpct_change: an item is yielded only while the current hint is positive",
    "vpct_change: the hint drops by exactly one with every yielded item",
    "vpct_change: the iterator is exhausted only when its current hint is zero"
);
tagged_steps!(
    steps_part,
    "vpartition: an item is yielded only while the current hint is positive",
    "vpartition: the hint drops by exactly one with every yielded item",
    "vpartition: the iterator is exhausted only when its current hint is zero"
);
tagged_steps!(
    steps_argpart,
    "varg_partition: an item is yielded only while the current hint is positive",
    "varg_partition: the hint drops by exactly one with every yielded item",
    "varg_partition: the iterator is exhausted only when its current hint is zero"
);
tagged_steps!(
    steps_rolling,
    "rolling_custom_iter: an item is yielded only while the current hint is positive",
    "rolling_custom_iter: the hint drops by exactly one with every yielded item",
    "rolling_custom_iter: the iterator is exhausted only when its current hint is zero"
);

pub const COLLECT: u8 = 1;
/// count only (adaptors built on `TrustIter`, whose hint is stale after the first item: D2)
pub const TOTAL: u8 = 2;
/// steps + count
pub const WALK: u8 = 4;

fn same_len(h: usize, want: Option<usize>) {
    if let Some(w) = want {
        assert!(h == w, "announced length equals the input length");
    }
}

/// the selected observations (`p` is a constant at every call site), each on a fresh iterator.
/// COLLECT runs first so that an out-of-bounds write is reported even where TOTAL fails.
pub fn observe<I: TrustedLen, F: Fn() -> I>(p: u8, mk: F, cap: usize, want: Option<usize>) {
    if p & COLLECT != 0 {
        same_len(collect_len(mk()), want);
    }
    if p & TOTAL != 0 {
        same_len(total_front(mk(), cap), want);
    }
    if p & WALK != 0 {
        same_len(walk_front(mk(), cap), want);
    }
}

/// observations for a double-ended iterator (container iterators, mapped views)
pub fn observe_de<I: TIterator, F: Fn() -> I>(p: u8, mk: F, cap: usize, want: Option<usize>) -> bool {
    if p & COLLECT != 0 {
        same_len(collect_len(mk()), want);
    }
    if p & TOTAL != 0 {
        same_len(total_front(mk(), cap), want);
        total_back(mk(), cap);
    }
    let (h, mixed) = walk_both(mk(), cap);
    same_len(h, want);
    mixed
}

/// vacuity witness of a harness instance (returned by the generic bodies)
pub fn witness(w: bool) {
    kani::cover!(w, "interesting region of the parameter space reached and passed");
}

// ---------------------------------------------------------------------------------------------
// 1. container iterators
// ---------------------------------------------------------------------------------------------

pub const CW: u8 = COLLECT | WALK;

pub fn titer_vec<const N: usize>(p: u8) -> bool {
    let x: [i32; N] = kani::any();
    let v: Vec<i32> = x.to_vec();
    let w = observe_de(p, || v.titer(), N + 1, Some(N));
    observe_de(p, || x.titer(), N + 1, Some(N));
    let sl: &[i32] = &x[..];
    observe_de(p, || sl.titer(), N + 1, Some(N));
    w
}

pub fn titer_into<const N: usize>(p: u8) -> bool {
    let x: [i32; N] = kani::any();
    let v: Vec<i32> = x.to_vec();
    let w = observe_de(p, || v.clone().into_titer(), N + 1, Some(N));
    let h = hint(&v.titer());
    let c: Vec<i32> = v.titer().collect_trusted_vec1();
    assert!(c.len() == h, "collect_trusted_vec1 returns the announced length");
    w
}

pub fn titer_arc<const N: usize>(p: u8) -> bool {
    let x: [i32; N] = kani::any();
    let v = Arc::new(x.to_vec());
    observe_de(p, || v.titer(), N + 1, Some(N))
}

pub fn titer_deque<const N: usize>(p: u8) -> bool {
    let x: [i32; N] = kani::any();
    let rot: usize = kani::any();
    kani::assume(rot <= N);
    let v = deque_rot(&x[..], rot);
    kani::cover!(rot > 0 || N == 0, "ring buffer rotated");
    observe_de(p, || v.titer(), N + 1, Some(N))
}

pub fn titer_nd<const N: usize>(p: u8) -> bool {
    let x: [i32; N] = kani::any();
    let a = nd_owned(&x[..]);
    let w = observe_de(p, || a.titer(), N + 1, Some(N));
    let view = a.view();
    observe_de(p, || view.titer(), N + 1, Some(N));
    w
}

pub fn titer_nd_rev<const N: usize>(p: u8) -> bool {
    let x: [i32; N] = kani::any();
    let st = nd_rev_storage(&x[..]);
    let rv = st.slice(s![..;-1]);
    observe_de(p, || rv.titer(), N + 1, Some(N))
}

pub fn titer_nd_step<const N: usize>(p: u8) -> bool {
    let x: [i32; N] = kani::any();
    let st2 = nd_step_storage(&x[..], 2);
    let sv = st2.slice(s![..;2]);
    observe_de(p, || sv.titer(), N + 1, Some(N))
}

pub fn titer_opt<const N: usize>(p: u8) -> bool {
    let x: [Option<i32>; N] = kani::any();
    let v: Vec<Option<i32>> = x.to_vec();
    let o = v.opt();
    let w = observe_de(p, || o.titer(), N + 1, Some(N));
    observe(p, || (&o).into_iter(), N + 1, Some(N));
    w
}

/// the mapped views of Vec1View / TIter (`titer().map(..)`)
pub fn titer_mapped<const N: usize>(p: u8) -> bool {
    let x: [Option<i32>; N] = kani::any();
    let w = observe_de(p, || x.to_opt_iter(), N + 1, Some(N));
    observe_de(p, || x.opt_iter_cast::<i64>(), N + 1, Some(N));
    observe_de(p, || TIter::map(&x, |e| e.is_some()), N + 1, Some(N));
    let y: [i32; N] = kani::any();
    observe_de(p, || y.iter_cast::<i64>(), N + 1, Some(N));
    w
}

// empty containers: iteration only (a trusted collection of nothing into a capacity-0 Vec is
// pointer arithmetic on dangling addresses, which costs CBMC minutes and decides nothing)
#[kani::proof]
#[kani::unwind(6)]
pub fn c09_titer_empty() {
    let w: bool = {
        titer_vec::<0>(WALK);
        titer_arc::<0>(WALK);
        titer_opt::<0>(WALK);
        titer_deque::<0>(WALK);
        true
    };
    witness(w);
}

#[cfg(feature = "thorough")]
#[kani::proof]
#[kani::unwind(6)]
pub fn c09_titer_empty_nd() {
    let w: bool = {
        titer_into::<0>(WALK);
        titer_nd::<0>(WALK);
        true
    };
    witness(w);
}

#[kani::proof]
#[kani::unwind(6)]
pub fn c09_titer_vec_n1() {
    let w: bool = {
        titer_vec::<1>(CW | TOTAL);
        titer_into::<1>(CW);
        true
    };
    witness(w);
}

#[kani::proof]
#[kani::unwind(8)]
pub fn c09_titer_vec_n3() {
    witness(titer_vec::<3>(CW | TOTAL));
}

#[kani::proof]
#[kani::unwind(8)]
pub fn c09_titer_into_arc_n3() {
    let w: bool = {
        titer_arc::<3>(CW);
        titer_into::<3>(CW)
    };
    witness(w);
}

#[kani::proof]
#[kani::unwind(8)]
pub fn c09_titer_deque_n3() {
    witness(titer_deque::<3>(CW));
}

#[kani::proof]
#[kani::unwind(8)]
pub fn c09_titer_nd_n3() {
    witness(titer_nd::<3>(CW));
}

#[kani::proof]
#[kani::unwind(11)]
pub fn c09_titer_ndrev_n3() {
    witness(titer_nd_rev::<3>(CW));
}

#[cfg(feature = "thorough")]
#[kani::proof]
#[kani::unwind(11)]
pub fn c09_titer_ndstep_n3() {
    witness(titer_nd_step::<3>(CW));
}

#[kani::proof]
#[kani::unwind(8)]
pub fn c09_titer_opt_n3() {
    witness(titer_opt::<3>(CW));
}

#[kani::proof]
#[kani::unwind(7)]
pub fn c09_titer_mapped_n2() {
    witness(titer_mapped::<2>(CW));
}


#[cfg(feature = "thorough")]
#[kani::proof]
#[kani::unwind(9)]
pub fn c09_titer_vec_n4() {
    witness(titer_vec::<4>(CW | TOTAL));
}

#[cfg(feature = "thorough")]
#[kani::proof]
#[kani::unwind(9)]
pub fn c09_titer_deque_n4() {
    witness(titer_deque::<4>(CW | TOTAL));
}

#[cfg(feature = "thorough")]
#[kani::proof]
#[kani::unwind(9)]
pub fn c09_titer_nd_n4() {
    witness(titer_nd::<4>(CW | TOTAL));
}

#[cfg(feature = "thorough")]
#[kani::proof]
#[kani::unwind(11)]
pub fn c09_titer_ndrev_n4() {
    witness(titer_nd_rev::<4>(CW | TOTAL));
}

#[cfg(feature = "thorough")]
#[kani::proof]
#[kani::unwind(11)]
pub fn c09_titer_ndstep_n4() {
    witness(titer_nd_step::<4>(CW | TOTAL));
}

#[cfg(feature = "thorough")]
#[kani::proof]
#[kani::unwind(9)]
pub fn c09_titer_opt_n4() {
    witness(titer_opt::<4>(CW | TOTAL));
}

#[cfg(feature = "thorough")]
#[kani::proof]
#[kani::unwind(9)]
pub fn c09_titer_mapped_n4() {
    witness(titer_mapped::<4>(CW | TOTAL));
}


// ---------------------------------------------------------------------------------------------
// 2. TrustIter itself (root of every `to_trust(len)` adaptor)
// ---------------------------------------------------------------------------------------------

/// `to_trust(len)` around an iterator that really has `len` items: totals and collection.
pub fn trustiter_total() -> bool {
    let len = any_rem(3);
    observe(COLLECT | TOTAL, || (0..len).to_trust(len), 4, Some(len));
    total_back((0..len).to_trust(len), 4);
    len == 3
}

/// ... and the hint after partial consumption (D2): fails on the pinned tree.
pub fn trustiter_steps() -> bool {
    let len = any_rem(3);
    walk_both((0..len).to_trust(len), 4).1
}

#[kani::proof]
#[kani::unwind(7)]
pub fn c09_trustiter_total() {
    witness(trustiter_total());
}

#[kani::proof]
#[kani::unwind(7)]
pub fn c09_trustiter_steps() {
    witness(trustiter_steps());
}


// ---------------------------------------------------------------------------------------------
// 3. MapBasic::shift (unguarded), lag in -len-3..=len+3
// ---------------------------------------------------------------------------------------------

/// `within`: only lags with |n| <= len (where D1 does not strike)
pub fn shift_params(len: usize, within: bool) -> (i32, i32, bool) {
    let n = small_i32(-(len as i32) - 3, len as i32 + 3);
    let fill: i32 = kani::any();
    let na = n.unsigned_abs() as usize;
    if within {
        kani::assume(na <= len);
    }
    (n, fill, if len >= 2 { na > 0 && na < len } else { na >= len })
}

pub fn shift_vec<const N: usize>(p: u8, within: bool) -> bool {
    let v: Vec<i32> = kani::any::<[i32; N]>().to_vec();
    let (n, fill, w) = shift_params(N, within);
    observe(p, || v.titer().shift(n, fill), N + 1, Some(N));
    w
}

pub fn shift_abs(p: u8, within: bool) -> bool {
    let rem = any_rem(3);
    let (n, fill, w) = shift_params(rem, within);
    observe(p, || AbsIter::with_len(rem, any_i32).shift(n, fill), 4, Some(rem));
    w
}

// D1 — expected to fail on the pinned tree: for n < -len the iterator yields |n| items while
// announcing len (count mismatch; out-of-bounds `ptr::write` in the trusted collector), for
// n > len `len - n_abs` underflows.
#[kani::proof]
#[kani::unwind(7)]
pub fn c09_shift_beyond_total_n0() {
    witness(shift_vec::<0>(TOTAL, false));
}

#[kani::proof]
#[kani::unwind(9)]
pub fn c09_shift_beyond_total_n2() {
    witness(shift_vec::<2>(TOTAL, false));
}

#[kani::proof]
#[kani::unwind(8)]
pub fn c09_shift_beyond_collect_n1() {
    witness(shift_vec::<1>(COLLECT, false));
}

// the in-range lags on their own: hold
#[kani::proof]
#[kani::unwind(7)]
pub fn c09_shift_within_vec_n2() {
    witness(shift_vec::<2>(TOTAL, true));
}


#[cfg(feature = "thorough")]
#[kani::proof]
#[kani::unwind(7)]
pub fn c09_shift_within_collect_n2() {
    witness(shift_vec::<2>(COLLECT, true));
}

#[cfg(feature = "thorough")]
#[kani::proof]
#[kani::unwind(8)]
pub fn c09_shift_within_vec_n3() {
    witness(shift_vec::<3>(COLLECT | TOTAL, true));
}

#[cfg(feature = "thorough")]
#[kani::proof]
#[kani::unwind(10)]
pub fn c09_shift_beyond_vec_n3() {
    witness(shift_vec::<3>(COLLECT | TOTAL, false));
}

#[cfg(feature = "thorough")]
#[kani::proof]
#[kani::unwind(11)]
pub fn c09_shift_beyond_vec_n4() {
    witness(shift_vec::<4>(TOTAL, false));
}

#[cfg(feature = "thorough")]
#[kani::proof]
#[kani::unwind(10)]
pub fn c09_shift_beyond_abs() {
    witness(shift_abs(COLLECT | TOTAL, false));
}

#[cfg(feature = "thorough")]
#[kani::proof]
#[kani::unwind(8)]
pub fn c09_shift_within_abs() {
    witness(shift_abs(COLLECT | TOTAL, true));
}


// ---------------------------------------------------------------------------------------------
// 4. vshift (guarded), lag over the full i32 range
// ---------------------------------------------------------------------------------------------

pub fn lag_params(len: usize) -> (i32, bool) {
    let n: i32 = kani::any();
    kani::cover!(n == i32::MIN, "lag i32::MIN");
    kani::cover!(n == i32::MAX, "lag i32::MAX");
    kani::cover!(n.unsigned_abs() as usize > len, "|n| > len");
    kani::cover!(n == 0, "n == 0");
    let na = n.unsigned_abs() as usize;
    (n, if len >= 2 { na > 0 && na < len } else { na >= len })
}

pub fn vshift_vec<const N: usize>(p: u8) -> bool {
    let v: Vec<Option<i32>> = kani::any::<[Option<i32>; N]>().to_vec();
    let (n, w) = lag_params(N);
    let fill: Option<Option<i32>> = kani::any();
    observe(p, || v.titer().vshift(n, fill), N + 1, Some(N));
    w
}

pub fn vshift_abs(p: u8) -> bool {
    let rem = any_rem(3);
    let (n, w) = lag_params(rem);
    let fill: Option<Option<i32>> = kani::any();
    observe(p, || AbsIter::with_len(rem, any_opt).vshift(n, fill), 4, Some(rem));
    w
}

#[kani::proof]
#[kani::unwind(6)]
pub fn c09_vshift_total_vec_n01() {
    let w: bool = {
        vshift_vec::<0>(TOTAL);
        vshift_vec::<1>(TOTAL)
    };
    witness(w);
}

#[kani::proof]
#[kani::unwind(8)]
pub fn c09_vshift_total_vec_n3() {
    witness(vshift_vec::<3>(TOTAL));
}

#[kani::proof]
#[kani::unwind(7)]
pub fn c09_vshift_collect_vec_n2() {
    witness(vshift_vec::<2>(COLLECT));
}

#[kani::proof]
#[kani::unwind(8)]
pub fn c09_vshift_total_abs() {
    witness(vshift_abs(TOTAL));
}


#[cfg(feature = "thorough")]
#[kani::proof]
#[kani::unwind(7)]
pub fn c09_vshift_total_vec_n2() {
    witness(vshift_vec::<2>(TOTAL));
}

#[cfg(feature = "thorough")]
#[kani::proof]
#[kani::unwind(9)]
pub fn c09_vshift_total_vec_n4() {
    witness(vshift_vec::<4>(TOTAL));
}

#[cfg(feature = "thorough")]
#[kani::proof]
#[kani::unwind(8)]
pub fn c09_vshift_collect_vec_n3() {
    witness(vshift_vec::<3>(COLLECT));
}

#[cfg(feature = "thorough")]
#[kani::proof]
#[kani::unwind(9)]
pub fn c09_vshift_collect_vec_n4() {
    witness(vshift_vec::<4>(COLLECT));
}

#[cfg(feature = "thorough")]
#[kani::proof]
#[kani::unwind(8)]
pub fn c09_vshift_collect_abs() {
    witness(vshift_abs(COLLECT));
}


// ---------------------------------------------------------------------------------------------
// 5. vdiff / vpct_change (views), lag over the full i32 range
// ---------------------------------------------------------------------------------------------

pub fn small_arr<const N: usize>() -> [i32; N] {
    let x: [i32; N] = kani::any();
    let mut i = 0;
    while i < N {
        kani::assume(x[i] >= -100 && x[i] <= 100);
        i += 1;
    }
    x
}

/// i32 elements in -100..=100 (the subtraction cannot overflow), non-null fill
pub fn vdiff_vec<const N: usize>(p: u8) -> bool {
    let v: Vec<i32> = small_arr::<N>().to_vec();
    let (n, w) = lag_params(N);
    let fill = small();
    observe(p, || v.vdiff(n, Some(fill)), N + 1, Some(N));
    w
}

pub fn vpct_vec<const N: usize>(p: u8) -> bool {
    let v: Vec<i32> = small_arr::<N>().to_vec();
    let (n, w) = lag_params(N);
    observe(p, || v.vpct_change(n), N + 1, Some(N));
    w
}

#[kani::proof]
#[kani::unwind(6)]
pub fn c09_vdiff_total_vec_n01() {
    let w: bool = {
        vdiff_vec::<0>(TOTAL);
        vdiff_vec::<1>(TOTAL)
    };
    witness(w);
}

#[kani::proof]
#[kani::unwind(8)]
pub fn c09_vdiff_total_vec_n3() {
    witness(vdiff_vec::<3>(TOTAL));
}

#[kani::proof]
#[kani::unwind(7)]
pub fn c09_vdiff_collect_vec_n2() {
    witness(vdiff_vec::<2>(COLLECT));
}

#[kani::proof]
#[kani::unwind(6)]
pub fn c09_vpct_total_vec_n01() {
    let w: bool = {
        vpct_vec::<0>(TOTAL);
        vpct_vec::<1>(TOTAL)
    };
    witness(w);
}

#[kani::proof]
#[kani::unwind(8)]
pub fn c09_vpct_total_vec_n3() {
    witness(vpct_vec::<3>(TOTAL));
}

#[kani::proof]
#[kani::unwind(7)]
pub fn c09_vpct_collect_vec_n2() {
    witness(vpct_vec::<2>(COLLECT));
}


#[cfg(feature = "thorough")]
#[kani::proof]
#[kani::unwind(7)]
pub fn c09_vdiff_total_vec_n2() {
    witness(vdiff_vec::<2>(TOTAL));
}

#[cfg(feature = "thorough")]
#[kani::proof]
#[kani::unwind(9)]
pub fn c09_vdiff_total_vec_n4() {
    witness(vdiff_vec::<4>(TOTAL));
}

#[cfg(feature = "thorough")]
#[kani::proof]
#[kani::unwind(8)]
pub fn c09_vdiff_collect_vec_n3() {
    witness(vdiff_vec::<3>(COLLECT));
}

#[cfg(feature = "thorough")]
#[kani::proof]
#[kani::unwind(7)]
pub fn c09_vpct_total_vec_n2() {
    witness(vpct_vec::<2>(TOTAL));
}

#[cfg(feature = "thorough")]
#[kani::proof]
#[kani::unwind(9)]
pub fn c09_vpct_total_vec_n4() {
    witness(vpct_vec::<4>(TOTAL));
}

#[cfg(feature = "thorough")]
#[kani::proof]
#[kani::unwind(8)]
pub fn c09_vpct_collect_vec_n3() {
    witness(vpct_vec::<3>(COLLECT));
}


// ---------------------------------------------------------------------------------------------
// 6. map-based adaptors: abs/vabs, ffill(_mask), bfill(_mask), fill(_mask), vclip
//    (trusted collection + steps; concrete array input and abstract inner iterator)
// ---------------------------------------------------------------------------------------------

pub fn nonmin_arr<const N: usize>() -> [i32; N] {
    let x: [i32; N] = kani::any();
    let mut i = 0;
    while i < N {
        kani::assume(x[i] != i32::MIN);
        i += 1;
    }
    x
}

pub fn abs_vec<const N: usize>(p: u8) -> bool {
    let x: Vec<i32> = nonmin_arr::<N>().to_vec();
    observe(p, || x.titer().abs(), N + 1, Some(N));
    let y: [Option<i32>; N] = kani::any();
    let mut i = 0;
    while i < N {
        kani::assume(y[i] != Some(i32::MIN));
        i += 1;
    }
    let y = y.to_vec();
    observe(p, || y.titer().vabs(), N + 1, Some(N));
    true
}

pub fn abs_abs() -> bool {
    let rem = any_rem(3);
    observe(CW, || AbsIter::with_len(rem, nonmin_i32).abs(), 4, Some(rem));
    observe(CW, || AbsIter::with_len(rem, nonmin_opt).vabs(), 4, Some(rem));
    rem == 3
}

pub fn ffill_vec<const N: usize>(p: u8) -> bool {
    let x: Vec<Option<i32>> = kani::any::<[Option<i32>; N]>().to_vec();
    let d: Option<Option<i32>> = kani::any();
    let k: Option<i32> = kani::any();
    observe(p, || x.titer().ffill(d), N + 1, Some(N));
    observe(p, || x.titer().ffill_mask(move |e: &Option<i32>| *e == k, d), N + 1, Some(N));
    true
}

pub fn ffill_abs() -> bool {
    let rem = any_rem(3);
    let d: Option<Option<i32>> = kani::any();
    let k: Option<i32> = kani::any();
    observe(CW, || AbsIter::with_len(rem, any_opt).ffill(d), 4, Some(rem));
    observe(CW, || AbsIter::with_len(rem, any_opt).ffill_mask(move |e: &Option<i32>| *e == k, d), 4, Some(rem));
    rem == 3
}

pub fn bfill_vec<const N: usize>(p: u8) -> bool {
    let x: Vec<Option<i32>> = kani::any::<[Option<i32>; N]>().to_vec();
    let d: Option<Option<i32>> = kani::any();
    let k: Option<i32> = kani::any();
    observe(p, || x.titer().bfill(d), N + 1, Some(N));
    observe(p, || x.titer().bfill_mask(move |e: &Option<i32>| *e == k, d), N + 1, Some(N));
    true
}

/// `bfill` collects its reversed pass into a Vec: the remaining length of the abstract inner
/// iterator is enumerated (1, 2, 3) instead of symbolic (a Vec of symbolic capacity exhausts the
/// solver's memory); the empty case is run with the iteration-only observation
pub fn bfill_abs() -> bool {
    let d: Option<Option<i32>> = kani::any();
    let k: Option<i32> = kani::any();
    observe(WALK, || AbsIter::with_len(0, any_opt).bfill(d), 4, Some(0));
    observe(CW, || AbsIter::with_len(1, any_opt).bfill(d), 4, Some(1));
    observe(CW, || AbsIter::with_len(2, any_opt).bfill_mask(move |e: &Option<i32>| *e == k, d), 4, Some(2));
    observe(CW, || AbsIter::with_len(3, any_opt).bfill(d), 4, Some(3));
    observe(WALK, || AbsIter::with_len(3, any_opt).bfill_mask(move |e: &Option<i32>| *e == k, d), 4, Some(3));
    true
}

pub fn fill_vec<const N: usize>(p: u8) -> bool {
    let x: Vec<Option<i32>> = kani::any::<[Option<i32>; N]>().to_vec();
    let d: Option<i32> = kani::any();
    let k: Option<i32> = kani::any();
    observe(p, || x.titer().fill(d), N + 1, Some(N));
    observe(p, || x.titer().fill_mask(move |e: &Option<i32>| *e == k, d), N + 1, Some(N));
    true
}

pub fn fill_abs() -> bool {
    let rem = any_rem(3);
    let d: Option<i32> = kani::any();
    let k: Option<i32> = kani::any();
    observe(CW, || AbsIter::with_len(rem, any_opt).fill(d), 4, Some(rem));
    observe(CW, || AbsIter::with_len(rem, any_opt).fill_mask(move |e: &Option<i32>| *e == k, d), 4, Some(rem));
    rem == 3
}

/// the four bound modes are literal at the call sites (the boxed iterator's dynamic type then is
/// known to the symbolic execution; a symbolic mode costs 5x), the bound values are symbolic
pub fn vclip_vec<const N: usize>(p: u8) -> bool {
    let x: Vec<Option<i32>> = kani::any::<[Option<i32>; N]>().to_vec();
    let lo: i32 = kani::any();
    let hi: i32 = kani::any();
    observe(p, || x.titer().vclip(Some(lo), Some(hi)), N + 1, Some(N));
    observe(p, || x.titer().vclip(Some(lo), None), N + 1, Some(N));
    observe(p, || x.titer().vclip(None, Some(hi)), N + 1, Some(N));
    observe(p, || x.titer().vclip(None, None), N + 1, Some(N));
    true
}

pub fn vclip_abs() -> bool {
    let rem = any_rem(3);
    let lo: i32 = kani::any();
    let hi: i32 = kani::any();
    observe(CW, || AbsIter::with_len(rem, any_opt).vclip(Some(lo), Some(hi)), 4, Some(rem));
    observe(CW, || AbsIter::with_len(rem, any_opt).vclip(Some(lo), None), 4, Some(rem));
    observe(CW, || AbsIter::with_len(rem, any_opt).vclip(None, Some(hi)), 4, Some(rem));
    observe(CW, || AbsIter::with_len(rem, any_opt).vclip(None, None), 4, Some(rem));
    rem == 3
}

/// the tail of `winsorize`: `iter_cast::<f64>().vclip(min, max)`; bounds arbitrary floats, the
/// null-ness of the bounds literal
pub fn winsor_tail<const N: usize>() -> bool {
    let x: Vec<i32> = kani::any::<[i32; N]>().to_vec();
    let lo: f64 = kani::any();
    let hi: f64 = kani::any();
    kani::assume(!lo.is_nan() && !hi.is_nan());
    observe(CW, || x.iter_cast::<f64>().vclip(lo, hi), N + 1, Some(N));
    observe(CW, || x.iter_cast::<f64>().vclip(f64::NAN, hi), N + 1, Some(N));
    observe(WALK, || x.iter_cast::<f64>().vclip(f64::NAN, f64::NAN), N + 1, Some(N));
    true
}

#[kani::proof]
#[kani::unwind(6)]
pub fn c09_maps_empty() {
    let w: bool = {
        abs_vec::<0>(WALK);
        ffill_vec::<0>(WALK);
        bfill_vec::<0>(WALK);
        fill_vec::<0>(WALK);
        vclip_vec::<0>(WALK)
    };
    witness(w);
}

#[kani::proof]
#[kani::unwind(8)]
pub fn c09_abs_vec_n3() {
    witness(abs_vec::<3>(CW));
}

#[kani::proof]
#[kani::unwind(8)]
pub fn c09_abs_abs() {
    witness(abs_abs());
}

#[kani::proof]
#[kani::unwind(8)]
pub fn c09_ffill_vec_n3() {
    witness(ffill_vec::<3>(CW));
}

#[kani::proof]
#[kani::unwind(8)]
pub fn c09_ffill_abs() {
    witness(ffill_abs());
}

#[kani::proof]
#[kani::unwind(8)]
pub fn c09_bfill_vec_n3() {
    witness(bfill_vec::<3>(CW));
}

#[kani::proof]
#[kani::unwind(8)]
pub fn c09_bfill_abs() {
    witness(bfill_abs());
}

#[kani::proof]
#[kani::unwind(8)]
pub fn c09_fill_vec_n3() {
    witness(fill_vec::<3>(CW));
}

#[kani::proof]
#[kani::unwind(8)]
pub fn c09_fill_abs() {
    witness(fill_abs());
}

#[kani::proof]
#[kani::unwind(8)]
pub fn c09_vclip_vec_n3() {
    witness(vclip_vec::<3>(CW));
}

#[kani::proof]
#[kani::unwind(8)]
pub fn c09_vclip_abs() {
    witness(vclip_abs());
}

#[kani::proof]
#[kani::unwind(7)]
pub fn c09_winsor_tail_n2() {
    witness(winsor_tail::<2>());
}


#[cfg(feature = "thorough")]
#[kani::proof]
#[kani::unwind(9)]
pub fn c09_abs_vec_n4() {
    witness(abs_vec::<4>(CW));
}

#[cfg(feature = "thorough")]
#[kani::proof]
#[kani::unwind(9)]
pub fn c09_ffill_vec_n4() {
    witness(ffill_vec::<4>(CW));
}

#[cfg(feature = "thorough")]
#[kani::proof]
#[kani::unwind(9)]
pub fn c09_bfill_vec_n4() {
    witness(bfill_vec::<4>(CW));
}

#[cfg(feature = "thorough")]
#[kani::proof]
#[kani::unwind(9)]
pub fn c09_fill_vec_n4() {
    witness(fill_vec::<4>(CW));
}

#[cfg(feature = "thorough")]
#[kani::proof]
#[kani::unwind(9)]
pub fn c09_vclip_vec_n4() {
    witness(vclip_vec::<4>(CW));
}


// ---------------------------------------------------------------------------------------------
// 7. vcut: 1-2 values, 2 edges. `right` / `add_bounds` literal per harness (symbolic flags: no
//    answer in 900 s); the label count matches (a mismatch is an `Err`, no iterator exists)
// ---------------------------------------------------------------------------------------------

macro_rules! vcut_body {
    ($N:literal, $L:literal, $right:literal, $ab:literal, $p:expr) => {{
        let x: Vec<i32> = kani::any::<[i32; $N]>().to_vec();
        let bins: [i32; 2] = kani::any();
        let labels: [i32; $L] = kani::any();
        kani::cover!(bins[0] < bins[1], "ordered edges");
        observe(
            $p,
            || match x.titer().vcut(&bins, &labels, $right, $ab) {
                Ok(it) => it,
                Err(_) => {
                    assert!(false, "vcut accepts a matching number of labels");
                    unreachable!()
                },
            },
            $N + 1,
            Some($N),
        );
    }};
}

#[cfg(feature = "thorough")]
#[kani::proof]
#[kani::stub(std::fmt::format, crate::util::fmt_stub)]
#[kani::unwind(7)]
pub fn c09_vcut_n1_right_inner() {
    vcut_body!(1, 1, true, false, WALK);
}

#[kani::proof]
#[kani::stub(std::fmt::format, crate::util::fmt_stub)]
#[kani::unwind(7)]
pub fn c09_vcut_n1_left_bounds() {
    vcut_body!(1, 3, false, true, WALK);
}

#[cfg(feature = "thorough")]
#[kani::proof]
#[kani::stub(std::fmt::format, crate::util::fmt_stub)]
#[kani::unwind(7)]
pub fn c09_vcut_n1_collect() {
    vcut_body!(1, 1, false, false, COLLECT);
}

#[cfg(feature = "thorough")]
#[kani::proof]
#[kani::stub(std::fmt::format, crate::util::fmt_stub)]
#[kani::unwind(8)]
pub fn c09_vcut_n2_right_bounds() {
    vcut_body!(2, 3, true, true, WALK);
}

#[cfg(feature = "thorough")]
#[kani::proof]
#[kani::stub(std::fmt::format, crate::util::fmt_stub)]
#[kani::unwind(7)]
pub fn c09_vcut_n0_left_inner() {
    vcut_body!(0, 1, false, false, WALK);
}


// ---------------------------------------------------------------------------------------------
// 8. vpartition / varg_partition: kth in 0..=N+2, sort, rev.
//    kth, sort, rev and the null pattern are literal at every call site, the values symbolic:
//    a symbolic kth makes the length handed to the sort symbolic, a symbolic flag or valid-count
//    makes the boxed iterator's dynamic type symbolic (measured: no answer in 900 s at N = 1;
//    literal: 3-7 s per call).
// ---------------------------------------------------------------------------------------------

macro_rules! part_calls {
    ($f:ident, $p:expr, $x:expr, $cap:expr; $(($k:literal, $s:literal, $r:literal)),* $(,)?) => {
        $( observe($p, || $x.$f($k, $s, $r), $cap, None); )*
    };
}

/// quick grid at len 2: kth in {0, 1, 2, 4} (first, last, len, len+2) with both sort flags, rev alternating
macro_rules! part_grid2 {
    ($f:ident, $p:expr, $x:expr) => {
        part_calls!($f, $p, $x, 5;
            (0, false, false), (0, true, true), (0, false, true), (1, false, true), (1, true, false), (2, false, false),
            (2, true, true), (4, false, true), (4, true, false));   // (0, false, true): unsorted descending with more valid elements than kth+1 (seeded change C09-m4)
    };
}
/// the other half of the (sort, rev) grid at len 2
macro_rules! part_grid2b {
    ($f:ident, $p:expr, $x:expr) => {
        part_calls!($f, $p, $x, 5;
            (0, false, true), (0, true, false), (1, false, false), (1, true, true), (2, false, true),
            (2, true, false), (3, false, false), (3, true, true), (3, false, true), (3, true, false),
            (4, false, false), (4, true, true));
    };
}
macro_rules! part_grid3 {
    ($f:ident, $p:expr, $x:expr) => {
        part_calls!($f, $p, $x, 6;
            (0, false, false), (0, true, true), (1, false, true), (1, true, false), (2, false, false),
            (2, true, true), (3, false, true), (3, true, false), (4, false, false), (4, true, true),
            (5, false, true), (5, true, false));
    };
}

macro_rules! part_body {
    ($grid:ident, $f:ident, $p:expr, [$($pat:expr),*]) => {{
        let a: i32 = kani::any();
        let b: i32 = kani::any();
        let c: i32 = kani::any();
        let _ = (a, b, c);
        kani::cover!(a == b, "tie");
        $( { let x = $pat(a, b, c); $grid!($f, $p, x); } )*
    }};
}

fn p2_ss(a: i32, b: i32, _c: i32) -> Vec<Option<i32>> {
    vec![Some(a), Some(b)]
}
fn p2_ns(a: i32, _b: i32, _c: i32) -> Vec<Option<i32>> {
    vec![None, Some(a)]
}
fn p2_nn(_a: i32, _b: i32, _c: i32) -> Vec<Option<i32>> {
    vec![None, None]
}
fn p3_sss(a: i32, b: i32, c: i32) -> Vec<Option<i32>> {
    vec![Some(a), Some(b), Some(c)]
}
fn p3_sns(a: i32, b: i32, _c: i32) -> Vec<Option<i32>> {
    vec![Some(a), None, Some(b)]
}
fn p3_nsn(a: i32, _b: i32, _c: i32) -> Vec<Option<i32>> {
    vec![None, Some(a), None]
}
fn p3_nnn(_a: i32, _b: i32, _c: i32) -> Vec<Option<i32>> {
    vec![None, None, None]
}
fn p1_s(a: i32, _b: i32, _c: i32) -> Vec<Option<i32>> {
    vec![Some(a)]
}
fn p1_n(_a: i32, _b: i32, _c: i32) -> Vec<Option<i32>> {
    vec![None]
}
fn p0(_a: i32, _b: i32, _c: i32) -> Vec<Option<i32>> {
    kani::any::<[Option<i32>; 0]>().to_vec()
}
macro_rules! part_grid01 {
    ($f:ident, $p:expr, $x:expr) => {
        part_calls!($f, $p, $x, 4;
            (0, false, false), (0, true, true), (1, false, true), (1, true, false), (2, false, false), (3, true, true));
    };
}

#[kani::proof]
#[kani::unwind(8)]
pub fn c09_vpartition_total_n01() {
    part_body!(part_grid01, vpartition, TOTAL, [p0, p1_s]);
}

#[kani::proof]
#[kani::unwind(8)]
pub fn c09_vpartition_total_n2_valid() {
    part_body!(part_grid2, vpartition, TOTAL, [p2_ss]);
}

#[kani::proof]
#[kani::unwind(8)]
pub fn c09_vpartition_total_n2_nulls() {
    part_body!(part_grid2, vpartition, TOTAL, [p2_ns]);
}

#[kani::proof]
#[kani::unwind(8)]
pub fn c09_vargpartition_total_n01() {
    part_body!(part_grid01, varg_partition, TOTAL, [p0, p1_s]);
}

#[kani::proof]
#[kani::unwind(8)]
pub fn c09_vargpartition_total_n2_valid() {
    part_body!(part_grid2, varg_partition, TOTAL, [p2_ss]);
}

#[kani::proof]
#[kani::unwind(8)]
pub fn c09_vargpartition_total_n2_nulls() {
    part_body!(part_grid2, varg_partition, TOTAL, [p2_ns]);
}

#[cfg(feature = "thorough")]
#[kani::proof]
#[kani::unwind(8)]
pub fn c09_vpartition_total_n2_allnull() {
    part_body!(part_grid2, vpartition, TOTAL, [p2_nn, p1_n]);
}

#[cfg(feature = "thorough")]
#[kani::proof]
#[kani::unwind(8)]
pub fn c09_vargpartition_total_n2_allnull() {
    part_body!(part_grid2, varg_partition, TOTAL, [p2_nn, p1_n]);
}

#[cfg(feature = "thorough")]
#[kani::proof]
#[kani::unwind(8)]
pub fn c09_partition_collect_n2() {
    part_body!(part_grid2, vpartition, COLLECT, [p2_ns]);
}

#[cfg(feature = "thorough")]
#[kani::proof]
#[kani::unwind(8)]
pub fn c09_argpartition_collect_n2() {
    part_body!(part_grid2, varg_partition, COLLECT, [p2_ns]);
}


#[cfg(feature = "thorough")]
#[kani::proof]
#[kani::unwind(8)]
pub fn c09_vpartition_total_n2_rest() {
    part_body!(part_grid2b, vpartition, TOTAL, [p2_ss, p2_ns, p2_nn]);
}

#[cfg(feature = "thorough")]
#[kani::proof]
#[kani::unwind(8)]
pub fn c09_vargpartition_total_n2_rest() {
    part_body!(part_grid2b, varg_partition, TOTAL, [p2_ss, p2_ns, p2_nn]);
}

#[cfg(feature = "thorough")]
#[kani::proof]
#[kani::unwind(9)]
pub fn c09_vpartition_total_n3_valid() {
    part_body!(part_grid3, vpartition, TOTAL, [p3_sss]);
}

#[cfg(feature = "thorough")]
#[kani::proof]
#[kani::unwind(9)]
pub fn c09_vpartition_total_n3_nulls() {
    part_body!(part_grid3, vpartition, TOTAL, [p3_sns, p3_nsn, p3_nnn]);
}

#[cfg(feature = "thorough")]
#[kani::proof]
#[kani::unwind(9)]
pub fn c09_vargpartition_total_n3_valid() {
    part_body!(part_grid3, varg_partition, TOTAL, [p3_sss]);
}

#[cfg(feature = "thorough")]
#[kani::proof]
#[kani::unwind(9)]
pub fn c09_vargpartition_total_n3_nulls() {
    part_body!(part_grid3, varg_partition, TOTAL, [p3_sns, p3_nsn, p3_nnn]);
}

#[cfg(feature = "thorough")]
#[kani::proof]
#[kani::unwind(9)]
pub fn c09_partition_collect_n3() {
    part_body!(part_grid3, vpartition, COLLECT, [p3_sns]);
}

#[cfg(feature = "thorough")]
#[kani::proof]
#[kani::unwind(9)]
pub fn c09_argpartition_collect_n3() {
    part_body!(part_grid3, varg_partition, COLLECT, [p3_sns]);
}


// ---------------------------------------------------------------------------------------------
// 9. rolling_custom_iter: window in 1..=N+2
// ---------------------------------------------------------------------------------------------

pub fn win_param(len: usize) -> (usize, bool) {
    let w: usize = kani::any();
    kani::assume(w >= 1 && w <= len + 2);
    kani::cover!(w > len, "window > len");
    (w, if len >= 3 { w > 1 && w < len } else { w > len })
}

pub fn rolling_vec<const N: usize>(p: u8) -> bool {
    let x: [i32; N] = kani::any();
    let v = x.to_vec();
    let (w, wit) = win_param(N);
    observe(p, || v.rolling_custom_iter(w, |s: &[i32]| s.len()), N + 1, Some(N));
    wit
}

pub fn rolling_deque<const N: usize>(p: u8) -> bool {
    let x: [i32; N] = kani::any();
    let v = deque_rot(&x[..], 1);
    let (w, wit) = win_param(N);
    observe(p, || v.rolling_custom_iter(w, |s| ExactSizeIterator::len(&s)), N + 1, Some(N));
    wit
}

pub fn rolling_nd<const N: usize>(p: u8) -> bool {
    let x: [i32; N] = kani::any();
    let v = nd_owned(&x[..]);
    let (w, wit) = win_param(N);
    observe(p, || v.rolling_custom_iter(w, |s: ArrayView1<'_, i32>| s.len()), N + 1, Some(N));
    wit
}

#[kani::proof]
#[kani::unwind(8)]
pub fn c09_rolling_total_vec_n03() {
    let w: bool = {
        rolling_vec::<0>(TOTAL);
        rolling_vec::<3>(COLLECT | TOTAL)
    };
    witness(w);
}

#[cfg(feature = "thorough")]
#[kani::proof]
#[kani::unwind(9)]
pub fn c09_rolling_total_vec_n4() {
    witness(rolling_vec::<4>(COLLECT | TOTAL));
}

#[cfg(feature = "thorough")]
#[kani::proof]
#[kani::unwind(7)]
pub fn c09_rolling_total_deque_n2() {
    witness(rolling_deque::<2>(COLLECT | TOTAL));
}

#[cfg(feature = "thorough")]
#[kani::proof]
#[kani::unwind(7)]
pub fn c09_rolling_total_nd_n2() {
    witness(rolling_nd::<2>(COLLECT | TOTAL));
}


// ---------------------------------------------------------------------------------------------
// 10. D2 seen through the adaptors that wrap their pipeline in `TrustIter` (`to_trust(len)`):
//     the hint after partial consumption. Expected to fail on the pinned tree in every arm; the
//     arms are independent (symbolic selector) and name the adaptor in the assertion message.
//     `shift` is restricted to |n| <= len here (beyond that it is D1, c09_shift_beyond_len).
// ---------------------------------------------------------------------------------------------

macro_rules! arms {
    ($sel:ident; $($e:expr),* $(,)?) => {{
        let mut i = 0u8;
        $(
            if $sel == i {
                $e;
            }
            i += 1;
        )*
        i
    }};
}

/// quick tier: every adaptor at literal parameters, one arm per structural branch (lag > 0, lag < 0,
/// lag == 0 for the views; the three `to_trust` exits of the partitions; window 1 / inside / beyond)
#[kani::proof]
#[kani::unwind(7)]
pub fn c09_steps_trustiter_adaptors_n2() {
    let sel: u8 = kani::any();
    let x: Vec<i32> = small_arr::<2>().to_vec();
    let y: Vec<Option<i32>> = kani::any::<[Option<i32>; 2]>().to_vec();
    let sn = vec![Some(x[0]), None];
    let ss = vec![Some(x[0]), Some(x[1])];
    let f: i32 = kani::any();
    let n_arms = arms!(sel;
        steps_shift(x.titer().shift(1, f), 3),
        steps_shift(x.titer().shift(-1, f), 3),
        steps_vshift(y.titer().vshift(1, None), 3),
        steps_vshift(y.titer().vshift(-1, Some(Some(f))), 3),
        steps_vdiff(x.vdiff(1, Some(0)), 3),
        steps_vdiff(x.vdiff(-1, Some(0)), 3),
        steps_vdiff(x.vdiff(0, Some(0)), 3),
        steps_vpct(x.vpct_change(1), 3),
        steps_vpct(x.vpct_change(-1), 3),
        steps_vpct(x.vpct_change(0), 3),
        steps_part(sn.vpartition(0, false, false), 3),
        steps_part(sn.vpartition(1, false, true), 3),
        steps_part(ss.vpartition(0, true, false), 3),
        steps_argpart(sn.varg_partition(0, false, false), 3),
        steps_argpart(sn.varg_partition(1, true, true), 3),
        steps_argpart(ss.varg_partition(0, true, false), 3),
        steps_rolling(x.rolling_custom_iter(1, |s: &[i32]| s.len()), 3),
        steps_rolling(x.rolling_custom_iter(2, |s: &[i32]| s.len()), 3),
        steps_rolling(x.rolling_custom_iter(4, |s: &[i32]| s.len()), 3),
    );
    kani::cover!(sel >= n_arms, "selector free");
}

/// thorough tier: symbolic parameters, one harness per adaptor
pub fn steps_sym_shift<const N: usize>() -> bool {
    let x: Vec<i32> = small_arr::<N>().to_vec();
    let (n, fill, w) = shift_params(N, true);
    steps_shift(x.titer().shift(n, fill), N + 1);
    w
}
pub fn steps_sym_vshift<const N: usize>() -> bool {
    let y: Vec<Option<i32>> = kani::any::<[Option<i32>; N]>().to_vec();
    let (n, w) = lag_params(N);
    let fill: Option<Option<i32>> = kani::any();
    steps_vshift(y.titer().vshift(n, fill), N + 1);
    w
}
pub fn steps_sym_vdiff<const N: usize>() -> bool {
    let x: Vec<i32> = small_arr::<N>().to_vec();
    let (n, w) = lag_params(N);
    steps_vdiff(x.vdiff(n, Some(0)), N + 1);
    w
}
pub fn steps_sym_vpct<const N: usize>() -> bool {
    let x: Vec<i32> = small_arr::<N>().to_vec();
    let (n, w) = lag_params(N);
    steps_vpct(x.vpct_change(n), N + 1);
    w
}
pub fn steps_sym_rolling<const N: usize>() -> bool {
    let x: Vec<i32> = small_arr::<N>().to_vec();
    let (w, wit) = win_param(N);
    steps_rolling(x.rolling_custom_iter(w, |s: &[i32]| s.len()), N + 1);
    wit
}

#[cfg(feature = "thorough")]
#[kani::proof]
#[kani::unwind(8)]
pub fn c09_steps_shift_n3() {
    witness(steps_sym_shift::<3>());
}

#[cfg(feature = "thorough")]
#[kani::proof]
#[kani::unwind(8)]
pub fn c09_steps_vshift_n3() {
    witness(steps_sym_vshift::<3>());
}

#[cfg(feature = "thorough")]
#[kani::proof]
#[kani::unwind(8)]
pub fn c09_steps_vdiff_n3() {
    witness(steps_sym_vdiff::<3>());
}

#[cfg(feature = "thorough")]
#[kani::proof]
#[kani::unwind(8)]
pub fn c09_steps_vpct_n3() {
    witness(steps_sym_vpct::<3>());
}

#[cfg(feature = "thorough")]
#[kani::proof]
#[kani::unwind(8)]
pub fn c09_steps_rolling_n3() {
    witness(steps_sym_rolling::<3>());
}


#[cfg(feature = "thorough")]
#[kani::proof]
#[kani::unwind(8)]
pub fn c09_steps_vshift_abs() {
    let rem = any_rem(3);
    let (n, _) = lag_params(rem);
    let fill: Option<Option<i32>> = kani::any();
    steps_vshift(AbsIter::with_len(rem, any_opt).vshift(n, fill), 4);
}

// ---------------------------------------------------------------------------------------------
// 11. range / linspace generators. `tea_core::linspace` is a private module: the `Linspace`
//     iterator is reached through `Vec1Create::{range, linspace}` of a probing container whose
//     `collect_from_trusted` performs the step-wise observation on the iterator it is handed;
//     the Vec container performs the COLLECT observation.
// ---------------------------------------------------------------------------------------------

pub struct Probe<T> {
    pub h0: usize,
    pub trusted: bool,
    _p: PhantomData<T>,
}

pub const PROBE_CAP: usize = 7;

impl<T> GetLen for Probe<T> {
    fn len(&self) -> usize {
        self.h0
    }
}

impl<T: Clone> TIter<T> for Probe<T> {
    fn titer(&self) -> impl TIterator<Item = T> + '_ {
        std::iter::empty()
    }
}

impl<T: Clone> Vec1View<T> for Probe<T> {
    type SliceOutput<'a>
        = &'a [T]
    where
        Self: 'a;

    fn get_backend_name(&self) -> &'static str {
        "probe"
    }

    fn slice<'a>(&'a self, _start: usize, _end: usize) -> TResult<Self::SliceOutput<'a>>
    where
        T: 'a,
    {
        Ok(&[])
    }

    unsafe fn uget(&self, _index: usize) -> T {
        unreachable!()
    }
}

pub struct ProbeUninit<T>(PhantomData<T>);

impl<T> GetLen for ProbeUninit<T> {
    fn len(&self) -> usize {
        0
    }
}

impl<T: Clone> UninitVec<T> for ProbeUninit<T> {
    type Vec = Probe<T>;
    unsafe fn assume_init(self) -> Probe<T> {
        unreachable!()
    }
}

impl<T: Clone> Vec1<T> for Probe<T> {
    type Uninit = ProbeUninit<T>;
    type UninitRefMut<'a>
        = &'a mut [MaybeUninit<T>]
    where
        T: 'a;

    fn collect_from_iter<I: Iterator<Item = T>>(_iter: I) -> Self {
        Probe { h0: 0, trusted: false, _p: PhantomData }
    }

    fn uninit(_len: usize) -> Self::Uninit {
        ProbeUninit(PhantomData)
    }

    fn uninit_ref_mut(_u: &mut Self::Uninit) -> Self::UninitRefMut<'_> {
        &mut []
    }

    fn collect_from_trusted<I: TrustedLen<Item = T>>(it: I) -> Self {
        let h0 = walk_front(it, PROBE_CAP);
        Probe { h0, trusted: true, _p: PhantomData }
    }
}

/// integer range: start, end in -3..=3, step in {-2,-1,1,2}, direction of the step agrees with the
/// direction of the span (the opposite direction is a C19 question: the count is then negative)
pub fn gen_range_i32() -> bool {
    let a = small_i32(-3, 3);
    let b = small_i32(-3, 3);
    let s = small_i32(-2, 2);
    kani::assume(s != 0);
    kani::assume((b - a) * s >= 0);
    kani::cover!(s < 0 && a > b, "descending range");
    kani::cover!(a == b, "empty range");
    let p: Probe<i32> = Vec1Create::range(Some(a), b, Some(s));
    assert!(p.trusted, "range is collected through the trusted path");
    let v: Vec<i32> = Vec1Create::range(Some(a), b, Some(s));
    assert!(v.len() == p.h0, "Vec::range has the announced length");
    p.h0 >= 2
}

/// float range: small-integer end points, step in {±1/4, ±1/2, ±1, ±2}; a span against the
/// direction of the step gives a negative count that the f64 -> usize cast saturates to 0
pub fn gen_range_f64() -> bool {
    let a = small_i32(-1, 1) as f64;
    let b = small_i32(-1, 1) as f64;
    let k = small_i32(-2, 2);
    kani::assume(k != 0);
    let quarter: bool = kani::any();
    let s = if quarter { k as f64 / 4.0 } else { k as f64 };
    kani::assume((b - a) / s <= 7.0);
    kani::cover!(s < 0.0 && a < b, "step against the span");
    let p: Probe<f64> = Vec1Create::range(Some(a), b, Some(s));
    assert!(p.trusted, "range is collected through the trusted path");
    let v: Vec<f64> = Vec1Create::range(Some(a), b, Some(s));
    assert!(v.len() == p.h0, "Vec::range has the announced length");
    p.h0 >= 2
}

pub fn gen_linspace_i32() -> bool {
    let a = small_i32(-4, 4);
    let b = small_i32(-4, 4);
    let num = any_rem(4);
    kani::cover!(num == 1, "single point");
    let p: Probe<i32> = Vec1Create::linspace(Some(a), b, num);
    assert!(p.trusted && p.h0 == num, "linspace announces the requested number of points");
    let v: Vec<i32> = Vec1Create::linspace(Some(a), b, num);
    assert!(v.len() == num, "Vec::linspace has the requested length");
    num >= 2
}

pub fn gen_linspace_f64() -> bool {
    let a = small_i32(-4, 4) as f64;
    let b = small_i32(-4, 4) as f64;
    let num = any_rem(4);
    let p: Probe<f64> = Vec1Create::linspace(Some(a), b, num);
    assert!(p.trusted && p.h0 == num, "linspace announces the requested number of points");
    let v: Vec<f64> = Vec1Create::linspace(Some(a), b, num);
    assert!(v.len() == num, "Vec::linspace has the requested length");
    num >= 2
}

#[kani::proof]
#[kani::unwind(10)]
pub fn c09_range_i32() {
    witness(gen_range_i32());
}

#[kani::proof]
#[kani::unwind(10)]
pub fn c09_range_f64() {
    witness(gen_range_f64());
}

#[kani::proof]
#[kani::unwind(10)]
pub fn c09_linspace_i32() {
    witness(gen_linspace_i32());
}

#[kani::proof]
#[kani::unwind(10)]
pub fn c09_linspace_f64() {
    witness(gen_linspace_f64());
}


// ---------------------------------------------------------------------------------------------
// 12. concrete depth-2/3 pipelines (sanity witnesses for the induction argument; thorough tier).
//     The lags are literal: two symbolic lags behind two boxed stages give no answer in 2400 s
//     (DESIGN: none in 900 s), and vshift over vshift exhausts 12 GB even with literal lags —
//     the vshift-over-arbitrary-inner case is c09_vshift_total_abs / c09_vshift_collect_abs. `winsorize` itself (median / sigma, N = 2) exhausts 12 GB after
//     30 min and is not run; the iterator it returns is `iter_cast::<f64>().vclip(min, max)`,
//     which c09_winsor_tail_n2 covers for arbitrary bounds.
// ---------------------------------------------------------------------------------------------

pub fn pipe_fill_vclip<const N: usize>() -> bool {
    let x: Vec<Option<i32>> = kani::any::<[Option<i32>; N]>().to_vec();
    let d: Option<i32> = kani::any();
    let lo: i32 = kani::any();
    let hi: i32 = kani::any();
    observe(CW, || x.titer().fill(d).vclip(Some(lo), Some(hi)), N + 1, Some(N));
    observe(COLLECT | TOTAL, || x.titer().ffill(None).vclip(Some(lo), None).vshift(1, None), N + 1, Some(N));
    true
}

#[cfg(feature = "thorough")]
#[kani::proof]
#[kani::unwind(7)]
pub fn c09_pipe_fill_vclip_n2() {
    witness(pipe_fill_vclip::<2>());
}
