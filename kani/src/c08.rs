//! C08 — NaN and None are the same null, and nulls are transparent (Engine K part: order statistics,
//! extrema, counts, exact sums, first / last; encoding independence of the exact functions).
//!
//! Null transparency: a series `s` of concrete length N, described by integer keys
//! `[Option<i32>; N]`, and `s'` = `s` with ONE null inserted before a symbolic position p in 0..=N
//! (length M = N + 1) are run through the same function; the results must agree exactly. Every
//! insertion / deletion pattern of nulls is a composition of single insertions, so the one-step law
//! at every length gives the statement's "at any positions" by induction.
//! Arg-extrema: `r' = r + 1` if the null went in at or before the reported position (`p <= r`),
//! `r' = r` otherwise; null stays null.
//!
//! Encoding independence: one key array encoded as `Vec<f64>` (NaN) and as `Vec<Option<f64>>` (None,
//! never `Some(NaN)`, DESIGN 5.4) — results agree up to the encoding of the result; `ts_vmin` /
//! `ts_vsum` asked for `Vec<f64>` and for `Vec<Option<f64>>` output agree element-wise (NaN <-> None).
//!
//! Isolated (defect owned by C12: the `n == 1` shortcut of `vquantile` reads slot 0 instead of the
//! single valid element): `c08_quantile_single_valid_*` / `c08_median_single_valid_*`; the main
//! quantile harnesses assume that the number of valid elements is not 1.
use tea_agg::{AggValidExt, PercentileOfMethod, QuantileMethod, VecAggValidExt};
use tea_core::prelude::*;
use tea_map::MapValidVec;
use tea_rolling::*;

use crate::util::*;

// ---------------------------------------------------------------------------------------------
// keys and elements
// ---------------------------------------------------------------------------------------------

#[derive(Clone, Copy, PartialEq)]
pub enum Alpha {
    /// -2..=2: forces ties
    Small,
    /// unconstrained i32
    Any,
    /// -1000..=1000: i32 sums cannot overflow
    Sum,
}

pub fn keys<const N: usize>(alpha: Alpha) -> [Option<i32>; N] {
    let mut k = [None; N];
    let mut i = 0;
    while i < N {
        let v: i32 = match alpha {
            Alpha::Small => small_i32(-2, 2),
            Alpha::Any => kani::any(),
            Alpha::Sum => small_i32(-1000, 1000),
        };
        if kani::any() {
            k[i] = Some(v);
        }
        i += 1;
    }
    k
}

pub trait Elt: Copy + IsNone + PartialEq + Cast<f64> + 'static {
    fn from_key(k: Option<i32>) -> Self;
}
impl Elt for Option<i32> {
    fn from_key(k: Option<i32>) -> Self {
        k
    }
}
impl Elt for f64 {
    fn from_key(k: Option<i32>) -> Self {
        match k {
            Some(v) => v as f64,
            None => f64::NAN,
        }
    }
}
impl Elt for Option<f64> {
    fn from_key(k: Option<i32>) -> Self {
        match k {
            Some(v) => Some(v as f64),
            None => None,
        }
    }
}

pub fn to_vec<E: Elt, const N: usize>(k: &[Option<i32>; N]) -> Vec<E> {
    let mut v = Vec::with_capacity(N);
    let mut i = 0;
    while i < N {
        v.push(E::from_key(k[i]));
        i += 1;
    }
    v
}

pub fn n_valid<const N: usize>(k: &[Option<i32>; N]) -> usize {
    let mut n = 0;
    let mut i = 0;
    while i < N {
        if k[i].is_some() {
            n += 1;
        }
        i += 1;
    }
    n
}

/// `s` with a null inserted before position `p` (p in 0..=N); M must be N + 1
pub fn with_null<const N: usize, const M: usize>(s: &[Option<i32>; N], p: usize) -> [Option<i32>; M] {
    let mut t = [None; M];
    let mut i = 0;
    while i < M {
        if i < p && i < N {
            t[i] = s[i];
        } else if i > p {
            t[i] = s[i - 1];
        }
        i += 1;
    }
    t
}

pub fn any_pos<const N: usize>() -> usize {
    let p: usize = kani::any();
    kani::assume(p <= N);
    p
}

/// both null, or the same number
pub fn same_f64(a: f64, b: f64) -> bool {
    (a != a && b != b) || a == b
}

#[derive(Default)]
pub struct Fl {
    /// the null went in before a valid element
    pub before_valid: bool,
    /// the null went in after the last valid element
    pub after_all: bool,
    /// a non-null result
    pub value: bool,
    /// a null result (nothing valid)
    pub null: bool,
    /// the reported position moved
    pub shifted: bool,
    /// the reported position stayed
    pub stayed: bool,
    /// a percentile rank strictly between 0 and 1
    pub interior: bool,
}

pub fn ins_witness<const N: usize>(s: &[Option<i32>; N], p: usize, fl: &mut Fl) {
    let mut i = 0;
    let mut later = false;
    while i < N {
        if i >= p && s[i].is_some() {
            later = true;
        }
        i += 1;
    }
    let nv = n_valid(s);
    if later {
        fl.before_valid = true;
    }
    if !later && nv > 0 {
        fl.after_all = true;
    }
    if nv > 0 {
        fl.value = true;
    } else {
        fl.null = true;
    }
}

// ---------------------------------------------------------------------------------------------
// null insertion: extrema, arg-extrema, count, first / last
// ---------------------------------------------------------------------------------------------

pub fn shifted(r: Option<usize>, p: usize) -> Option<usize> {
    match r {
        None => None,
        Some(i) => Some(if p <= i { i + 1 } else { i }),
    }
}

pub fn ins_extrema<E: Elt, const N: usize, const M: usize>(alpha: Alpha, fl: &mut Fl)
where
    E::Inner: Number,
{
    let s = keys::<N>(alpha);
    let p = any_pos::<N>();
    let t: [Option<i32>; M] = with_null(&s, p);
    ins_witness(&s, p, fl);
    let (a, b): (Vec<E>, Vec<E>) = (to_vec(&s), to_vec(&t));
    assert!(a.titer().count_valid() == b.titer().count_valid(), "count_valid is unchanged by an inserted null");
    assert!(a.titer().count_none() + 1 == b.titer().count_none(), "count_none grows by one with an inserted null");
    assert!(a.titer().vmin() == b.titer().vmin(), "vmin is unchanged by an inserted null");
    assert!(a.titer().vmax() == b.titer().vmax(), "vmax is unchanged by an inserted null");
    let (r, r2) = (a.titer().vargmin(), b.titer().vargmin());
    assert!(r2 == shifted(r, p), "vargmin moves by one exactly when the null is inserted at or before it");
    if let Some(i) = r {
        if p <= i {
            fl.shifted = true;
        } else {
            fl.stayed = true;
        }
    }
    let (r, r2) = (a.titer().vargmax(), b.titer().vargmax());
    assert!(r2 == shifted(r, p), "vargmax moves by one exactly when the null is inserted at or before it");
    // valid elements are non-NaN, so `==` on the options is exact equality of the elements
    assert!(a.titer().vfirst() == b.titer().vfirst(), "vfirst is unchanged by an inserted null");
    assert!(a.titer().vlast() == b.titer().vlast(), "vlast is unchanged by an inserted null");
}

/// exact sums and the integer mean (one division of equal operands)
pub fn ins_sum<const N: usize, const M: usize>(fl: &mut Fl) {
    let s = keys::<N>(Alpha::Sum);
    let p = any_pos::<N>();
    let t: [Option<i32>; M] = with_null(&s, p);
    ins_witness(&s, p, fl);
    let (a, b): (Vec<Option<i32>>, Vec<Option<i32>>) = (s.to_vec(), t.to_vec());
    assert!(a.titer().vsum() == b.titer().vsum(), "vsum is unchanged by an inserted null");
    assert!(same_f64(a.titer().vmean(), b.titer().vmean()), "vmean of integers is unchanged by an inserted null");
}

// ---------------------------------------------------------------------------------------------
// null insertion: quantiles, median, percentile rank
// ---------------------------------------------------------------------------------------------

pub fn method_of(m: u8) -> QuantileMethod {
    match m {
        0 => QuantileMethod::Lower,
        1 => QuantileMethod::Higher,
        _ => QuantileMethod::MidPoint,
    }
}

pub const QS: [f64; 3] = [0.0, 0.5, 1.0];

/// no `.unwrap()`: its failure path formats and drops a `TError` (see c12.rs)
pub fn quantile_of<E: Elt>(v: &Vec<E>, q: f64, m: QuantileMethod) -> f64
where
    E::Inner: Number,
{
    match v.vquantile(q, m) {
        Ok(x) => x,
        Err(e) => {
            std::mem::forget(e);
            assert!(false, "q in [0, 1] is accepted");
            f64::NAN
        },
    }
}

/// `single`: restrict to exactly one valid element (the isolated slice), otherwise exclude it
pub fn ins_quantile<E: Elt, const N: usize, const M: usize>(alpha: Alpha, single: bool, fl: &mut Fl)
where
    E::Inner: Number,
{
    let s = keys::<N>(alpha);
    let nv = n_valid(&s);
    kani::assume((nv == 1) == single);
    let p = any_pos::<N>();
    let t: [Option<i32>; M] = with_null(&s, p);
    ins_witness(&s, p, fl);
    let qi: usize = kani::any();
    kani::assume(qi < 3);
    let m: u8 = kani::any();
    kani::assume(m < 3);
    let (a, b): (Vec<E>, Vec<E>) = (to_vec(&s), to_vec(&t));
    let (ra, rb) = (quantile_of(&a, QS[qi], method_of(m)), quantile_of(&b, QS[qi], method_of(m)));
    if single {
        assert!(same_f64(ra, rb), "vquantile of a single valid element is unchanged by an inserted null");
    } else {
        assert!(same_f64(ra, rb), "vquantile is unchanged by an inserted null");
    }
}

pub fn ins_median<E: Elt, const N: usize, const M: usize>(alpha: Alpha, single: bool, fl: &mut Fl)
where
    E::Inner: Number,
{
    let s = keys::<N>(alpha);
    let nv = n_valid(&s);
    kani::assume((nv == 1) == single);
    let p = any_pos::<N>();
    let t: [Option<i32>; M] = with_null(&s, p);
    ins_witness(&s, p, fl);
    let (a, b): (Vec<E>, Vec<E>) = (to_vec(&s), to_vec(&t));
    let (ra, rb) = (quantile_of(&a, 0.5, QuantileMethod::Linear), quantile_of(&b, 0.5, QuantileMethod::Linear));
    if single {
        assert!(same_f64(ra, rb), "vmedian of a single valid element is unchanged by an inserted null");
    } else {
        assert!(same_f64(ra, rb), "vmedian is unchanged by an inserted null");
    }
}

pub fn ins_percentile<E: Elt, const N: usize, const M: usize>(alpha: Alpha, fl: &mut Fl)
where
    E::Inner: Number,
{
    let s = keys::<N>(alpha);
    let p = any_pos::<N>();
    let t: [Option<i32>; M] = with_null(&s, p);
    ins_witness(&s, p, fl);
    let score: Option<i32> = if kani::any() {
        Some(match alpha {
            Alpha::Small => small_i32(-3, 3),
            _ => kani::any(),
        })
    } else {
        None
    };
    let m: u8 = kani::any();
    kani::assume(m < 3);
    let method = match m {
        0 => PercentileOfMethod::Rank,
        1 => PercentileOfMethod::Weak,
        _ => PercentileOfMethod::Strict,
    };
    let (a, b): (Vec<E>, Vec<E>) = (to_vec(&s), to_vec(&t));
    let ra = a.titer().vpercentile_of(E::from_key(score), method);
    let rb = b.titer().vpercentile_of(E::from_key(score), method);
    assert!(same_f64(ra, rb), "vpercentile_of is unchanged by an inserted null");
    if score.is_some() && ra == ra && ra > 0.0 && ra < 1.0 {
        fl.interior = true;
    }
}

// ---------------------------------------------------------------------------------------------
// encoding independence
// ---------------------------------------------------------------------------------------------

#[derive(Default)]
pub struct EFl {
    pub mixed: bool,
    pub null_first: bool,
    pub all_null: bool,
    pub null_out: bool,
    pub value_out: bool,
}

pub fn enc_witness<const N: usize>(k: &[Option<i32>; N], fl: &mut EFl) {
    let nv = n_valid(k);
    if nv > 0 && nv < N {
        fl.mixed = true;
    }
    if N > 0 && nv == 0 {
        fl.all_null = true;
    }
    if N > 0 && k[0].is_none() && nv > 0 {
        fl.null_first = true;
    }
}

/// NaN-encoded and None-encoded input give the same exact aggregations
pub fn enc_exact<const N: usize>(fl: &mut EFl) {
    let k = keys::<N>(Alpha::Small);
    enc_witness(&k, fl);
    let (a, b): (Vec<f64>, Vec<Option<f64>>) = (to_vec(&k), to_vec(&k));
    assert!(a.titer().count_valid() == b.titer().count_valid(), "count_valid agrees between the NaN and the None encoding");
    assert!(a.titer().count_none() == b.titer().count_none(), "count_none agrees between the NaN and the None encoding");
    assert!(a.titer().vmin() == b.titer().vmin(), "vmin agrees between the NaN and the None encoding");
    assert!(a.titer().vmax() == b.titer().vmax(), "vmax agrees between the NaN and the None encoding");
    assert!(a.titer().vargmin() == b.titer().vargmin(), "vargmin agrees between the NaN and the None encoding");
    assert!(a.titer().vargmax() == b.titer().vargmax(), "vargmax agrees between the NaN and the None encoding");
    // vfirst / vlast return the element in its own encoding: x <-> Some(x), never a null inside
    match (a.titer().vfirst(), b.titer().vfirst()) {
        (None, None) => {},
        (Some(x), Some(Some(y))) => assert!(x == y, "vfirst agrees between the NaN and the None encoding"),
        _ => assert!(false, "vfirst is null in one encoding exactly when it is null in the other"),
    }
    match (a.titer().vlast(), b.titer().vlast()) {
        (None, None) => {},
        (Some(x), Some(Some(y))) => assert!(x == y, "vlast agrees between the NaN and the None encoding"),
        _ => assert!(false, "vlast is null in one encoding exactly when it is null in the other"),
    }
}

pub fn enc_quantile<const N: usize>(fl: &mut EFl) {
    let k = keys::<N>(Alpha::Small);
    enc_witness(&k, fl);
    let qi: usize = kani::any();
    kani::assume(qi < 3);
    let (a, b): (Vec<f64>, Vec<Option<f64>>) = (to_vec(&k), to_vec(&k));
    let (ra, rb) = (quantile_of(&a, QS[qi], QuantileMethod::Lower), quantile_of(&b, QS[qi], QuantileMethod::Lower));
    assert!(same_f64(ra, rb), "vquantile(Lower) agrees between the NaN and the None encoding");
}

pub fn any_params<const N: usize>() -> (usize, Option<usize>) {
    let w: usize = kani::any();
    kani::assume(w >= 1 && w <= N + 1);
    let m: usize = kani::any();
    kani::assume(m <= N + 1);
    let mp = if kani::any() { Some(m) } else { None };
    (w, mp)
}

/// element-wise NaN <-> None, value <-> Some(value)
pub fn same_out<const N: usize>(a: &Vec<f64>, b: &Vec<Option<f64>>, fl: &mut EFl) -> bool {
    if a.len() != N || b.len() != N {
        return false;
    }
    let mut ok = true;
    let mut i = 0;
    while i < N {
        match b[i] {
            None => {
                fl.null_out = true;
                if a[i] == a[i] {
                    ok = false;
                }
            },
            Some(y) => {
                fl.value_out = true;
                if !(a[i] == y) {
                    ok = false;
                }
            },
        }
        i += 1;
    }
    ok
}

/// `ts_vmin` on Option<i32> data: f64 output vs Option<f64> output
pub fn enc_output_vmin<const N: usize>(fl: &mut EFl) {
    let k = keys::<N>(Alpha::Small);
    enc_witness(&k, fl);
    let (w, mp) = any_params::<N>();
    let v: Vec<Option<i32>> = k.to_vec();
    let a: Vec<f64> = v.ts_vmin(w, mp);
    let b: Vec<Option<f64>> = v.ts_vmin(w, mp);
    assert!(same_out::<N>(&a, &b, fl), "ts_vmin gives the same values as f64 (NaN) and as Option<f64> (None) output");
}

/// `ts_vsum` on Option<i32> data (|x| <= 1000): f64 output vs Option<f64> output
pub fn enc_output_vsum<const N: usize>(fl: &mut EFl) {
    let k = keys::<N>(Alpha::Sum);
    enc_witness(&k, fl);
    let (w, mp) = any_params::<N>();
    let v: Vec<Option<i32>> = k.to_vec();
    let a: Vec<f64> = v.ts_vsum(w, mp);
    let b: Vec<Option<f64>> = v.ts_vsum(w, mp);
    assert!(same_out::<N>(&a, &b, fl), "ts_vsum gives the same values as f64 (NaN) and as Option<f64> (None) output");
}

/// `ts_vmin` on the NaN and the None encoding of one float series (comparisons only)
pub fn enc_input_rolling<const N: usize>(fl: &mut EFl) {
    let k = keys::<N>(Alpha::Small);
    enc_witness(&k, fl);
    let (w, mp) = any_params::<N>();
    let (x, y): (Vec<f64>, Vec<Option<f64>>) = (to_vec(&k), to_vec(&k));
    let a: Vec<f64> = x.ts_vmin(w, mp);
    let b: Vec<Option<f64>> = y.ts_vmin(w, mp);
    assert!(same_out::<N>(&a, &b, fl), "ts_vmin agrees between NaN input / f64 output and None input / Option<f64> output");
    let a: Vec<f64> = x.ts_vmax(w, mp);
    let b: Vec<Option<f64>> = y.ts_vmax(w, mp);
    assert!(same_out::<N>(&a, &b, fl), "ts_vmax agrees between NaN input / f64 output and None input / Option<f64> output");
}

include!("c08_gen.rs");

// ---------------------------------------------------------------------------------------------
// null insertion: vrank (mapping entry point) — added after seeded change C08-m1
// ---------------------------------------------------------------------------------------------

/// `vrank(pct, rev)` of `s` and of `s` with one null inserted: every original element keeps its rank
/// (plain average rank, or the fraction of the valid count), the inserted null gets a null rank.
/// `pct` / `rev` are literals per harness (they select the code path of the closing-group branch).
pub fn ins_rank<E: Elt, const N: usize, const M: usize>(pct: bool, rev: bool, fl: &mut Fl) -> bool
where
    E::Inner: PartialOrd,
{
    let s = keys::<N>(Alpha::Small);
    let p = any_pos::<N>();
    let t: [Option<i32>; M] = with_null(&s, p);
    ins_witness(&s, p, fl);
    let (a, b): (Vec<E>, Vec<E>) = (to_vec(&s), to_vec(&t));
    let ra: Vec<f64> = a.vrank(pct, rev);
    let rb: Vec<f64> = b.vrank(pct, rev);
    assert!(ra.len() == N && rb.len() == M, "rank output is input-length");
    assert!(rb[p] != rb[p], "the inserted null gets a null rank");
    let mut tie_last = false;
    let mut i = 0;
    while i < N {
        let j = if i < p { i } else { i + 1 };
        assert!(same_f64(ra[i], rb[j]), "the rank of every element is unchanged by an inserted null");
        // witness: the element is one of at least two equal greatest (smallest when reversed) valid keys
        if let Some(x) = s[i] {
            let (mut eq, mut beyond) = (0usize, 0usize);
            let mut l = 0;
            while l < N {
                if let Some(y) = s[l] {
                    if y == x {
                        eq += 1;
                    } else if (!rev && y > x) || (rev && y < x) {
                        beyond += 1;
                    }
                }
                l += 1;
            }
            if eq > 1 && beyond == 0 {
                tie_last = true;
            }
        }
        i += 1;
    }
    tie_last
}

macro_rules! c08_rank_body {
    ($E:ty, $N:expr, $M:expr, $pct:expr, $rev:expr) => {{
        let mut fl = Fl::default();
        let tie_last = ins_rank::<$E, $N, $M>($pct, $rev, &mut fl);
        kani::cover!(fl.before_valid, "the null is inserted before a valid element");
        kani::cover!(fl.after_all, "the null is inserted after the last valid element");
        kani::cover!(tie_last, "a tie among the valid elements that sort last");
        kani::cover!(fl.null, "nothing valid: every rank null");
    }};
}

#[kani::proof]
#[kani::unwind(6)]
pub fn c08_ins_rank_f64_pct_n2() {
    c08_rank_body!(f64, 2, 3, true, false)
}

#[kani::proof]
#[kani::unwind(6)]
pub fn c08_ins_rank_opt_pct_rev_n2() {
    c08_rank_body!(Option<i32>, 2, 3, true, true)
}

#[kani::proof]
#[kani::unwind(6)]
pub fn c08_ins_rank_f64_plain_n2() {
    c08_rank_body!(f64, 2, 3, false, false)
}

#[kani::proof]
#[kani::unwind(7)]
pub fn c08_ins_rank_f64_pct_n3() {
    c08_rank_body!(f64, 3, 4, true, false)
}

#[cfg(feature = "thorough")]
#[kani::proof]
#[kani::unwind(7)]
pub fn c08_ins_rank_opt_pct_n3() {
    c08_rank_body!(Option<i32>, 3, 4, true, false)
}

#[cfg(feature = "thorough")]
#[kani::proof]
#[kani::unwind(7)]
pub fn c08_ins_rank_f64_plain_rev_n3() {
    c08_rank_body!(f64, 3, 4, false, true)
}

// ---------------------------------------------------------------------------------------------
// encoding independence of a two-series rolling function (pairwise deletion) — added after seeded change C08-m4
// ---------------------------------------------------------------------------------------------

/// `ts_vcov` of two series in the NaN encoding (f64 output) and in the None encoding (Option<f64> output): same nulls, same
/// values. The window is shorter than the series so that pairs expire (an expiring pair with a null on one side only is the
/// interesting case).
pub fn enc_input_vcov<const N: usize>(fl: &mut EFl) -> bool {
    // fixed distinct values, symbolic null masks: which pairs are complete is what the law is about, and symbolic float
    // values make CBMC solve two full rolling covariances (580 s at N = 3, and no time left for the playback run)
    let mut k1 = [None; N];
    let mut k2 = [None; N];
    let mut i = 0;
    while i < N {
        if kani::any() {
            k1[i] = Some(i as i32 + 1);
        }
        if kani::any() {
            k2[i] = Some(2 * (i as i32) * (i as i32) - 3);
        }
        i += 1;
    }
    enc_witness(&k1, fl);
    let w: usize = kani::any();
    kani::assume(w >= 1 && w < N);
    let m: usize = kani::any();
    kani::assume(m <= 2);
    let mp = Some(m);
    let (x1, y1): (Vec<f64>, Vec<Option<f64>>) = (to_vec(&k1), to_vec(&k1));
    let (x2, y2): (Vec<f64>, Vec<Option<f64>>) = (to_vec(&k2), to_vec(&k2));
    let a: Vec<f64> = x1.ts_vcov(&x2, w, mp);
    let b: Vec<Option<f64>> = y1.ts_vcov(&y2, w, mp);
    assert!(same_out::<N>(&a, &b, fl), "ts_vcov agrees between NaN input / f64 output and None input / Option<f64> output");
    // witness: the pair leaving the window at the last step is valid in the first series and null in the second
    N >= 2 && w + 1 <= N && k1[N - 1 - w].is_some() && k2[N - 1 - w].is_none()
}

#[kani::proof]
#[kani::stub(std::fmt::format, crate::util::fmt_stub)]
#[kani::unwind(5)]
pub fn c08_enc_input_vcov_n3() {
    let mut fl = EFl::default();
    let one_sided = enc_input_vcov::<3>(&mut fl);
    kani::cover!(one_sided, "a pair with a null in the second series only leaves the window");
    kani::cover!(fl.value_out, "a non-null covariance");
    kani::cover!(fl.null_out, "a null covariance");
}
