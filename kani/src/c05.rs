//! C05 — rolling outputs are input-length and null exactly during warm-up. Engine K part.
//!
//! (a) LENGTH LAW (this file): every rolling entry point of the pinned build — the 36 `ts_*` methods of
//!     `RollingValidFeature`, `RollingFeature`, `RollingValidCmp` (`RollingCmp` has no methods),
//!     `RollingValidNorm`, `RollingValidBinary`, `RollingValidReg`, `RollingValidRegBinary` — returns
//!     exactly N outputs for an input of N elements, N in {0,1,2,3} (empty in, empty out), and does not
//!     panic, for every window `w in 1..=N+2`, every explicit `min_periods in 0..=w` and omitted
//!     `min_periods` (extrema/rank family: omitted only for N >= w, DESIGN 5.3), every null mask.
//!     Inputs are `Vec<Option<i32>>` for the null-aware traits and `Vec<i32>` for `RollingFeature`
//!     (cheapest element types; the float work is irrelevant to the length); element values are bounded
//!     by |x| <= 1000 so that the T-typed accumulators of `ts_sum`/`ts_vsum` and the T-typed differences
//!     of `ts_vminmaxnorm` cannot overflow (value-range matters belong to C01/C03, not to the length law).
//!     Output container: `Vec<f64>` (`Vec<(f64,f64,f64)>` for `ts_vregx_all`).
//!     `ts_fdiff`/`ts_vfdiff` are behind cargo feature `fdiff`, which is not part of the pinned build.
//!
//! (b) NULL-MASK LAW of the extrema/rank/minmaxnorm family on `Option<i32>`: folded into the C03 oracles
//!     (`/verif/kani/src/c03.rs`): every `run_*` there asserts "output i is null IFF valid count of the
//!     window < effective min_periods (or the window has no valid element / the current element is null
//!     for rank and minmaxnorm / the spread is zero for minmaxnorm)" at every position, with the same
//!     quantification (N <= 4 quick, w in 1..=N+2, explicit min_periods 0..=w, omitted per 5.3). The
//!     C03 harnesses `c03_*_os_*`, `c03_*_oa_*`, `c03_*_is_*`, `c03_*_fs_*` are therefore evidence for C05 too.
//!     The null-mask law of the float kernels is Engine M's.
//!
//! Stubs (part of the claim): `std::fmt::format` -> empty String; `f64::sqrt`, `f64::powi`, `f64::mul_add` -> any f64
//! (over-approximation: whatever these return, the length and the absence of panics must hold); in the three
//! `ts_vregx_resid_*` harnesses additionally `AggValidBasic::{vmean,vstd,vskew}` -> drain the iterator, any f64.
//!
//! Isolated defects of the pinned tree (kept failing; the neighbouring harnesses exclude exactly them):
//!   `c05_len_vrank_n0`      — `ts_vrank` on empty input: `window - 1` with window = min(len, w) = 0.
//!   `c05_len_vcov_mp0_n1`   — `ts_vcov` with effective min_periods 0 and no valid pair yet: `(n - 1)` with
//!                             n = 0 (e.g. `ts_vcov(.., 1, None)` with a null first pair). The main binary
//!                             harnesses run `ts_vcov` with effective min_periods >= 1.
use tea_core::prelude::*;
use tea_rolling::*;

use crate::util::*;

#[derive(Clone, Copy)]
pub struct Par {
    pub w: usize,
    pub mp: Option<usize>,
    /// min(min_periods or floor(w/2), w)
    pub eff: usize,
}

/// w in 1..=N+2; min_periods explicit in 0..=w or omitted; `omitted_needs_full`: omitted only when N >= w
pub fn params<const N: usize>(omitted_needs_full: bool) -> Par {
    let w: usize = kani::any();
    kani::assume(w >= 1 && w <= N + 2);
    let explicit: bool = kani::any();
    let m: usize = kani::any();
    kani::assume(m <= w);
    if !explicit && omitted_needs_full {
        kani::assume(N >= w);
    }
    let mp = if explicit { Some(m) } else { None };
    let eff = if explicit { m } else { w / 2 };
    Par { w, mp, eff }
}

pub fn opt_input<const N: usize>() -> Vec<Option<i32>> {
    let a: [Option<i32>; N] = kani::any();
    let mut i = 0;
    while i < N {
        if let Some(v) = a[i] {
            kani::assume(v >= -1000 && v <= 1000);
        }
        i += 1;
    }
    a.to_vec()
}

pub fn int_input<const N: usize>() -> Vec<i32> {
    let a: [i32; N] = kani::any();
    let mut i = 0;
    while i < N {
        kani::assume(a[i] >= -1000 && a[i] <= 1000);
        i += 1;
    }
    a.to_vec()
}

/// one-series entry point: call, assert the length
macro_rules! len1 {
    ($v:expr, $p:expr, $n:expr, $f:ident) => {{
        let out: Vec<f64> = $v.$f($p.w, $p.mp);
        assert!(out.len() == $n, concat!(stringify!($f), ": exactly one output per input element"));
    }};
}
/// rank: all four (pct, rev) variants through symbolic flags
macro_rules! len_rank {
    ($v:expr, $p:expr, $n:expr) => {{
        let pct: bool = kani::any();
        let rev: bool = kani::any();
        let out: Vec<f64> = $v.ts_vrank($p.w, $p.mp, pct, rev);
        assert!(out.len() == $n, "ts_vrank: exactly one output per input element");
    }};
}
/// two-series entry point
macro_rules! len2 {
    ($v:expr, $o:expr, $p:expr, $n:expr, $f:ident) => {{
        let out: Vec<f64> = $v.$f(&$o, $p.w, $p.mp);
        assert!(out.len() == $n, concat!(stringify!($f), ": exactly one output per input element"));
    }};
}
macro_rules! len2_all {
    ($v:expr, $o:expr, $p:expr, $n:expr) => {{
        let out: Vec<(f64, f64, f64)> = $v.ts_vregx_all(&$o, $p.w, $p.mp);
        assert!(out.len() == $n, "ts_vregx_all: exactly one output per input element");
    }};
}


/// Over-approximating stubs for the length law (part of the claim): `f64::sqrt`, `f64::powi` and
/// `f64::mul_add` may return ANY f64.
/// CBMC's bit-level models of the two intrinsics dominate the formula (ts_vstd alone at N = 3: 5.4 M
/// clauses, 190 s) although no length or panic condition can depend on their result more than on an
/// arbitrary float.
pub fn any_sqrt(_x: f64) -> f64 {
    kani::any()
}
pub fn any_powi(_x: f64, _n: i32) -> f64 {
    kani::any()
}
pub fn any_mul_add(_x: f64, _a: f64, _b: f64) -> f64 {
    kani::any()
}

/// Stand-ins for the default methods `vmean` / `vstd` / `vskew` of `tea_core::prelude::AggValidBasic<T>` (same
/// generic lists; a trait default method can only be stubbed by a method of a local blanket-implemented trait).
/// Used by the `ts_vregx_resid_*` harnesses only: the residual iterator `(start..=end).map(|j| ...)` is drained
/// — so every `uget(j)` of the kernel closure still runs under Kani's checks — and ANY f64 is returned.
/// Reason (measured): the aggregates branch on the NaN-ness of every residual, which ties all of their integer
/// bookkeeping to the float data path; ts_vregx_resid_mean alone needs 120 s at N = 1 and 440 s at N = 2,
/// ts_vregx_resid_skew does not finish in 600 s at N = 1. Panic-freedom of the aggregates themselves is C11's.
pub trait StubAgg<T: IsNone>: IntoIterator<Item = T> + Sized {
    fn vmean_drain(self) -> f64
    where
        T::Inner: Number,
    {
        for _ in self {}
        kani::any()
    }
    fn vstd_drain(self, _min_periods: usize) -> f64
    where
        T::Inner: Number,
    {
        for _ in self {}
        kani::any()
    }
    fn vskew_drain(self, _min_periods: usize) -> f64
    where
        T::Inner: Number,
    {
        for _ in self {}
        kani::any()
    }
}
impl<I: IntoIterator<Item = T>, T: IsNone> StubAgg<T> for I {}

include!("c05_gen.rs");
