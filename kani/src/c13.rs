//! C13 — element-wise mapping operations follow their positional definitions.
//!
//! Every operation is run on a Vec of concrete length N with symbolic contents and parameters; the
//! expected output is computed beforehand by the positional definition written out as plain loops
//! over arrays (no library code), then the operation's iterator is consumed by plain iteration and
//! compared element by element; the number of elements must be exactly N.
//!
//! Element types: i32 (where no null is needed), Option<i32>, f64 built from small integers with a
//! symbolic NaN (canonical null; comparisons only — the single subtraction / division of vdiff /
//! vpct_change is compared with the same expression in the oracle).
//!
//! Kept apart because they fail on the pinned tree:
//!   `c13_shift_beyond_len_*` — `MapBasic::shift` with |n| > len (D1, shared with C09)
//!   `c13_lag0_nulls_*`       — `vdiff(0)` / `vpct_change(0)` return 0 also where the element is null
//!                              (or the base is zero), D3
use std::collections::VecDeque;

use ndarray::Array1;
use tea_core::prelude::*;
use tea_map::{MapBasic, MapValidBasic, MapValidVec};

use crate::util::*;

// ---------------------------------------------------------------------------------------------
// equality (canonical nulls: NaN == NaN) and symbolic inputs
// ---------------------------------------------------------------------------------------------

pub fn eq_i32(a: &i32, b: &i32) -> bool {
    *a == *b
}
pub fn eq_opt(a: &Option<i32>, b: &Option<i32>) -> bool {
    *a == *b
}
pub fn eq_f64(a: &f64, b: &f64) -> bool {
    (a.is_nan() && b.is_nan()) || *a == *b
}

pub fn small_arr<const N: usize>(lo: i32, hi: i32) -> [i32; N] {
    let x: [i32; N] = kani::any();
    let mut i = 0;
    while i < N {
        kani::assume(x[i] >= lo && x[i] <= hi);
        i += 1;
    }
    x
}

/// f64 array of small integers with a symbolic null pattern
pub fn f64_arr<const N: usize>(lo: i32, hi: i32) -> [f64; N] {
    let mut x = [0.0f64; N];
    let mut i = 0;
    while i < N {
        x[i] = small_f64_or_nan(lo, hi);
        i += 1;
    }
    x
}

pub fn has_nan<const N: usize>(x: &[f64; N]) -> bool {
    let mut i = 0;
    let mut r = false;
    while i < N {
        r |= x[i].is_nan();
        i += 1;
    }
    r
}

pub fn has_none<const N: usize>(x: &[Option<i32>; N]) -> bool {
    let mut i = 0;
    let mut r = false;
    while i < N {
        r |= x[i].is_none();
        i += 1;
    }
    r
}

/// consume `$it` by plain iteration and compare with the array `$want` of length `$n`
macro_rules! positional {
    ($it:expr, $want:expr, $n:expr, $eq:expr, $msg:literal) => {{
        let mut it = $it;
        let want = $want;
        let mut i = 0usize;
        while i <= $n {
            match it.next() {
                Some(v) => {
                    assert!(i < $n, "the output has no more elements than the input");
                    assert!($eq(&v, &want[i]), $msg);
                },
                None => break,
            }
            i += 1;
        }
        assert!(i == $n, "the output has exactly as many elements as the input");
    }};
}

/// like `positional!`, but the value at position i is only judged where `$chk(i)` holds (the
/// count is always judged); used to keep a known defect out of the main law of an operation
macro_rules! positional_if {
    ($it:expr, $want:expr, $n:expr, $eq:expr, $chk:expr, $msg:literal) => {{
        let mut it = $it;
        let want = $want;
        let mut i = 0usize;
        while i <= $n {
            match it.next() {
                Some(v) => {
                    assert!(i < $n, "the output has no more elements than the input");
                    if $chk(i) {
                        assert!($eq(&v, &want[i]), $msg);
                    }
                },
                None => break,
            }
            i += 1;
        }
        assert!(i == $n, "the output has exactly as many elements as the input");
    }};
}

/// vacuity witness of a harness instance (returned by the generic bodies)
pub fn witness(w: bool) {
    kani::cover!(w, "interesting region of the parameter space reached and passed");
}

// ---------------------------------------------------------------------------------------------
// positional definitions (oracles)
// ---------------------------------------------------------------------------------------------

/// out[i] = x[i-n] if 0 <= i-n < N else fill   (n > 0 moves towards the end)
pub fn shifted<T: Copy, const N: usize>(x: &[T; N], n: i32, fill: T) -> [T; N] {
    let mut out = [fill; N];
    let mut i = 0;
    while i < N {
        let j = i as i64 - n as i64;
        if j >= 0 && j < N as i64 {
            out[i] = x[j as usize];
        }
        i += 1;
    }
    out
}

/// out[i] = x[i] - x[i-n] where i-n is inside the series, else fill
pub fn diffed_i32<const N: usize>(x: &[i32; N], n: i32, fill: i32) -> [i32; N] {
    let mut out = [fill; N];
    let mut i = 0;
    while i < N {
        let j = i as i64 - n as i64;
        if j >= 0 && j < N as i64 {
            out[i] = x[i] - x[j as usize];
        }
        i += 1;
    }
    out
}

/// the same for floats; a null operand makes the difference null by itself (NaN - y = NaN)
pub fn diffed_f64<const N: usize>(x: &[f64; N], n: i32, fill: f64) -> [f64; N] {
    let mut out = [fill; N];
    let mut i = 0;
    while i < N {
        let j = i as i64 - n as i64;
        if j >= 0 && j < N as i64 {
            out[i] = x[i] - x[j as usize];
        }
        i += 1;
    }
    out
}

/// out[i] = x[i]/x[i-n] - 1 where both exist, are non-null and the base is not 0, else null
pub fn pct_f64<const N: usize>(x: &[f64; N], n: i32) -> [f64; N] {
    let mut out = [f64::NAN; N];
    let mut i = 0;
    while i < N {
        let j = i as i64 - n as i64;
        if j >= 0 && j < N as i64 {
            let (b, a) = (x[i], x[j as usize]);
            if !a.is_nan() && !b.is_nan() && a != 0. {
                out[i] = b / a - 1.;
            }
        }
        i += 1;
    }
    out
}

pub fn to_f64<const N: usize>(x: &[i32; N]) -> [f64; N] {
    let mut out = [0.0f64; N];
    let mut i = 0;
    while i < N {
        out[i] = x[i] as f64;
        i += 1;
    }
    out
}

/// forward fill: a masked element becomes the nearest earlier unmasked element, else the default,
/// else null; unmasked elements are untouched
pub fn ffilled<T: Copy, const N: usize>(x: &[T; N], masked: impl Fn(&T) -> bool, dflt: Option<T>, none: T) -> [T; N] {
    let mut out = *x;
    let mut i = 0;
    while i < N {
        if masked(&x[i]) {
            let mut r = match dflt {
                Some(d) => d,
                None => none,
            };
            // nearest earlier unmasked element: scan upwards, the last hit wins
            let mut j = 0;
            while j < i {
                if !masked(&x[j]) {
                    r = x[j];
                }
                j += 1;
            }
            out[i] = r;
        }
        i += 1;
    }
    out
}

/// backward fill: nearest later unmasked element
pub fn bfilled<T: Copy, const N: usize>(x: &[T; N], masked: impl Fn(&T) -> bool, dflt: Option<T>, none: T) -> [T; N] {
    let mut out = *x;
    let mut i = 0;
    while i < N {
        if masked(&x[i]) {
            let mut r = match dflt {
                Some(d) => d,
                None => none,
            };
            // nearest later unmasked element: scan downwards from the end, the last hit wins
            let mut j = N;
            while j > i + 1 {
                j -= 1;
                if !masked(&x[j]) {
                    r = x[j];
                }
            }
            out[i] = r;
        }
        i += 1;
    }
    out
}

/// fill acts on each element alone and touches only the masked ones
pub fn filled<T: Copy, const N: usize>(x: &[T; N], masked: impl Fn(&T) -> bool, value: T) -> [T; N] {
    let mut out = *x;
    let mut i = 0;
    while i < N {
        if masked(&x[i]) {
            out[i] = value;
        }
        i += 1;
    }
    out
}

/// clip of one element: nulls stay null; below a non-null lower bound -> lower; else above a non-null
/// upper bound -> upper; else unchanged
pub fn clip1(v: Option<i32>, lo: Option<i32>, hi: Option<i32>) -> Option<i32> {
    match v {
        None => None,
        Some(e) => {
            if let Some(l) = lo {
                if e < l {
                    return Some(l);
                }
            }
            if let Some(u) = hi {
                if e > u {
                    return Some(u);
                }
            }
            Some(e)
        },
    }
}

pub fn clipped<const N: usize>(x: &[Option<i32>; N], lo: Option<i32>, hi: Option<i32>) -> [Option<i32>; N] {
    let mut out = *x;
    let mut i = 0;
    while i < N {
        out[i] = clip1(x[i], lo, hi);
        i += 1;
    }
    out
}

pub fn clip1_f64(v: f64, lo: f64, hi: f64) -> f64 {
    if v.is_nan() {
        return v;
    }
    if !lo.is_nan() && v < lo {
        return lo;
    }
    if !hi.is_nan() && v > hi {
        return hi;
    }
    v
}

pub fn clipped_f64<const N: usize>(x: &[f64; N], lo: f64, hi: f64) -> [f64; N] {
    let mut out = *x;
    let mut i = 0;
    while i < N {
        out[i] = clip1_f64(x[i], lo, hi);
        i += 1;
    }
    out
}

// ---------------------------------------------------------------------------------------------
// 1. shift (unguarded; lag band) and vshift (lag over the full i32 range)
// ---------------------------------------------------------------------------------------------

pub fn band_lag(len: usize, beyond: bool) -> (i32, bool) {
    let n = small_i32(-(len as i32) - 3, len as i32 + 3);
    let na = n.unsigned_abs() as usize;
    kani::assume((na > len) == beyond);
    kani::cover!(!beyond || n < 0, "beyond: n < -len");
    kani::cover!(!beyond || n > 0, "beyond: n > len");
    kani::cover!(beyond || n == 0, "within: n == 0");
    (n, if beyond { true } else if len >= 2 { na > 0 && na < len } else { true })
}

pub fn full_lag(len: usize) -> (i32, bool) {
    let n: i32 = kani::any();
    kani::cover!(n == i32::MIN, "lag i32::MIN");
    kani::cover!(n == i32::MAX, "lag i32::MAX");
    kani::cover!(n.unsigned_abs() as usize > len, "|n| > len");
    kani::cover!(n == 0, "n == 0");
    let na = n.unsigned_abs() as usize;
    (n, if len >= 2 { na > 0 && na < len } else { na >= len })
}

pub fn shift_i32<const N: usize>(beyond: bool) -> bool {
    let x: [i32; N] = kani::any();
    let v = x.to_vec();
    let (n, w) = band_lag(N, beyond);
    let fill: i32 = kani::any();
    let want = shifted(&x, n, fill);
    positional!(v.titer().shift(n, fill), want, N, eq_i32, "shift: out[i] is x[i-n] inside the series and the fill value in the vacated places");
    w
}

pub fn shift_opt<const N: usize>() -> bool {
    let x: [Option<i32>; N] = kani::any();
    let v = x.to_vec();
    let (n, w) = band_lag(N, false);
    let fill: Option<i32> = kani::any();
    kani::cover!(fill.is_none(), "null fill");
    let want = shifted(&x, n, fill);
    positional!(v.titer().shift(n, fill), want, N, eq_opt, "shift: out[i] is x[i-n] inside the series and the fill value in the vacated places");
    w
}

pub fn vshift_opt<const N: usize>() -> bool {
    let x: [Option<i32>; N] = kani::any();
    let v = x.to_vec();
    let (n, w) = full_lag(N);
    let fill: Option<Option<i32>> = kani::any();
    kani::cover!(fill.is_none(), "fill omitted: null");
    kani::cover!(matches!(fill, Some(Some(_))), "non-null fill");
    let fv = match fill {
        Some(f) => f,
        None => None,
    };
    let want = shifted(&x, n, fv);
    positional!(v.titer().vshift(n, fill), want, N, eq_opt, "vshift: out[i] is x[i-n] inside the series and the fill value / null in the vacated places");
    w
}

pub fn vshift_f64<const N: usize>() -> bool {
    let x: [f64; N] = f64_arr(-3, 3);
    let v = x.to_vec();
    let (n, w) = full_lag(N);
    let fill: Option<f64> = if kani::any() { Some(small_f64_or_nan(-3, 3)) } else { None };
    let fv = match fill {
        Some(f) => f,
        None => f64::NAN,
    };
    let want = shifted(&x, n, fv);
    positional!(v.titer().vshift(n, fill), want, N, eq_f64, "vshift: out[i] is x[i-n] inside the series and the fill value / null in the vacated places");
    w
}

pub fn vshift_i32<const N: usize>() -> bool {
    let x: [i32; N] = kani::any();
    let v = x.to_vec();
    let (n, w) = full_lag(N);
    let fill: i32 = kani::any();
    let want = shifted(&x, n, fill);
    positional!(v.titer().vshift(n, Some(fill)), want, N, eq_i32, "vshift: out[i] is x[i-n] inside the series and the fill value / null in the vacated places");
    w
}

// D1 (fails on the pinned tree): |n| > len on the unguarded shift
#[kani::proof]
#[kani::unwind(9)]
pub fn c13_shift_beyond_len_n2() {
    witness(shift_i32::<2>(true));
}

#[kani::proof]
#[kani::unwind(8)]
pub fn c13_shift_within_i32_n3() {
    witness(shift_i32::<3>(false));
}

#[kani::proof]
#[kani::unwind(6)]
pub fn c13_shift_within_small() {
    let w: bool = {
        shift_i32::<0>(false);
        shift_opt::<1>();
        shift_opt::<2>()
    };
    witness(w);
}

#[kani::proof]
#[kani::unwind(8)]
pub fn c13_vshift_opt_n3() {
    witness(vshift_opt::<3>());
}

#[kani::proof]
#[kani::unwind(8)]
pub fn c13_vshift_f64_n3() {
    witness(vshift_f64::<3>());
}

#[kani::proof]
#[kani::unwind(6)]
pub fn c13_vshift_small() {
    let w: bool = {
        vshift_opt::<0>();
        vshift_f64::<1>();
        vshift_i32::<2>()
    };
    witness(w);
}


#[cfg(feature = "thorough")]
#[kani::proof]
#[kani::unwind(7)]
pub fn c13_shift_beyond_len_n0() {
    witness(shift_i32::<0>(true));
}

#[cfg(feature = "thorough")]
#[kani::proof]
#[kani::unwind(11)]
pub fn c13_shift_beyond_len_n4() {
    witness(shift_i32::<4>(true));
}

#[cfg(feature = "thorough")]
#[kani::proof]
#[kani::unwind(9)]
pub fn c13_shift_within_opt_n4() {
    witness(shift_opt::<4>());
}

#[cfg(feature = "thorough")]
#[kani::proof]
#[kani::unwind(10)]
pub fn c13_shift_within_i32_n5() {
    witness(shift_i32::<5>(false));
}

#[cfg(feature = "thorough")]
#[kani::proof]
#[kani::unwind(9)]
pub fn c13_vshift_opt_n4() {
    witness(vshift_opt::<4>());
}

#[cfg(feature = "thorough")]
#[kani::proof]
#[kani::unwind(10)]
pub fn c13_vshift_opt_n5() {
    witness(vshift_opt::<5>());
}

#[cfg(feature = "thorough")]
#[kani::proof]
#[kani::unwind(9)]
pub fn c13_vshift_f64_n4() {
    witness(vshift_f64::<4>());
}

#[cfg(feature = "thorough")]
#[kani::proof]
#[kani::unwind(10)]
pub fn c13_vshift_i32_n5() {
    witness(vshift_i32::<5>());
}


// ---------------------------------------------------------------------------------------------
// 2. vdiff / vpct_change (views), lag over the full i32 range, lag 0 apart
// ---------------------------------------------------------------------------------------------

/// i32 has no null: elements in -100..=100 (no overflow), the fill value is supplied
pub fn vdiff_i32_on<V: Vec1View<i32>, const N: usize>(x: &[i32; N], v: &V) -> bool {
    let (n, w) = full_lag(N);
    let fill = small_i32(-100, 100);
    let want = diffed_i32(x, n, fill);
    // the vacated places of a positive lag with a non-null fill are D4 (c13_vdiff_poslag_fill_*)
    let judged = |i: usize| !(n > 0 && (i as i64) < n as i64);
    positional_if!(v.vdiff(n, Some(fill)), want, N, eq_i32, judged, "vdiff: out[i] is x[i]-x[i-n] where both exist and the fill value elsewhere");
    w
}

pub fn vdiff_i32<const N: usize>() -> bool {
    let x: [i32; N] = small_arr(-100, 100);
    let v = x.to_vec();
    vdiff_i32_on(&x, &v)
}

/// floats: null elements, fill omitted (null) or given; lag 0 is c13_lag0_*
pub fn vdiff_f64_on<V: Vec1View<f64>, const N: usize>(x: &[f64; N], v: &V) -> bool {
    let (n, w) = full_lag(N);
    kani::assume(n != 0);
    let fill: Option<f64> = if kani::any() { Some(small_f64_or_nan(-3, 3)) } else { None };
    let fv = match fill {
        Some(f) => f,
        None => f64::NAN,
    };
    kani::cover!(N == 0 || has_nan(x), "null element");
    kani::cover!(fv.is_nan() && n > 0, "positive lag, null fill");
    let want = diffed_f64(x, n, fv);
    // the vacated places of a positive lag with a non-null fill are D4 (c13_vdiff_poslag_fill_*)
    let judged = |i: usize| !(n > 0 && (i as i64) < n as i64 && !fv.is_nan());
    positional_if!(v.vdiff(n, fill), want, N, eq_f64, judged, "vdiff: out[i] is x[i]-x[i-n] where both exist and are non-null, the fill value / null elsewhere");
    w
}

pub fn vdiff_f64<const N: usize>() -> bool {
    let x: [f64; N] = f64_arr(-3, 3);
    let v = x.to_vec();
    vdiff_f64_on(&x, &v)
}

pub fn vpct_i32_on<V: Vec1View<i32>, const N: usize>(x: &[i32; N], v: &V) -> bool {
    let (n, w) = full_lag(N);
    kani::assume(n != 0);
    let xf = to_f64(x);
    let want = pct_f64(&xf, n);
    positional!(v.vpct_change(n), want, N, eq_f64, "vpct_change: out[i] is x[i]/x[i-n]-1 where both exist and the base is not 0, null elsewhere");
    w
}

pub fn vpct_i32<const N: usize>() -> bool {
    let x: [i32; N] = small_arr(-3, 3);
    let v = x.to_vec();
    vpct_i32_on(&x, &v)
}

pub fn vpct_f64_on<V: Vec1View<f64>, const N: usize>(x: &[f64; N], v: &V) -> bool {
    let (n, w) = full_lag(N);
    kani::assume(n != 0);
    kani::cover!(N == 0 || has_nan(x), "null element");
    let want = pct_f64(x, n);
    positional!(v.vpct_change(n), want, N, eq_f64, "vpct_change: out[i] is x[i]/x[i-n]-1 where both exist, are non-null and the base is not 0, null elsewhere");
    w
}

pub fn vpct_f64<const N: usize>() -> bool {
    let x: [f64; N] = f64_arr(-3, 3);
    let v = x.to_vec();
    vpct_f64_on(&x, &v)
}

/// D4 (fails on the pinned tree): positive lag with a non-null fill value — the vacated places
/// 0..n hold x[i] - fill instead of the fill value (the fill is fed through the subtraction).
pub fn vdiff_poslag_fill<const N: usize>() -> bool {
    let n = small_i32(1, N as i32 + 1);
    if kani::any() {
        let x: [i32; N] = small_arr(-100, 100);
        let v = x.to_vec();
        let fill = small_i32(-100, 100);
        let want = diffed_i32(&x, n, fill);
        let judged = |i: usize| (i as i64) < n as i64;
        positional_if!(v.vdiff(n, Some(fill)), want, N, eq_i32, judged, "vdiff: the places vacated by a positive lag hold the fill value");
    } else {
        let x: [f64; N] = f64_arr(-3, 3);
        let v = x.to_vec();
        let fill = small_i32(-3, 3) as f64;
        let want = diffed_f64(&x, n, fill);
        let judged = |i: usize| (i as i64) < n as i64;
        positional_if!(v.vdiff(n, Some(fill)), want, N, eq_f64, judged, "vdiff (floats): the places vacated by a positive lag hold the non-null fill value");
    }
    true
}

/// lag 0 on elements for which the definition gives a number: x[i]-x[i] = 0, x[i]/x[i]-1 = 0
pub fn lag0_valid<const N: usize>() -> bool {
    let x: [f64; N] = f64_arr(-3, 3);
    let v = x.to_vec();
    let mut i = 0;
    while i < N {
        kani::assume(!x[i].is_nan() && x[i] != 0.);
        i += 1;
    }
    let zeros = [0.0f64; N];
    positional!(v.vdiff(0, None), zeros, N, eq_f64, "vdiff at lag 0 is 0 on non-null elements");
    positional!(v.vpct_change(0), zeros, N, eq_f64, "vpct_change at lag 0 is 0 on non-null elements with a non-zero base");
    let y: [i32; N] = small_arr(-100, 100);
    let vy = y.to_vec();
    let zi = [0i32; N];
    positional!(vy.vdiff(0, Some(7)), zi, N, eq_i32, "vdiff at lag 0 is 0 for integers");
    true
}

/// D3 (fails on the pinned tree): lag 0 where the element is null (vdiff, vpct_change) or the base
/// is zero (vpct_change): the definition gives null (x[i]-x[i] with x[i] null; x[i]/x[i]-1 with a
/// null or zero base), the library returns 0.
pub fn lag0_nulls<const N: usize>() -> bool {
    let x: [f64; N] = f64_arr(-3, 3);
    let v = x.to_vec();
    let sel: bool = kani::any();
    if sel {
        let want = diffed_f64(&x, 0, f64::NAN);
        positional!(v.vdiff(0, None), want, N, eq_f64, "vdiff at lag 0 is null where the element is null");
    } else {
        let want = pct_f64(&x, 0);
        positional!(v.vpct_change(0), want, N, eq_f64, "vpct_change at lag 0 is null where the element is null or zero");
    }
    true
}

#[kani::proof]
#[kani::unwind(8)]
pub fn c13_vdiff_i32_n3() {
    witness(vdiff_i32::<3>());
}

#[kani::proof]
#[kani::unwind(8)]
pub fn c13_vdiff_f64_n3() {
    witness(vdiff_f64::<3>());
}

#[kani::proof]
#[kani::unwind(6)]
pub fn c13_vdiff_small() {
    let w: bool = {
        vdiff_f64::<0>();
        vdiff_i32::<1>();
        vdiff_f64::<2>()
    };
    witness(w);
}

#[kani::proof]
#[kani::unwind(8)]
pub fn c13_vpct_i32_n3() {
    witness(vpct_i32::<3>());
}

#[kani::proof]
#[kani::unwind(8)]
pub fn c13_vpct_f64_n3() {
    witness(vpct_f64::<3>());
}

#[kani::proof]
#[kani::unwind(6)]
pub fn c13_vpct_small() {
    let w: bool = {
        vpct_f64::<0>();
        vpct_i32::<1>()
    };
    witness(w);
}

#[kani::proof]
#[kani::unwind(7)]
pub fn c13_vdiff_poslag_fill_n2() {
    witness(vdiff_poslag_fill::<2>());
}

#[kani::proof]
#[kani::unwind(8)]
pub fn c13_lag0_valid_n3() {
    witness(lag0_valid::<3>());
}

#[kani::proof]
#[kani::unwind(7)]
pub fn c13_lag0_nulls_n2() {
    witness(lag0_nulls::<2>());
}


pub fn vdiff_deque<const N: usize>() -> bool {
    let x: [f64; N] = f64_arr(-3, 3);
    let v = deque_rot(&x[..], 1);
    vdiff_f64_on(&x, &v)
}
pub fn vdiff_nd<const N: usize>() -> bool {
    let x: [i32; N] = small_arr(-100, 100);
    let v = nd_owned(&x[..]);
    vdiff_i32_on(&x, &v)
}
pub fn vpct_deque<const N: usize>() -> bool {
    let x: [i32; N] = small_arr(-3, 3);
    let v = deque_rot(&x[..], 1);
    vpct_i32_on(&x, &v)
}
pub fn vpct_nd<const N: usize>() -> bool {
    let x: [f64; N] = f64_arr(-3, 3);
    let v = nd_owned(&x[..]);
    vpct_f64_on(&x, &v)
}

#[cfg(feature = "thorough")]
#[kani::proof]
#[kani::unwind(10)]
pub fn c13_vdiff_i32_n5() {
    witness(vdiff_i32::<5>());
}

#[cfg(feature = "thorough")]
#[kani::proof]
#[kani::unwind(9)]
pub fn c13_vdiff_f64_n4() {
    witness(vdiff_f64::<4>());
}

#[cfg(feature = "thorough")]
#[kani::proof]
#[kani::unwind(9)]
pub fn c13_vpct_i32_n4() {
    witness(vpct_i32::<4>());
}

#[cfg(feature = "thorough")]
#[kani::proof]
#[kani::unwind(9)]
pub fn c13_vpct_f64_n4() {
    witness(vpct_f64::<4>());
}

#[cfg(feature = "thorough")]
#[kani::proof]
#[kani::unwind(8)]
pub fn c13_vdiff_deque_n3() {
    witness(vdiff_deque::<3>());
}

#[cfg(feature = "thorough")]
#[kani::proof]
#[kani::unwind(11)]
pub fn c13_vdiff_nd_n3() {
    witness(vdiff_nd::<3>());
}

#[cfg(feature = "thorough")]
#[kani::proof]
#[kani::unwind(8)]
pub fn c13_vpct_deque_n3() {
    witness(vpct_deque::<3>());
}

#[cfg(feature = "thorough")]
#[kani::proof]
#[kani::unwind(11)]
pub fn c13_vpct_nd_n3() {
    witness(vpct_nd::<3>());
}

#[cfg(feature = "thorough")]
#[kani::proof]
#[kani::unwind(10)]
pub fn c13_lag0_valid_n5() {
    witness(lag0_valid::<5>());
}


// ---------------------------------------------------------------------------------------------
// 3. ffill / bfill (with and without default), *_mask with a symbolic mask predicate, fill(_mask)
// ---------------------------------------------------------------------------------------------

pub fn ffill_opt<const N: usize>() -> bool {
    let x: [Option<i32>; N] = kani::any();
    let v = x.to_vec();
    let d: Option<Option<i32>> = kani::any();
    kani::cover!(d.is_none(), "no default");
    kani::cover!(matches!(d, Some(Some(_))), "non-null default");
    kani::cover!(N == 0 || x[0].is_none(), "leading null");
    let want = ffilled(&x, |e: &Option<i32>| e.is_none(), d, None);
    positional!(v.titer().ffill(d), want, N, eq_opt, "ffill: a null becomes the nearest earlier non-null element, else the default, else null");
    let k: Option<i32> = kani::any();
    let want = ffilled(&x, |e: &Option<i32>| *e == k, d, None);
    positional!(
        v.titer().ffill_mask(move |e: &Option<i32>| *e == k, d),
        want,
        N,
        eq_opt,
        "ffill_mask: a masked element becomes the nearest earlier unmasked element, else the default, else null"
    );
    has_none(&x)
}

pub fn bfill_opt<const N: usize>() -> bool {
    let x: [Option<i32>; N] = kani::any();
    let v = x.to_vec();
    let d: Option<Option<i32>> = kani::any();
    kani::cover!(d.is_none(), "no default");
    kani::cover!(N == 0 || x[N - 1].is_none(), "trailing null");
    let want = bfilled(&x, |e: &Option<i32>| e.is_none(), d, None);
    positional!(v.titer().bfill(d), want, N, eq_opt, "bfill: a null becomes the nearest later non-null element, else the default, else null");
    let k: Option<i32> = kani::any();
    let want = bfilled(&x, |e: &Option<i32>| *e == k, d, None);
    positional!(
        v.titer().bfill_mask(move |e: &Option<i32>| *e == k, d),
        want,
        N,
        eq_opt,
        "bfill_mask: a masked element becomes the nearest later unmasked element, else the default, else null"
    );
    has_none(&x)
}

pub fn fbfill_f64<const N: usize>() -> bool {
    let x: [f64; N] = f64_arr(-3, 3);
    let v = x.to_vec();
    let d: Option<f64> = if kani::any() { Some(small_f64_or_nan(-3, 3)) } else { None };
    let want = ffilled(&x, |e: &f64| e.is_nan(), d, f64::NAN);
    positional!(v.titer().ffill(d), want, N, eq_f64, "ffill: a null becomes the nearest earlier non-null element, else the default, else null");
    let want = bfilled(&x, |e: &f64| e.is_nan(), d, f64::NAN);
    positional!(v.titer().bfill(d), want, N, eq_f64, "bfill: a null becomes the nearest later non-null element, else the default, else null");
    has_nan(&x)
}

pub fn fill_opt<const N: usize>() -> bool {
    let x: [Option<i32>; N] = kani::any();
    let v = x.to_vec();
    let d: Option<i32> = kani::any();
    kani::cover!(d.is_none(), "null fill value");
    let want = filled(&x, |e: &Option<i32>| e.is_none(), d);
    positional!(v.titer().fill(d), want, N, eq_opt, "fill: nulls become the value, every other element is untouched");
    let k: Option<i32> = kani::any();
    let want = filled(&x, |e: &Option<i32>| *e == k, d);
    positional!(
        v.titer().fill_mask(move |e: &Option<i32>| *e == k, d),
        want,
        N,
        eq_opt,
        "fill_mask: masked elements become the value, every other element is untouched"
    );
    let y: [f64; N] = f64_arr(-3, 3);
    let vy = y.to_vec();
    let dv = small_f64_or_nan(-3, 3);
    let want = filled(&y, |e: &f64| e.is_nan(), dv);
    positional!(vy.titer().fill(dv), want, N, eq_f64, "fill (floats): nulls become the value, every other element is untouched");
    has_none(&x)
}

#[kani::proof]
#[kani::unwind(9)]
pub fn c13_ffill_opt_n4() {
    witness(ffill_opt::<4>());
}

#[kani::proof]
#[kani::unwind(9)]
pub fn c13_bfill_opt_n4() {
    witness(bfill_opt::<4>());
}

#[kani::proof]
#[kani::unwind(8)]
pub fn c13_fbfill_f64_n3() {
    witness(fbfill_f64::<3>());
}

#[kani::proof]
#[kani::unwind(9)]
pub fn c13_fill_n4() {
    witness(fill_opt::<4>());
}

#[kani::proof]
#[kani::unwind(6)]
pub fn c13_fills_small() {
    let w: bool = {
        ffill_opt::<0>();
        ffill_opt::<1>();
        bfill_opt::<1>();
        fill_opt::<0>();
        fbfill_f64::<1>()
    };
    witness(w);
}

#[cfg(feature = "thorough")]
#[kani::proof]
#[kani::unwind(6)]
pub fn c13_bfill_empty() {
    let w: bool = {
        bfill_opt::<0>();
        true
    };
    witness(w);
}

#[cfg(feature = "thorough")]
#[kani::proof]
#[kani::unwind(10)]
pub fn c13_ffill_opt_n5() {
    witness(ffill_opt::<5>());
}

#[cfg(feature = "thorough")]
#[kani::proof]
#[kani::unwind(10)]
pub fn c13_bfill_opt_n5() {
    witness(bfill_opt::<5>());
}

#[cfg(feature = "thorough")]
#[kani::proof]
#[kani::unwind(10)]
pub fn c13_fbfill_f64_n5() {
    witness(fbfill_f64::<5>());
}

#[cfg(feature = "thorough")]
#[kani::proof]
#[kani::unwind(10)]
pub fn c13_fill_n5() {
    witness(fill_opt::<5>());
}


// ---------------------------------------------------------------------------------------------
// 4. vclip: four bound modes (literal at the call sites, values symbolic) incl. null bounds;
//    idempotence and containment under lower <= upper
// ---------------------------------------------------------------------------------------------

macro_rules! clip_mode {
    ($x:expr, $v:expr, $n:expr, $lo:expr, $hi:expr) => {{
        let (lo, hi): (Option<i32>, Option<i32>) = ($lo, $hi);
        let want = clipped(&$x, lo, hi);
        positional!(
            $v.titer().vclip(lo, hi),
            want,
            $n,
            eq_opt,
            "vclip: nulls stay null, elements below a non-null lower bound become it, above a non-null upper bound become it, the rest is untouched"
        );
        // idempotence and containment, claimed for lower <= upper (trivially also with a null bound)
        let ordered = match (lo, hi) {
            (Some(l), Some(u)) => l <= u,
            _ => true,
        };
        if ordered {
            let once: Vec<Option<i32>> = $v.titer().vclip(lo, hi).collect_trusted_to_vec();
            positional!(once.titer().vclip(lo, hi), want, $n, eq_opt, "vclip is idempotent when lower <= upper");
            let mut i = 0;
            while i < $n {
                if let Some(e) = want[i] {
                    let above = match lo {
                        Some(l) => e >= l,
                        None => true,
                    };
                    let below = match hi {
                        Some(u) => e <= u,
                        None => true,
                    };
                    assert!(above && below, "vclip: every non-null result lies inside the bounds when lower <= upper");
                }
                i += 1;
            }
        }
    }};
}

pub fn vclip_opt<const N: usize>() -> bool {
    let x: [Option<i32>; N] = kani::any();
    let v = x.to_vec();
    let lo: i32 = kani::any();
    let hi: i32 = kani::any();
    kani::cover!(lo > hi, "bounds in the wrong order");
    kani::cover!(lo == hi, "bounds equal");
    clip_mode!(x, v, N, Some(lo), Some(hi));
    clip_mode!(x, v, N, Some(lo), None);
    clip_mode!(x, v, N, None, Some(hi));
    clip_mode!(x, v, N, None, None);
    has_none(&x)
}

macro_rules! clip_mode_f64 {
    ($x:expr, $v:expr, $n:expr, $lo:expr, $hi:expr) => {{
        let (lo, hi): (f64, f64) = ($lo, $hi);
        let want = clipped_f64(&$x, lo, hi);
        positional!(
            $v.titer().vclip(lo, hi),
            want,
            $n,
            eq_f64,
            "vclip (floats): nulls stay null, elements below a non-null lower bound become it, above a non-null upper bound become it"
        );
    }};
}

pub fn vclip_f64<const N: usize>() -> bool {
    let x: [f64; N] = f64_arr(-4, 4);
    let v = x.to_vec();
    let lo = small_i32(-3, 3) as f64;
    let hi = small_i32(-3, 3) as f64;
    clip_mode_f64!(x, v, N, lo, hi);
    clip_mode_f64!(x, v, N, lo, f64::NAN);
    clip_mode_f64!(x, v, N, f64::NAN, hi);
    clip_mode_f64!(x, v, N, f64::NAN, f64::NAN);
    has_nan(&x)
}

#[kani::proof]
#[kani::unwind(8)]
pub fn c13_vclip_opt_n3() {
    witness(vclip_opt::<3>());
}

#[kani::proof]
#[kani::unwind(8)]
pub fn c13_vclip_f64_n3() {
    witness(vclip_f64::<3>());
}

#[kani::proof]
#[kani::unwind(6)]
pub fn c13_vclip_small() {
    let w: bool = {
        vclip_opt::<1>();
        vclip_f64::<0>();
        true
    };
    witness(w);
}

#[cfg(feature = "thorough")]
#[kani::proof]
#[kani::unwind(10)]
pub fn c13_vclip_opt_n5() {
    witness(vclip_opt::<5>());
}

#[cfg(feature = "thorough")]
#[kani::proof]
#[kani::unwind(10)]
pub fn c13_vclip_f64_n5() {
    witness(vclip_f64::<5>());
}


// ---------------------------------------------------------------------------------------------
// 5. abs / vabs (the type minimum is excluded: its absolute value does not exist, DESIGN 5.6)
// ---------------------------------------------------------------------------------------------

pub fn abs_all<const N: usize>() -> bool {
    let x: [i32; N] = kani::any();
    let mut i = 0;
    while i < N {
        kani::assume(x[i] != i32::MIN);
        i += 1;
    }
    let v = x.to_vec();
    let mut want = x;
    let mut i = 0;
    while i < N {
        want[i] = if x[i] < 0 { -x[i] } else { x[i] };
        i += 1;
    }
    positional!(v.titer().abs(), want, N, eq_i32, "abs: every element is replaced by its magnitude");
    positional!(v.titer().vabs(), want, N, eq_i32, "vabs (integers): every element is replaced by its magnitude");

    let y: [Option<i32>; N] = kani::any();
    let mut i = 0;
    while i < N {
        kani::assume(y[i] != Some(i32::MIN));
        i += 1;
    }
    let vy = y.to_vec();
    let mut wy = y;
    let mut i = 0;
    while i < N {
        wy[i] = match y[i] {
            Some(e) => Some(if e < 0 { -e } else { e }),
            None => None,
        };
        i += 1;
    }
    positional!(vy.titer().vabs(), wy, N, eq_opt, "vabs: nulls stay null, every other element is replaced by its magnitude");

    let z: [f64; N] = f64_arr(-4, 4);
    let vz = z.to_vec();
    let mut wz = z;
    let mut i = 0;
    while i < N {
        wz[i] = if z[i].is_nan() {
            f64::NAN
        } else if z[i] < 0. {
            -z[i]
        } else {
            z[i]
        };
        i += 1;
    }
    positional!(vz.titer().vabs(), wz, N, eq_f64, "vabs (floats): nulls stay null, every other element is replaced by its magnitude");
    positional!(vz.titer().abs(), wz, N, eq_f64, "abs (floats): NaN stays NaN, every other element is replaced by its magnitude");
    has_none(&y) && has_nan(&z)
}

#[kani::proof]
#[kani::unwind(9)]
pub fn c13_abs_n4() {
    witness(abs_all::<4>());
}

#[kani::proof]
#[kani::unwind(6)]
pub fn c13_abs_small() {
    let w: bool = {
        abs_all::<0>();
        abs_all::<1>();
        true
    };
    witness(w);
}

#[cfg(feature = "thorough")]
#[kani::proof]
#[kani::unwind(10)]
pub fn c13_abs_n5() {
    witness(abs_all::<5>());
}

