//! C03 harnesses (see /verif/tools/HARNESS_GUIDE.md).
