//! C03 — rolling extrema, arg-extrema, rank and min-max normalisation are exact per window.
//!
//! Engine K part (exact / integer shaped): `ts_vmin`, `ts_vmax`, `ts_vargmin`, `ts_vargmax`,
//! `ts_vrank` (pct x rev symbolic) and `ts_vminmaxnorm`. `ts_vzscore` is Engine M's.
//!
//! Scheme: a symbolic key array `k: [Option<i32>; N]` (concrete N) is turned into the input
//! container (`Vec<Option<i32>>`, `Vec<i32>` — keys all valid —, `Vec<f64>` — null key = NaN, valid
//! key = small integer as f64); the kernel runs once with symbolic window `w in 1..=N+2` and
//! symbolic `min_periods`; every output position is compared with a from-scratch scan of the
//! positions `max(0,i-w+1)..=i` of the key array written as plain loops (`scan`).
//!
//! `min_periods` domain (DESIGN 5.3): explicit `Some(m)` with `m in 0..=w` at every length (the
//! extrema/rank kernels do not clamp it, `ts_vminmaxnorm` clamps it to `w`, identical on this
//! domain); omitted (`None`, meaning floor(w/2)) only when `N >= w` for the extrema/rank family
//! (they derive the default from `min(len, w)`); at every length for `ts_vminmaxnorm` (it derives
//! the default from the requested `w`).
//!
//! Null law (this is also C05's null-mask law for this family, folded in here): output i is null
//!   * min/max/argmin/argmax: iff valid count of the window < effective min_periods, or the window
//!     has no valid element;
//!   * rank: iff count < effective min_periods or x[i] is null;
//!   * minmaxnorm: iff count < effective min_periods, or x[i] is null, or max == min.
//!
//! Isolated defects of the pinned tree (kept failing, everything else stays visible):
//!   `c03_vargmin_allnull_mp0_*`, `c03_vargmax_allnull_mp0_*` — an all-null window with effective
//!       min_periods 0 yields a position instead of null (the main arg harnesses skip exactly the
//!       case "no valid element and effective min_periods == 0");
//!   `c03_minmaxnorm_oa_fullrange_*` — `(x - min)` / `(max - min)` are computed in the element type
//!       (i32) and overflow for values further apart than i32::MAX (the main minmaxnorm harnesses
//!       bound |x| <= 2^29 + N).
use tea_core::prelude::*;
use tea_rolling::*;

use crate::util::*;

// ---------------------------------------------------------------------------------------------
// inputs
// ---------------------------------------------------------------------------------------------

/// value alphabets of the key array
#[derive(Clone, Copy, PartialEq)]
pub enum Alpha {
    /// 0..=max(2, N-1): many ties, still room for a strictly monotone run of length N
    Small,
    /// any i32
    Any,
    /// large magnitudes with ties: b + 0..=max(2, N-1) with one symbolic offset |b| <= 2^29 shared by all
    /// elements (minmaxnorm: differences cannot overflow i32, and the quotient stays decidable for CBMC —
    /// with independent 30-bit values the two f64 division circuits do not come back within 600 s)
    Wide,
}

/// symbolic keys; `nullable == false` forces every key valid
pub fn keys<const N: usize>(alpha: Alpha, nullable: bool) -> [Option<i32>; N] {
    let mut k: [Option<i32>; N] = kani::any();
    let hi: i32 = if N > 3 { N as i32 - 1 } else { 2 };
    // Wide: one symbolic offset shared by all elements
    let base: i32 = kani::any();
    kani::assume(base >= -(1 << 29) && base <= (1 << 29));
    let mut i = 0;
    while i < N {
        match k[i] {
            Some(v) => match alpha {
                Alpha::Small => kani::assume(v >= 0 && v <= hi),
                Alpha::Any => {},
                Alpha::Wide => {
                    kani::assume(v >= 0 && v <= hi);
                    k[i] = Some(base + v);
                },
            },
            None => kani::assume(nullable),
        }
        i += 1;
    }
    k
}

/// element types of the input container
pub trait In: Copy + IsNone {
    fn from_key(k: Option<i32>) -> Self;
}
impl In for Option<i32> {
    fn from_key(k: Option<i32>) -> Self {
        k
    }
}
impl In for i32 {
    fn from_key(k: Option<i32>) -> Self {
        match k {
            Some(v) => v,
            None => 0, // excluded by `nullable == false`
        }
    }
}
impl In for f64 {
    fn from_key(k: Option<i32>) -> Self {
        match k {
            Some(v) => v as f64,
            None => f64::NAN,
        }
    }
}

pub fn input<T: In, const N: usize>(k: &[Option<i32>; N]) -> Vec<T> {
    let mut a = [T::from_key(None); N];
    let mut i = 0;
    while i < N {
        a[i] = T::from_key(k[i]);
        i += 1;
    }
    a.to_vec()
}

/// element types of the output container
pub trait Out: Copy {
    fn null(&self) -> bool;
    /// non-null and equal to the integer `v`
    fn is_int(&self, v: i32) -> bool;
    /// non-null and equal to the float `v` (v is never NaN)
    fn is_f(&self, v: f64) -> bool;
}
impl Out for f64 {
    fn null(&self) -> bool {
        self.is_nan()
    }
    fn is_int(&self, v: i32) -> bool {
        *self == v as f64
    }
    fn is_f(&self, v: f64) -> bool {
        *self == v
    }
}
impl Out for Option<f64> {
    fn null(&self) -> bool {
        self.is_none()
    }
    fn is_int(&self, v: i32) -> bool {
        match self {
            Some(x) => *x == v as f64,
            None => false,
        }
    }
    fn is_f(&self, v: f64) -> bool {
        match self {
            Some(x) => *x == v,
            None => false,
        }
    }
}
impl Out for Option<i32> {
    fn null(&self) -> bool {
        self.is_none()
    }
    fn is_int(&self, v: i32) -> bool {
        *self == Some(v)
    }
    fn is_f(&self, v: f64) -> bool {
        match self {
            Some(x) => *x as f64 == v,
            None => false,
        }
    }
}

// ---------------------------------------------------------------------------------------------
// parameters
// ---------------------------------------------------------------------------------------------

#[derive(Clone, Copy)]
pub struct Par {
    pub w: usize,
    pub mp: Option<usize>,
    /// effective min_periods per the statement: the explicit value, else floor(w/2)
    pub eff: usize,
}

/// `omitted_needs_full`: omitted min_periods only for N >= w (extrema/rank family, DESIGN 5.3)
pub fn params<const N: usize>(omitted_needs_full: bool) -> Par {
    let w: usize = kani::any();
    kani::assume(w >= 1 && w <= N + 2);
    let explicit: bool = kani::any();
    let m: usize = kani::any();
    kani::assume(m <= w);
    if !explicit && omitted_needs_full {
        kani::assume(N >= w);
    }
    let mp = if explicit { Some(m) } else { None };
    let eff = if explicit { m } else { w / 2 };
    Par { w, mp, eff }
}

// ---------------------------------------------------------------------------------------------
// oracle: from-scratch scan of one window
// ---------------------------------------------------------------------------------------------

#[derive(Clone, Copy)]
pub struct Win {
    pub start: usize,
    /// number of valid elements
    pub cnt: usize,
    pub min: i32,
    pub max: i32,
    /// most recent position holding the minimum / maximum (meaningful when cnt > 0)
    pub pmin: usize,
    pub pmax: usize,
    /// valid elements strictly below / equal to (including itself) the current element x[i]
    pub less: usize,
    pub eq: usize,
}

pub fn scan<const N: usize>(k: &[Option<i32>; N], w: usize, i: usize) -> Win {
    let start = if i + 1 >= w { i + 1 - w } else { 0 };
    let mut r = Win { start, cnt: 0, min: 0, max: 0, pmin: 0, pmax: 0, less: 0, eq: 0 };
    // concrete loop bounds and concrete indices (cheap for CBMC); membership in the window is the predicate j >= start
    let mut j = 0;
    while j <= i {
        if j + w > i {
            if let Some(v) = k[j] {
                if r.cnt == 0 || v <= r.min {
                    r.min = v;
                    r.pmin = j;
                }
                if r.cnt == 0 || v >= r.max {
                    r.max = v;
                    r.pmax = j;
                }
                r.cnt += 1;
                if let Some(c) = k[i] {
                    if v < c {
                        r.less += 1;
                    } else if v == c {
                        r.eq += 1;
                    }
                }
            }
        }
        j += 1;
    }
    r
}

pub fn scan_all<const N: usize>(k: &[Option<i32>; N], w: usize) -> [Win; N] {
    let mut a = [Win { start: 0, cnt: 0, min: 0, max: 0, pmin: 0, pmax: 0, less: 0, eq: 0 }; N];
    let mut i = 0;
    while i < N {
        a[i] = scan(k, w, i);
        i += 1;
    }
    a
}

// ---------------------------------------------------------------------------------------------
// vacuity witnesses (flags are set in generic code, `kani::cover!` is emitted by the harness)
// ---------------------------------------------------------------------------------------------

#[derive(Clone, Copy, Default)]
pub struct Cov {
    /// the extreme of the previous window sits at the position that expires and x[i] is null
    pub expire_min_null: bool,
    pub expire_max_null: bool,
    /// a window without any valid element
    pub all_null: bool,
    /// x[i-1] == x[i], both valid
    pub tie_consec: bool,
    /// strictly increasing / decreasing run over the whole series with w < N (every step expires the min / max)
    pub mono_inc: bool,
    pub mono_dec: bool,
    pub null_out: bool,
    pub val_out: bool,
    /// omitted min_periods reached
    pub omitted: bool,
    /// rank variants for which a non-null rank was compared
    pub asc_abs: bool,
    pub asc_pct: bool,
    pub desc_abs: bool,
    pub desc_pct: bool,
    pub rank_tie: bool,
    pub spread0: bool,
}

impl Cov {
    /// union of the witnesses of two runs (harnesses that cover two lengths)
    pub fn or(self, o: Cov) -> Cov {
        Cov {
            expire_min_null: self.expire_min_null || o.expire_min_null,
            expire_max_null: self.expire_max_null || o.expire_max_null,
            all_null: self.all_null || o.all_null,
            tie_consec: self.tie_consec || o.tie_consec,
            mono_inc: self.mono_inc || o.mono_inc,
            mono_dec: self.mono_dec || o.mono_dec,
            null_out: self.null_out || o.null_out,
            val_out: self.val_out || o.val_out,
            omitted: self.omitted || o.omitted,
            asc_abs: self.asc_abs || o.asc_abs,
            asc_pct: self.asc_pct || o.asc_pct,
            desc_abs: self.desc_abs || o.desc_abs,
            desc_pct: self.desc_pct || o.desc_pct,
            rank_tie: self.rank_tie || o.rank_tie,
            spread0: self.spread0 || o.spread0,
        }
    }
}

pub fn witnesses<const N: usize>(k: &[Option<i32>; N], p: &Par, ws: &[Win; N], c: &mut Cov) {
    c.omitted = p.mp.is_none();
    let mut inc = N >= 2 && p.w < N;
    let mut dec = inc;
    let mut i = 0;
    while i < N {
        let wi = ws[i];
        if wi.cnt == 0 {
            c.all_null = true;
        }
        if i >= 1 {
            if let (Some(a), Some(b)) = (k[i - 1], k[i]) {
                if a == b {
                    c.tie_consec = true;
                }
                if !(a < b) {
                    inc = false;
                }
                if !(a > b) {
                    dec = false;
                }
            } else {
                inc = false;
                dec = false;
            }
            if i >= p.w && k[i].is_none() {
                let prev = ws[i - 1];
                if prev.cnt > 0 && prev.pmin == i - p.w {
                    c.expire_min_null = true;
                }
                if prev.cnt > 0 && prev.pmax == i - p.w {
                    c.expire_max_null = true;
                }
            }
        } else if k[0].is_none() {
            inc = false;
            dec = false;
        }
        i += 1;
    }
    c.mono_inc = inc;
    c.mono_dec = dec;
}

// ---------------------------------------------------------------------------------------------
// kernels
// ---------------------------------------------------------------------------------------------

/// which part of the arg-extreme law a harness asserts
#[derive(Clone, Copy, PartialEq)]
pub enum ArgPart {
    /// everything except "all-null window with effective min_periods 0"
    Main,
    /// only "all-null window with effective min_periods 0 is null"
    AllNullMp0,
}

pub fn run_min<T: In, U: Out, const N: usize>(alpha: Alpha, nullable: bool) -> Cov
where
    T::Inner: Number,
    Option<T::Inner>: Cast<U>,
    Vec<U>: Vec1<U>,
    Vec<T>: Vec1View<T>,
{
    let k = keys::<N>(alpha, nullable);
    let p = params::<N>(true);
    let v: Vec<T> = input(&k);
    let ws = scan_all(&k, p.w);
    let out: Vec<U> = v.ts_vmin(p.w, p.mp);
    let mut c = Cov::default();
    assert!(out.len() == N, "vmin: one output per input");
    let mut i = 0;
    while i < N {
        let wi = ws[i];
        if wi.cnt < p.eff || wi.cnt == 0 {
            c.null_out = true;
            assert!(out[i].null(), "vmin: null iff valid count below min_periods or window has no valid element");
        } else {
            c.val_out = true;
            assert!(out[i].is_int(wi.min), "vmin: equals the least valid element of the window");
        }
        i += 1;
    }
    witnesses(&k, &p, &ws, &mut c);
    c
}

pub fn run_max<T: In, U: Out, const N: usize>(alpha: Alpha, nullable: bool) -> Cov
where
    T::Inner: Number,
    Option<T::Inner>: Cast<U>,
    Vec<U>: Vec1<U>,
    Vec<T>: Vec1View<T>,
{
    let k = keys::<N>(alpha, nullable);
    let p = params::<N>(true);
    let v: Vec<T> = input(&k);
    let ws = scan_all(&k, p.w);
    let out: Vec<U> = v.ts_vmax(p.w, p.mp);
    let mut c = Cov::default();
    assert!(out.len() == N, "vmax: one output per input");
    let mut i = 0;
    while i < N {
        let wi = ws[i];
        if wi.cnt < p.eff || wi.cnt == 0 {
            c.null_out = true;
            assert!(out[i].null(), "vmax: null iff valid count below min_periods or window has no valid element");
        } else {
            c.val_out = true;
            assert!(out[i].is_int(wi.max), "vmax: equals the greatest valid element of the window");
        }
        i += 1;
    }
    witnesses(&k, &p, &ws, &mut c);
    c
}

pub fn run_arg<T: In, U: Out, const N: usize>(alpha: Alpha, nullable: bool, is_max: bool, part: ArgPart) -> Cov
where
    T::Inner: Number,
    f64: Cast<U>,
    Vec<U>: Vec1<U>,
    Vec<T>: Vec1View<T>,
{
    let k = keys::<N>(alpha, nullable);
    let p = params::<N>(true);
    let v: Vec<T> = input(&k);
    let ws = scan_all(&k, p.w);
    let out: Vec<U> = if is_max { v.ts_vargmax(p.w, p.mp) } else { v.ts_vargmin(p.w, p.mp) };
    let mut c = Cov::default();
    assert!(out.len() == N, "varg: one output per input");
    let mut i = 0;
    while i < N {
        let wi = ws[i];
        if wi.cnt == 0 && p.eff == 0 {
            if part == ArgPart::AllNullMp0 {
                c.null_out = true;
                assert!(out[i].null(), "varg: an all-null window has no arg-extreme (null) even with min_periods 0");
            }
        } else if part == ArgPart::Main {
            if wi.cnt < p.eff || wi.cnt == 0 {
                c.null_out = true;
                assert!(out[i].null(), "varg: null iff valid count below min_periods or window has no valid element");
            } else {
                c.val_out = true;
                let pos = if is_max { wi.pmax } else { wi.pmin };
                assert!(
                    out[i].is_int((pos - wi.start + 1) as i32),
                    "varg: 1-based offset from the window start of the most recent position holding the extreme"
                );
            }
        }
        i += 1;
    }
    witnesses(&k, &p, &ws, &mut c);
    c
}

pub fn run_rank<T: In, U: Out, const N: usize>(alpha: Alpha, nullable: bool) -> Cov
where
    T::Inner: Number,
    f64: Cast<U>,
    Vec<U>: Vec1<U>,
    Vec<T>: Vec1View<T>,
{
    let k = keys::<N>(alpha, nullable);
    let p = params::<N>(true);
    let pct: bool = kani::any();
    let rev: bool = kani::any();
    let v: Vec<T> = input(&k);
    let ws = scan_all(&k, p.w);
    let out: Vec<U> = v.ts_vrank(p.w, p.mp, pct, rev);
    let mut c = Cov::default();
    assert!(out.len() == N, "vrank: one output per input");
    let mut i = 0;
    while i < N {
        let wi = ws[i];
        if wi.cnt < p.eff || k[i].is_none() {
            c.null_out = true;
            assert!(out[i].null(), "vrank: null iff valid count below min_periods or current element null");
        } else {
            c.val_out = true;
            match (rev, pct) {
                (false, false) => c.asc_abs = true,
                (false, true) => c.asc_pct = true,
                (true, false) => c.desc_abs = true,
                (true, true) => c.desc_pct = true,
            }
            if wi.eq > 1 {
                c.rank_tie = true;
            }
            // twice the average rank: ranks less+1 ..= less+eq  ->  2*less + eq + 1
            let asc2 = 2 * wi.less + wi.eq + 1;
            let r2 = if rev { 2 * (wi.cnt + 1) - asc2 } else { asc2 };
            let mut e = r2 as f64 * 0.5;
            if pct {
                e = e / wi.cnt as f64;
            }
            assert!(out[i].is_f(e), "vrank: average rank of the current element among the valid elements of the window");
        }
        i += 1;
    }
    witnesses(&k, &p, &ws, &mut c);
    c
}

pub fn run_minmaxnorm<T: In, U: Out, const N: usize>(alpha: Alpha, nullable: bool) -> Cov
where
    T::Inner: Number,
    f64: Cast<U>,
    Vec<U>: Vec1<U>,
    Vec<T>: Vec1View<T>,
{
    let k = keys::<N>(alpha, nullable);
    let p = params::<N>(false);
    // ts_vminmaxnorm clamps min_periods to the requested window; explicit m <= w and floor(w/2) <= w already
    let v: Vec<T> = input(&k);
    let ws = scan_all(&k, p.w);
    let out: Vec<U> = v.ts_vminmaxnorm(p.w, p.mp);
    let mut c = Cov::default();
    assert!(out.len() == N, "vminmaxnorm: one output per input");
    let mut i = 0;
    while i < N {
        let wi = ws[i];
        match k[i] {
            Some(x) if wi.cnt >= p.eff && wi.max != wi.min => {
                c.val_out = true;
                // the same f64 expression as the kernel, over the oracle's extremes
                let e = (x - wi.min) as f64 / (wi.max - wi.min) as f64;
                assert!(out[i].is_f(e), "vminmaxnorm: (x-min)/(max-min) over the valid elements of the window");
            },
            _ => {
                c.null_out = true;
                if k[i].is_some() && wi.cnt >= p.eff {
                    c.spread0 = true;
                }
                assert!(out[i].null(), "vminmaxnorm: null iff count below min_periods, x null or max == min");
            },
        }
        i += 1;
    }
    witnesses(&k, &p, &ws, &mut c);
    c
}

/// Isolated defect: with unconstrained i32 values the kernel itself must not panic. (It does: `v - min` and
/// `max - min` are formed in the element type.) Only the length is asserted here; the failing check is the
/// kernel's own "attempt to subtract with overflow".
pub fn run_minmaxnorm_fullrange<const N: usize>() -> Cov {
    let k = keys::<N>(Alpha::Any, true);
    let p = params::<N>(false);
    let v: Vec<Option<i32>> = input(&k);
    let out: Vec<f64> = v.ts_vminmaxnorm(p.w, p.mp);
    let mut c = Cov::default();
    assert!(out.len() == N, "vminmaxnorm (full i32 range): one output per input");
    c.val_out = true;
    c
}

include!("c03_gen.rs");
