//! Shared helpers for harnesses.

/// Stub for `std::fmt::format`: error paths (`tbail!`, `terr!`) build messages with `format!`;
/// the text is irrelevant to every property checked here.
pub fn fmt_stub(_args: std::fmt::Arguments<'_>) -> String {
    String::new()
}
