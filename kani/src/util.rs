//! Shared helpers for harnesses: symbolic arrays, backend constructors, a thin view that inherits
//! every default body of `Vec1View`, and the `Logged` output container of C10.
use std::collections::VecDeque;
use std::sync::Arc;

use ndarray::{Array1, ArrayView1, s};
use tea_core::prelude::*;

/// Stub for `std::fmt::format`: error paths (`tbail!`, `terr!`) build messages with `format!`;
/// the text is irrelevant to every property checked here.
pub fn fmt_stub(_args: std::fmt::Arguments<'_>) -> String {
    String::new()
}

/// `[T; N]` of unconstrained values.
pub fn any_arr<T: kani::Arbitrary + Copy, const N: usize>() -> [T; N] {
    kani::any()
}

/// Option<i32> array with an unconstrained null mask.
pub fn any_opt_arr<const N: usize>() -> [Option<i32>; N] {
    kani::any()
}

/// small-alphabet i32 (forces ties) in lo..=hi
pub fn small_i32(lo: i32, hi: i32) -> i32 {
    let v: i32 = kani::any();
    kani::assume(v >= lo && v <= hi);
    v
}

/// f64 built from a small integer with a symbolic NaN flag (canonical null), exact in f64.
pub fn small_f64_or_nan(lo: i32, hi: i32) -> f64 {
    if kani::any() { f64::NAN } else { small_i32(lo, hi) as f64 }
}

// ---------------------------------------------------------------------------------------------
// Backend constructors: each turns the logical sequence `x` into one container type.
// ---------------------------------------------------------------------------------------------

/// VecDeque whose ring buffer head is rotated by `rot` slots (wrapped layout when 0 < rot).
pub fn deque_rot<T: Clone + Default>(x: &[T], rot: usize) -> VecDeque<T> {
    let mut d: VecDeque<T> = VecDeque::with_capacity(x.len().max(1));
    for _ in 0..rot {
        d.push_back(T::default());
        d.pop_front();
    }
    for v in x {
        d.push_back(v.clone());
    }
    d
}

/// owned ndarray
pub fn nd_owned<T: Clone>(x: &[T]) -> Array1<T> {
    Array1::from_vec(x.to_vec())
}

/// storage for a reversed view: returns the array holding x reversed; `.slice(s![..;-1])` is x.
pub fn nd_rev_storage<T: Clone>(x: &[T]) -> Array1<T> {
    let mut v = x.to_vec();
    v.reverse();
    Array1::from_vec(v)
}

/// storage for a strided view with step `k`: element i of x sits at k*i; `.slice(s![..;k])` is x.
pub fn nd_step_storage<T: Clone + Default>(x: &[T], k: usize) -> Array1<T> {
    let mut v = Vec::with_capacity(x.len() * k);
    for e in x {
        v.push(e.clone());
        for _ in 1..k {
            v.push(T::default());
        }
    }
    Array1::from_vec(v)
}

/// A thin view over a slice that supplies only the required methods of the view traits, so that
/// every *default* body in `tea-core/src/vec_core/cores/view.rs` is what runs.
pub struct DefView<'a, T>(pub &'a [T]);

impl<T> GetLen for DefView<'_, T> {
    fn len(&self) -> usize {
        self.0.len()
    }
}

impl<T: Clone> TIter<T> for DefView<'_, T> {
    fn titer(&self) -> impl TIterator<Item = T> + '_ {
        self.0.iter().cloned()
    }
}

impl<'s, T: Clone> Vec1View<T> for DefView<'s, T> {
    type SliceOutput<'a>
        = &'a [T]
    where
        Self: 'a;

    fn get_backend_name(&self) -> &'static str {
        "defview"
    }

    fn slice<'a>(&'a self, start: usize, end: usize) -> TResult<Self::SliceOutput<'a>>
    where
        T: 'a,
    {
        Ok(&self.0[start..end])
    }

    unsafe fn uget(&self, index: usize) -> T {
        // checked on purpose: an out-of-range index from a kernel becomes a harness failure
        self.0[index].clone()
    }
}

/// Uniform read access to the window objects handed to slice callbacks (no allocation).
pub trait Win<T> {
    fn wlen(&self) -> usize;
    fn wget(&self, j: usize) -> T;
}

impl<T: Copy> Win<T> for &[T] {
    fn wlen(&self) -> usize {
        self.len()
    }
    fn wget(&self, j: usize) -> T {
        self[j]
    }
}

impl<T: Copy> Win<T> for std::collections::vec_deque::Iter<'_, T> {
    fn wlen(&self) -> usize {
        ExactSizeIterator::len(self)
    }
    fn wget(&self, j: usize) -> T {
        *self.clone().nth(j).unwrap()
    }
}

impl<T: Copy> Win<T> for ArrayView1<'_, T> {
    fn wlen(&self) -> usize {
        self.len()
    }
    fn wget(&self, j: usize) -> T {
        self[j]
    }
}

impl<T: Copy> Win<T> for Vec<T> {
    fn wlen(&self) -> usize {
        self.len()
    }
    fn wget(&self, j: usize) -> T {
        self[j]
    }
}

pub fn umin(a: usize, b: usize) -> usize {
    if a < b { a } else { b }
}
