// overwritten by ./check during counterexample replay; intentionally empty.
